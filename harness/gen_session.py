"""Generators for the session family: initial states (valid forests, label arrays) and
operation choices biased to the interesting cases. Every choice comes from the `rng` given."""
from __future__ import annotations

import random
from typing import Any

import networkx as nx
import numpy as np

from . import ftstate as F


def gen_forest(rng: random.Random, max_nodes: int, frames: int) -> tuple[list[dict], list[dict]]:
    n = rng.randint(0, max_nodes)
    ids = rng.sample(range(1, 40), n)
    nodes = []
    for nid in ids:
        nodes.append({"id": nid, "time": rng.randrange(frames), "pos": rng.randrange(1, 50)})
    # edges: each node may pick a parent among strictly earlier nodes with < 2 children
    edges: list[dict] = []
    out: dict[int, int] = {x["id"]: 0 for x in nodes}
    order = sorted(nodes, key=lambda x: (x["time"], rng.random()))
    for x in order:
        cands = [y for y in nodes if y["time"] < x["time"] and out[y["id"]] < 2]
        if cands and rng.random() < 0.75:
            # prefer the previous frame, allow skip edges
            cands.sort(key=lambda y: (x["time"] - y["time"], rng.random()))
            p = cands[0] if rng.random() < 0.7 else rng.choice(cands)
            edges.append({"u": p["id"], "v": x["id"]})
            out[p["id"]] += 1
    rng.shuffle(nodes)  # insertion order independent of time
    rng.shuffle(edges)
    return nodes, edges


def assign_ids(rng: random.Random, nodes: list[dict], edges: list[dict]) -> None:
    """valid, non-contiguous track and lineage ids"""
    g = nx.DiGraph()
    g.add_nodes_from(x["id"] for x in nodes)
    g.add_edges_from((e["u"], e["v"]) for e in edges)
    g2 = g.copy()
    for n in g.nodes:
        if g.out_degree(n) >= 2:
            for c in list(g.successors(n)):
                g2.remove_edge(n, c)
    segs = list(nx.weakly_connected_components(g2))
    comps = list(nx.weakly_connected_components(g))
    tids = rng.sample(range(1, 3 * len(segs) + 3), len(segs))
    lins = rng.sample(range(1, 3 * len(comps) + 3), len(comps))
    # track ids beyond the range of narrow integer types (ids are never reused, a subset of a
    # large project carries few but large ids)
    if tids and rng.random() < 0.12:
        off = rng.choice([250, 253, 65530, 70000])
        tids = [t + off for t in tids]
    # ids numbered from 0 are legitimate (other tools number tracks and lineages from 0)
    if tids and rng.random() < 0.2:
        tids[rng.randrange(len(tids))] = 0
    if lins and rng.random() < 0.15:
        lins[rng.randrange(len(lins))] = 0
    tid = {n: t for s, t in zip(segs, tids) for n in s}
    lin = {n: l for s, l in zip(comps, lins) for n in s}
    for x in nodes:
        x["tid"] = tid[x["id"]]
        x["lin"] = lin[x["id"]]


def gen_seg(rng: random.Random, nodes: list[dict], edges: list[dict], shape: tuple, tiled: bool | None = None) -> list[int]:
    frame = int(np.prod(shape[1:]))
    T = shape[0]
    data = [0] * (T * frame)
    parent = {e["v"]: e["u"] for e in edges}
    offs: dict[int, list[int]] = {}
    by_time = sorted(nodes, key=lambda x: x["time"])
    for x in by_time:
        t = x["time"]
        free = [o for o in range(frame) if data[t * frame + o] == 0]
        if not free:
            continue
        k = rng.randint(1, min(4, len(free)))
        pref = [o for o in offs.get(parent.get(x["id"], -1), []) if o in free]
        chosen: list[int] = []
        if pref and rng.random() < 0.7:
            chosen = rng.sample(pref, min(len(pref), rng.randint(1, k)))
        rest = [o for o in free if o not in chosen]
        # grow a blob: neighbours in flat order
        while len(chosen) < k and rest:
            if chosen and rng.random() < 0.7:
                near = [o for o in rest if any(abs(o - c) in (1, shape[-1]) for c in chosen)]
                o = rng.choice(near) if near else rng.choice(rest)
            else:
                o = rng.choice(rest)
            chosen.append(o)
            rest.remove(o)
        offs[x["id"]] = chosen
        for o in chosen:
            data[t * frame + o] = x["id"]
    if nodes and (tiled if tiled is not None else rng.random() < 0.08):
        # no background at all in the frames that hold nodes: every remaining pixel goes to one of the
        # frame's nodes (a node that is alone in its frame fills it; confluent cells tile it)
        for t in range(T):
            here = sorted({data[t * frame + o] for o in range(frame)} - {0})
            if not here:
                continue
            for o in range(frame):
                if data[t * frame + o] == 0:
                    data[t * frame + o] = rng.choice(here)
    return data


def gen_case(rng: random.Random, cfg: str | None = None, max_nodes: int = 8, frames: int = 5,
             with_ids: bool | None = None, ndim: int | None = None) -> dict:
    cfg = cfg or rng.choice(["pos", "pos", "axes", "seg", "seg"])
    ndim = ndim or (rng.choice([3, 3, 4]) if cfg != "seg" else rng.choice([3, 3, 3, 4]))
    long_movie = cfg == "seg" and ndim == 3 and frames == 5 and rng.random() < 0.03
    if long_movie:
        frames = 300   # more frames than a byte can count (small frames: 3 x 3)
    tiny = None
    if cfg == "seg" and frames == 5 and not long_movie and rng.random() < 0.05:
        # degenerate sizes: one or two frames of 1 x N / 2 x 2 pixels (a singleton z axis in 3D+t),
        # completely covered by the nodes
        frames = rng.choice([1, 1, 2])
        tiny = (frames, 1, 4) if ndim == 3 else (frames, 1, 2, 2)
        if ndim == 3 and rng.random() < 0.5:
            tiny = (frames, 2, 2)
        max_nodes = min(max_nodes, 3 * frames)
    nodes, edges = gen_forest(rng, max_nodes, frames)
    with_ids = rng.random() < 0.8 if with_ids is None else with_ids
    spec: dict[str, Any] = {"cfg": cfg, "ndim": ndim, "with_ids": with_ids}
    if with_ids:
        assign_ids(rng, nodes, edges)
    for x in nodes:
        if rng.random() < 0.3:
            x["score"] = rng.randrange(100)
    for e in edges:
        if rng.random() < 0.3:
            e["w"] = rng.randrange(100)
    if cfg == "seg":
        shape = ((frames, 5, 5) if not long_movie else (frames, 3, 3)) if ndim == 3 else (frames, 3, 3, 3)
        if tiny is not None:
            shape = tiny
        spec["shape"] = list(shape)
        spec["tiled"] = tiny is not None or rng.random() < 0.08
        spec["seg"] = gen_seg(rng, nodes, edges, shape, tiled=spec["tiled"])
        # a node without pixels cannot exist in a consistent state: drop it
        have = set(spec["seg"])
        nodes = [x for x in nodes if x["id"] in have]
        ids = {x["id"] for x in nodes}
        edges = [e for e in edges if e["u"] in ids and e["v"] in ids]
        if with_ids:
            assign_ids(rng, nodes, edges)
        r = rng.random()
        spec["scale"] = None if r < 0.4 else ([1.0] * ndim if r < 0.6 else
                                              [1.0] + [rng.choice([0.5, 1.0, 2.0, 3.0]) for _ in range(ndim - 1)])
        en = []
        if rng.random() < 0.6:
            en.append(F.K_IOU)
        if ndim == 3 and spec["scale"] in (None, [1.0] * ndim) and rng.random() < 0.3:
            en += rng.sample([F.K_ELL, F.K_CIRC, F.K_PERIM], rng.randint(1, 3))
        elif ndim == 4 and spec["scale"] in (None, [1.0] * ndim) and rng.random() < 0.35:
            # 3D+t: surface area / sphericity (the ellipsoid axes raise "math domain error" on the
            # flat masks a 3x3x3 volume mostly holds — upstream numerics, not generated)
            en += rng.sample([F.K_CIRC, F.K_PERIM], rng.randint(1, 2))
        if spec.get("tiled"):
            # (shape descriptors of 1-pixel-wide images and of masks without any boundary inside the
            #  frame — no surface to mesh —: upstream numerics, not generated)
            en = [k for k in en if k == F.K_IOU]
        spec["enable"] = en
    else:
        r = rng.random()
        spec["scale"] = None if r < 0.6 else [1.0] * ndim
    if cfg == "seg":
        # label dtype and magnitude of ids: products / casts of labels overflow only for large ids
        # in narrow dtypes
        r = rng.random()
        base = 0 if r < 0.7 else (46400 if r < 0.85 else 70000)
        spec["seg_dtype"] = rng.choice(["int32", "int32", "int64", "uint32"]) if base else rng.choice(["int64", "int64", "int32", "uint16", "uint32", "uint8", "int16"])
        if base:
            spec["id_base"] = base
            for x in nodes:
                x["id"] += base
            for e in edges:
                e["u"] += base
                e["v"] += base
            spec["seg"] = [v + base if v else 0 for v in spec["seg"]]
    elif nodes and rng.random() < 0.12:
        # node id 0 is a legitimate id when there is no label array
        victim = rng.choice(nodes)["id"]
        for x in nodes:
            if x["id"] == victim:
                x["id"] = 0
        for e in edges:
            e["u"] = 0 if e["u"] == victim else e["u"]
            e["v"] = 0 if e["v"] == victim else e["v"]
    spec["nodes"] = nodes
    spec["edges"] = edges
    r_ = rng.random()
    if r_ < 0.1:
        spec["via"] = "deepcopy"    # the object edited is a deep copy of the constructed one
    elif r_ < 0.22:
        spec["via"] = "saveload"    # … or has been saved and loaded again (internal format)
    elif r_ < 0.32:
        spec["via"] = "from_tracks"  # … or was converted from a plain Tracks object
    if rng.random() < 0.15:
        spec["time_dtype"] = rng.choice(["int64", "uint16", "uint8", "int32"])
    if rng.random() < 0.15:
        spec["ids_np"] = True
    if spec.get("scale") is not None and rng.random() < 0.4:
        spec["scale_type"] = rng.choice(["tuple", "ndarray", "ndarray"])
    if rng.random() < 0.2:
        spec["prebuilt"] = True   # constructed from a pre-built FeatureDict
        if rng.random() < 0.35:
            spec["prebuilt_no_lineage"] = True
    if rng.random() < 0.5:
        spec["w_unregistered"] = True   # the custom edge feature is registered later (or never)
    if cfg == "seg" and rng.random() < 0.15:
        # the label array is not C-contiguous: a crop of a larger array / Fortran order
        spec["seg_layout"] = rng.choice(["crop", "F"])
    if cfg == "seg" and not spec.get("prebuilt") and spec.get("via") in (None, "deepcopy") and rng.random() < 0.15:
        # computed features renamed (annotators.change_key) while still inactive, enabled under the new key
        names = {F.K_IOU: "overlap", F.K_CIRC: "roundness", F.K_PERIM: "border", F.K_ELL: "axes_radii"}
        spec["rename"] = {str(k): names[k] for k in rng.sample(sorted(names), rng.randint(1, 2))}
    return spec


def gen_big_case(rng: random.Random) -> dict:
    """a LARGE structure: 45-70 frames, a track that spans all of them (so a leaf has dozens of
    ancestors), divisions with multi-pixel sibling branches, several lineages, node ids of the
    common `frame * K + label` scheme (spread over a wide numeric range). Size- and range-dependent
    code paths (numpy's sort-based set operations, chunked loops, caches keyed by small ints) are
    only reached by inputs of this kind."""
    T = rng.randint(45, 70)
    K = rng.choice([1000, 1000, 1000, 10000])
    shape = (T, 5, 5)
    frame = 25
    nodes: list[dict] = []
    edges: list[dict] = []
    data = [0] * (T * frame)
    slots_used: dict[int, int] = {}

    def new_node(t: int) -> int | None:
        j = slots_used.get(t, 0) + 1
        if j > 4:
            return None
        slots_used[t] = j
        nid = t * K + j
        nodes.append({"id": nid, "time": t, "pos": rng.randrange(1, 50)})
        free = [o for o in range(frame) if data[t * frame + o] == 0]
        k = rng.randint(2, 4)
        start = rng.choice(free)
        chosen = [start]
        for o in free:
            if len(chosen) >= k:
                break
            if o != start and any(abs(o - c) in (1, 5) for c in chosen):
                chosen.append(o)
        for o in chosen:
            data[t * frame + o] = nid
        return nid

    def grow(t0: int, t1: int, parent: int | None, depth: int) -> None:
        prev = parent
        t = t0
        while t < t1:
            n = new_node(t)
            if n is None:
                return
            if prev is not None:
                edges.append({"u": prev, "v": n})
            prev = n
            if depth < 2 and t + 2 < t1 and rng.random() < 0.08:
                # division: a sibling branch of a few frames, the main branch goes on
                grow(t + 1, min(t1, t + 1 + rng.randint(2, 8)), prev, depth + 1)
            t += 1 if rng.random() < 0.9 else 2  # occasional skip edge

    grow(0, T, None, 0)
    for _ in range(rng.randint(1, 2)):
        a = rng.randrange(0, T - 5)
        grow(a, min(T, a + rng.randint(3, 25)), None, 1)
    spec: dict[str, Any] = {"cfg": "seg", "ndim": 3, "with_ids": True, "shape": list(shape), "seg": data,
                            "scale": None, "enable": [], "seg_dtype": rng.choice(["int32", "uint32", "int64"]),
                            "big": True}
    assign_ids(rng, nodes, edges)
    rng.shuffle(nodes)
    rng.shuffle(edges)
    spec["nodes"] = nodes
    spec["edges"] = edges
    return spec


# ---- operation choice ----------------------------------------------------------------------

def pick_node(rng, tracks, fresh_ok=False):
    ns = list(tracks.graph.nodes)
    if not ns or (fresh_ok and rng.random() < 0.08):
        return getattr(tracks, "_verif_id_base", 0) + rng.randrange(1, 60)
    return rng.choice(ns)


def fresh_node_id(rng, tracks) -> int:
    base = getattr(tracks, "_verif_id_base", 0)
    taken = getattr(tracks, "_verif_orphans", None)
    if taken is None:
        # labels of the array that belong to no node (only in "orphan label" cases): not fresh
        seg = getattr(tracks, "segmentation", None)
        taken = set() if seg is None else {int(v) for v in np.unique(seg) if v and int(v) not in tracks.graph and int(v) >= 60 and int(v) < 200}
    while True:
        n = base + rng.randrange(1, 80)
        if n not in tracks.graph and n not in taken:
            return n


def gen_op(rng: random.Random, case: F.Case, tracks, kinds: list[str], always_recompute: bool = False) -> dict:
    """one operation with arguments biased to the interesting cases of the current state"""
    g = tracks.graph
    T = case.shape[0] if case.shape else 5
    kind = rng.choice(kinds)
    nodes = list(g.nodes)
    tids = sorted({g.nodes[n].get("track_id") for n in nodes if g.nodes[n].get("track_id") is not None})
    if kind == "addedge":
        if len(nodes) >= 2 and rng.random() < 0.95:
            u, v = rng.sample(nodes, 2)  # both temporal orders, same frame
            if rng.random() < 0.5 and g.nodes[u]["time"] > g.nodes[v]["time"]:
                u, v = v, u
        else:
            u, v = pick_node(rng, tracks, True), pick_node(rng, tracks, True)
        return {"op": "addedge", "u": u, "v": v, "force": int(rng.random() < 0.4)}
    if kind == "deledge":
        es = list(g.edges)
        if es and rng.random() < 0.9:
            u, v = rng.choice(es)
        else:
            u, v = pick_node(rng, tracks, True), pick_node(rng, tracks, True)
        return {"op": "deledge", "u": u, "v": v}
    if kind == "addnode":
        nid = fresh_node_id(rng, tracks) if rng.random() < 0.93 else pick_node(rng, tracks)
        r = rng.random()
        if tids and r < 0.6:
            tid = rng.choice(tids)
        elif r < 0.8:
            tid = tracks.get_next_track_id()
        else:
            tid = rng.randrange(1, 40)  # far-away / non-contiguous id
        time = rng.randrange(T)
        op: dict[str, Any] = {"op": "addnode", "id": nid, "time": time, "tid": tid,
                              "force": int(rng.random() < 0.4)}
        if rng.random() < 0.04:
            op["time"] = None
        if rng.random() < 0.04:
            op["tid"] = None
        # (a lineage id is never passed explicitly: the action derives it; a caller that passes
        #  one is responsible for its consistency)
        if rng.random() < 0.25:
            op["score"] = rng.randrange(100)
        if case.cfg == "seg" and case.spec.get("orphan_labels") and rng.random() < 0.5:
            segf = tracks.segmentation.reshape(-1)
            orph = sorted({int(v) for v in segf if v and int(v) not in g})
            if orph:
                lab = rng.choice(orph)
                pos0 = int(np.nonzero(segf == lab)[0][0])
                op.update(id=lab, time=pos0 // case.frame, pixels=None, pos=rng.randrange(1, 50))
                return op
        if case.cfg == "seg":
            free = free_pixels(case, tracks, time) if op["time"] is not None else []
            if free and rng.random() < 0.8:
                op["pixels"] = rng.sample(free, rng.randint(1, min(3, len(free))))
                if rng.random() < 0.3:
                    # attributes "copied from another node": values for managed features that the
                    # annotators must override
                    op["rp_attrs"] = {str(k): rng.randrange(1, 30) for k in rng.sample([F.K_POS, F.K_AREA], rng.randint(1, 2))}
            else:
                op["pixels"] = None  # missing segmentation and position -> ValueError
                if rng.random() < 0.6:
                    # a bare point on tracks with a segmentation: position given, no pixels
                    op["pos"] = rng.randrange(1, 50)
        else:
            op["pos"] = rng.randrange(1, 50) if rng.random() < 0.9 else None
            if rng.random() < 0.06:
                op["pixels"] = [0, 1]   # the optional `pixels=` on tracks without a segmentation
        return op
    if kind == "delnode":
        n = pick_node(rng, tracks, True)
        op = {"op": "delnode", "n": n}
        if case.cfg == "seg" and n in g and rng.random() < 0.3:
            op["pixels"] = case.pixels_of(tracks, n)   # "the pixels of the node, if known"
        return op
    if kind == "regfeat":
        if rng.random() < 0.6:
            return {"op": "regfeat", "kind": "node", "key": F.K_NOTE, "how": rng.choice(["setitem", "update", "ior", "setdefault"])}
        return {"op": "regfeat", "kind": "edge", "key": F.K_W, "how": rng.choice(["setitem", "update", "ior", "setdefault"])}
    if kind == "swap":
        if len(nodes) >= 2 and rng.random() < 0.95:
            a, b = rng.sample(nodes, 2)
        else:
            a = b = pick_node(rng, tracks, True)
        return {"op": "swap", "a": a, "b": b}
    if kind == "paint":
        # a stroke in one frame: overwrite none / part / all of 0-3 nodes, with a new label,
        # an existing label of that frame, or background (erase)
        t = rng.randrange(T)
        frame = case.frame
        seg = tracks.segmentation.reshape(-1)
        if rng.random() < 0.07 and not case.spec.get("orphan_labels"):
            # a stroke with a NEW label that wipes out BOTH daughters of a division (same frame) and
            # asks for the mother's track: refused without force (the mother has divided) after two
            # dependent deletions were applied — the rollback has to undo them in the right order
            divs = [(p_, list(g.successors(p_))) for p_ in nodes if g.out_degree(p_) == 2]
            divs = [(p_, cs) for p_, cs in divs if g.nodes[cs[0]]["time"] == g.nodes[cs[1]]["time"]]
            if divs:
                p_, cs = rng.choice(divs)
                tt = g.nodes[cs[0]]["time"]
                px = sorted(tt * frame + o for o in range(frame) if int(seg[tt * frame + o]) in cs)
                if px:
                    # the track asked for: one that divided upstream ELSEWHERE (the refusal must not
                    # depend on the daughters that the stroke removes), else any track
                    other = [g.nodes[q].get("track_id") for q in nodes
                             if q != p_ and g.out_degree(q) == 2 and g.nodes[q]["time"] < tt]
                    tid_ = rng.choice(other) if other and rng.random() < 0.8 else (rng.choice(tids) if tids else 1)
                    return {"op": "paint", "value": fresh_node_id(rng, tracks), "pixels": px,
                            "tid": tid_, "force": int(rng.random() < 0.25)}
        if rng.random() < 0.06 and g.number_of_edges() and not case.spec.get("orphan_labels"):
            # erase EXACTLY the overlap of an edge's end points from the child (both survive): the
            # true IoU drops to 0 — while the feature is off the stored value goes stale
            u_, v_ = rng.choice(list(g.edges))
            tv = g.nodes[v_]["time"]
            ou = {o for o in range(frame) if int(seg[g.nodes[u_]["time"] * frame + o]) == u_}
            ov = [o for o in range(frame) if int(seg[tv * frame + o]) == v_]
            inter = [o for o in ov if o in ou]
            if inter and len(inter) < len(ov):
                return {"op": "paint", "value": 0, "pixels": sorted(tv * frame + o for o in inter),
                        "tid": 1, "force": 0}
        here = [n for n in nodes if g.nodes[n]["time"] == t]
        k = rng.randint(1, 5)
        offs: list[int] = []
        if here and rng.random() < 0.7:
            victim = rng.choice(here)
            voffs = [o for o in range(frame) if seg[t * frame + o] == victim]
            if voffs:   # (a bare-point node has no pixels)
                offs = list(voffs) if rng.random() < 0.45 else rng.sample(voffs, rng.randint(1, len(voffs)))
        extra = [o for o in range(frame) if o not in offs]
        if case.spec.get("orphan_labels"):
            # a stroke over a label that belongs to no node is outside the stroke contract
            extra = [o for o in extra if seg[t * frame + o] == 0 or int(seg[t * frame + o]) in g]
        offs += rng.sample(extra, min(len(extra), rng.randint(0, k)))
        if not offs:
            offs = [rng.randrange(frame)]
        r = rng.random()
        bare = [n for n in here if not (seg[t * frame:(t + 1) * frame] == n).any()]
        if bare and rng.random() < 0.75:
            value = rng.choice(bare)   # give a bare-point node its first pixels
        elif r < 0.2:
            value = 0
        elif r < 0.55 and here:
            value = rng.choice(here)
        else:
            value = fresh_node_id(rng, tracks)
        pixels = sorted(t * frame + o for o in offs)
        # painting a label onto pixels that already carry it is not a change: drop those
        pixels = [p for p in pixels if int(seg[p]) != value]
        if not pixels:
            pixels = [p for p in range(t * frame, (t + 1) * frame) if int(seg[p]) != value
                      and (int(seg[p]) == 0 or int(seg[p]) in g)][:1]
        if not pixels and case.spec.get("orphan_labels"):
            return {"op": "undo"}
        # (an empty stroke — nothing to change in an empty frame — is a legitimate zero-edit action)
        if value == 0 and rng.random() < 0.12:
            # the eraser on empty space only: a successful top-level action without any sub-edit
            bg = [p for p in range(t * frame, (t + 1) * frame) if int(seg[p]) == 0]
            if bg:
                pixels = sorted(rng.sample(bg, rng.randint(1, min(3, len(bg)))))
        if value == 0 and T > 1 and rng.random() < 0.25 and not case.spec.get("orphan_labels"):
            # an ERASE stroke that spans a second frame (a labels layer edited in one more dimension):
            # accepted by the action; each group is handled in its own frame
            t2 = rng.choice([x for x in range(T) if x != t])
            here2 = [n for n in nodes if g.nodes[n]["time"] == t2]
            if here2:
                v2 = rng.choice(here2)
                o2 = [o for o in range(frame) if seg[t2 * frame + o] == v2]
                if o2:
                    o2 = list(o2) if rng.random() < 0.4 else rng.sample(o2, rng.randint(1, len(o2)))
                    pixels = pixels + sorted(t2 * frame + o for o in o2)
        r = rng.random()
        tid = rng.choice(tids) if (tids and r < 0.6) else (tracks.get_next_track_id() if r < 0.85 else rng.randrange(1, 40))
        return {"op": "paint", "value": value, "pixels": pixels, "tid": tid,
                "force": int(rng.random() < 0.4)}
    if kind == "updattrs":
        n = pick_node(rng, tracks, True)
        r = rng.random()
        if r < 0.7:
            keys = rng.sample([F.K_SCORE, F.K_NOTE] + (case.pos_keys if case.cfg != "seg" else []),
                              rng.randint(1, 2))
        elif r < 0.78:
            keys = [rng.choice([F.K_TIME, F.K_TID, F.K_LIN])]
        elif r < 0.85:
            # an ordinary key first, a protected one after it: refused as a whole, nothing written
            keys = [rng.choice([F.K_SCORE, F.K_NOTE]), rng.choice([F.K_TIME, F.K_TID, F.K_LIN])]
        else:
            keys = [rng.choice([F.K_SCORE, F.K_AREA, F.K_POS, F.K_CIRC, F.K_IOU])]
        return {"op": "updattrs", "n": n, "attrs": {str(k): rng.randrange(100) for k in keys}}
    if kind in ("undo", "redo"):
        return {"op": kind}
    if kind in ("enable", "disable"):
        roomy = bool(case.shape) and min(case.shape[1:]) >= 3 and not case.spec.get("tiled")
        pool = [F.K_POS, F.K_AREA, F.K_IOU] + ([F.K_ELL, F.K_CIRC, F.K_PERIM] if (roomy and case.ndim == 3 and case.scale in (None, [1.0] * 3)) else
                                                ([F.K_CIRC, F.K_PERIM] if (roomy and case.ndim == 4 and case.scale in (None, [1.0] * 4)) else []))
        if case.cfg != "seg":
            pool = [F.K_LIN]
        keys = rng.sample(pool, rng.randint(1, min(3, len(pool))))
        if rng.random() < 0.12:
            keys.insert(rng.randrange(len(keys) + 1), F.K_BOGUS)
        if kind == "enable":
            if rng.random() < 0.1:
                keys.append(rng.choice([F.K_TID, F.K_LIN]))
            rc = int(always_recompute or rng.random() < 0.85)
            if getattr(tracks.features, "lineage_key", "x") is None:
                rc = 1  # a registry built without the lineage feature has no values to "assume"
            return {"op": "enable", "keys": keys, "recompute": rc}
        return {"op": "disable", "keys": [k for k in keys if k not in (F.K_TID, F.K_POS) or k == F.K_BOGUS] or [F.K_BOGUS]}
    if kind == "qnb":
        tid = rng.choice(tids) if tids and rng.random() < 0.85 else rng.randrange(1, 40)
        return {"op": "qnb", "tid": tid, "time": rng.randrange(T + 1)}
    if kind == "qhas":
        tid = rng.choice(tids) if tids and rng.random() < 0.85 else rng.randrange(1, 40)
        return {"op": "qhas", "tid": tid, "time": rng.randrange(T + 1)}
    if kind == "qnew":
        return {"op": "qnew", "n": rng.randint(1, 3)}
    raise ValueError(kind)


def free_pixels(case: F.Case, tracks, t: int) -> list[int]:
    seg = tracks.segmentation.reshape(-1)
    return [t * case.frame + o for o in range(case.frame) if seg[t * case.frame + o] == 0]
