"""Building real `SolutionTracks` from a JSON-able case spec, encoding the same spec for the
Lean session model, extracting the canonical state of the real object in the shape the model
prints, and comparing the two field by field (with attribution of a difference to a property).
"""
from __future__ import annotations

import math
import warnings
from typing import Any

import networkx as nx
import numpy as np

warnings.simplefilter("ignore")

from funtracks.data_model import SolutionTracks  # noqa: E402

# ---- attribute keys (model side: small naturals) -------------------------------------------
K_TIME, K_TID, K_LIN = 0, 1, 2
K_POS = 3  # single key "pos"; per-axis storage uses 3,4,(5) for the axis keys
K_AREA, K_ELL, K_CIRC, K_PERIM, K_IOU = 10, 11, 12, 13, 14
K_SCORE, K_NOTE, K_W = 20, 21, 22  # custom: registered node feature, unregistered node attr, registered edge feature
K_NODEID = 23  # the attribute "node_id" that TracksController.add_nodes leaves on nodes added with pixels
K_BOGUS = 99  # a key no annotator knows (KeyError on enable/disable)

RP_KEYS = {K_POS: "pos", K_AREA: "area", K_ELL: "ellipse_axis_radii", K_CIRC: "circularity",
           K_PERIM: "perimeter"}
NAME = {K_TIME: "time", K_TID: "track_id", K_LIN: "lineage_id", K_POS: "pos", K_AREA: "area",
        K_ELL: "ellipse_axis_radii", K_CIRC: "circularity", K_PERIM: "perimeter", K_IOU: "iou",
        K_SCORE: "score", K_NOTE: "note", K_W: "w", K_NODEID: "node_id", K_BOGUS: "no_such_feature"}


def axis_names(ndim: int) -> list[str]:
    return ["z", "y", "x"] if ndim == 4 else ["y", "x"]


class Case:
    """cfg: 'pos' (no seg, single position key) | 'axes' (no seg, per-axis keys) | 'seg'."""

    def __init__(self, spec: dict):
        self.spec = spec
        self.cfg: str = spec["cfg"]
        self.ndim: int = spec.get("ndim", 3)
        self.shape = tuple(spec["shape"]) if spec.get("shape") else None  # (T, [Z], Y, X)
        self.frame = int(np.prod(self.shape[1:])) if self.shape else 0
        self.scale = spec.get("scale")
        self.with_ids: bool = spec.get("with_ids", True)
        self.keyname = dict(NAME)
        self.pos_keys: list[int]
        if self.cfg == "axes":
            ax = axis_names(self.ndim)
            self.pos_keys = [K_POS + i for i in range(len(ax))]
            for i, a in enumerate(ax):
                self.keyname[K_POS + i] = a
        else:
            self.pos_keys = [K_POS]
        # features renamed through `tracks.annotators.change_key(old, new)` before they are enabled
        for k, new in (spec.get("rename") or {}).items():
            self.keyname[int(k)] = new
        self.namekey = {v: k for k, v in self.keyname.items()}

    # ---- real object ----------------------------------------------------------------------
    def build(self) -> SolutionTracks:
        sp = self.spec
        g = nx.DiGraph(**(sp.get("graph_attrs") or {}))
        nspat = self.ndim - 1
        tdt = sp.get("time_dtype")
        for n in sp["nodes"]:
            nid, t = n["id"], n["time"]
            # frame indices as they come out of numpy code (np.arange(..., dtype=np.uint16) …)
            attrs: dict[str, Any] = {"time": np.dtype(tdt).type(t) if tdt else t}
            if self.cfg == "pos":
                attrs["pos"] = [float(n["pos"])] * nspat
            elif self.cfg == "axes":
                for a in axis_names(self.ndim):
                    attrs[a] = float(n["pos"])
            if self.with_ids:
                # (ids filled from a numpy / pandas table are numpy integers, not Python ints)
                attrs["track_id"] = np.int64(n["tid"]) if sp.get("ids_np") else n["tid"]
                attrs["lineage_id"] = np.int64(n["lin"]) if sp.get("ids_np") else n["lin"]
            if "score" in n:
                attrs["score"] = n["score"]
            g.add_node(nid, **attrs)
        for e in sp["edges"]:
            if "w" in e:
                g.add_edge(e["u"], e["v"], w=e["w"])
            else:
                g.add_edge(e["u"], e["v"])
        seg = None
        if self.cfg == "seg":
            seg = np.array(sp["seg"], dtype=np.dtype(sp.get("seg_dtype", "int64"))).reshape(self.shape)
            if sp.get("seg_layout") == "crop":
                big = np.zeros(tuple([self.shape[0]] + [d + 3 for d in self.shape[1:]]), dtype=seg.dtype)
                window = tuple([slice(None)] + [slice(1, 1 + d) for d in self.shape[1:]])
                big[window] = seg
                seg = big[window]            # a view into a larger array
            elif sp.get("seg_layout") == "F":
                seg = np.asfortranarray(seg)
        scale_obj: Any = self.scale
        if self.scale is not None and sp.get("scale_type") == "tuple":
            scale_obj = tuple(self.scale)
        elif self.scale is not None and sp.get("scale_type") == "ndarray":
            scale_obj = np.array(self.scale, dtype=float)
        kw: dict[str, Any] = dict(segmentation=seg, scale=scale_obj, ndim=self.ndim)
        if self.cfg == "axes":
            kw["pos_attr"] = axis_names(self.ndim)
        if sp.get("via") == "from_tracks" and not sp.get("prebuilt"):
            # the solution is obtained by converting a plain Tracks object
            from funtracks.data_model import Tracks
            tracks = SolutionTracks.from_tracks(Tracks(g, **kw))
        else:
            tracks = SolutionTracks(g, **kw)
        # custom features: registered node feature "score", registered edge feature "w"
        tracks.features["score"] = {"feature_type": "node", "value_type": "int", "num_values": 1,
                                    "required": False, "default_value": None}
        if not sp.get("w_unregistered"):
            tracks.features["w"] = {"feature_type": "edge", "value_type": "int", "num_values": 1,
                                    "required": False, "default_value": None}
        for k, new in (sp.get("rename") or {}).items():
            if NAME[int(k)] not in tracks.annotators.features:
                tracks.annotators.change_key(NAME[int(k)], new)
        extra = [self.keyname[k] for k in sp.get("enable", [])]
        if extra:
            tracks.enable_features(extra)
        if sp.get("prebuilt"):
            # second construction path: a pre-built FeatureDict (features activated, not recomputed)
            import copy as _copy
            from funtracks.features import FeatureDict
            f0 = tracks.features
            feats = {k: dict(v) for k, v in f0.items()}
            lin_key = f0.lineage_key
            if sp.get("prebuilt_no_lineage") and lin_key is not None:
                # a registry without the lineage feature (what older project files load as)
                feats.pop(lin_key, None)
                lin_key = None
            fd = FeatureDict(features=feats, time_key=f0.time_key,
                             position_key=_copy.copy(f0.position_key), tracklet_key=f0.tracklet_key,
                             lineage_key=lin_key)
            g2 = _copy.deepcopy(tracks.graph)
            if lin_key is None and f0.lineage_key is not None:
                for _n in g2.nodes:
                    g2.nodes[_n].pop(f0.lineage_key, None)   # such files carry no lineage attribute
            seg2 = None if tracks.segmentation is None else tracks.segmentation.copy()
            tracks = SolutionTracks(g2, segmentation=seg2, scale=scale_obj, ndim=self.ndim, features=fd)
        via = sp.get("via")
        if via == "deepcopy":
            import copy as _copy
            tracks = _copy.deepcopy(tracks)
        elif via == "saveload":
            # the object that is edited has been through the internal save format
            import shutil
            import tempfile
            from pathlib import Path as _P

            from funtracks.import_export import load_tracks, save_tracks
            d = _P(tempfile.mkdtemp(prefix="ft_sl_", dir="/tmp"))
            try:
                save_tracks(tracks, d)
                tracks = load_tracks(d, solution=True)
            finally:
                shutil.rmtree(d, ignore_errors=True)
        tracks._verif_id_base = sp.get("id_base", 0)  # harness-side hint for fresh id choices
        return tracks

    # ---- encoding for the model -----------------------------------------------------------
    @staticmethod
    def enc_val(v) -> list[str]:
        if v is None:
            return ["n"]
        return ["t", str(int(v))]

    def enc_attrs(self, d: dict[int, Any]) -> list[str]:
        out = [str(len(d))]
        for k in sorted(d):
            out.append(str(k))
            v = d[k]
            out += v if isinstance(v, list) else self.enc_val(v)
        return out

    def init_line(self, tracks: SolutionTracks, plain: bool = False) -> str:
        """The model starts from the state of the real object right after construction
        (registry, active flags and — unless ids are to be assigned — ids are *read from it*);
        with `with_ids=False` the model assigns the ids itself (bulk assignment is compared)."""
        sp = self.spec
        ta = None if plain else tracks.track_annotator   # plain `Tracks`: no track annotator, no ids
        toks: list[str] = ["S", "init", str(len(sp["nodes"]))]
        for n in sp["nodes"]:
            nid = n["id"]
            other: dict[int, Any] = {}
            if self.cfg in ("pos", "axes"):
                for k in self.pos_keys:
                    other[k] = n["pos"]
            if "score" in n:
                other[K_SCORE] = n["score"]
            if self.cfg == "seg":
                # computed features present after construction: model representation = mask
                for k in self.rp_active(tracks):
                    px = self.pixels_of(tracks, nid)
                    other[k] = ["m", str(len(px))] + [str(p) for p in px] if px else ["n"]
            tid = n["tid"] if (self.with_ids and not plain) else 0
            lin = n["lin"] if (self.with_ids and not plain) else -1
            toks += [str(nid), str(n["time"]), str(tid), str(lin)] + self.enc_attrs(other)
        toks.append(str(len(sp["edges"])))
        iou_on = self.iou_active(tracks)
        for e in sp["edges"]:
            ea: dict[int, Any] = {}
            if "w" in e:
                ea[K_W] = e["w"]
            if iou_on:
                ea[K_IOU] = self.iou_enc(tracks, (e["u"], e["v"]))
            toks += [str(e["u"]), str(e["v"])] + self.enc_attrs(ea)
        if self.cfg == "seg":
            flat = [int(x) for x in tracks.segmentation.reshape(-1)]
            toks += [str(self.frame), str(len(flat))] + [str(x) for x in flat]
        else:
            toks.append("-")
        feats = tracks.features
        lin_on = (not plain) and "lineage_id" in feats and "lineage_id" in ta.features
        toks.append("1" if lin_on else "0")
        toks += [str(len(self.pos_keys))] + [str(k) for k in self.pos_keys]
        reg_node = sorted(self.namekey[k] for k, f in feats.items()
                          if f["feature_type"] == "node" and k not in ("time", "track_id", "lineage_id"))
        reg_edge = sorted(self.namekey[k] for k, f in feats.items() if f["feature_type"] == "edge")
        toks += [str(len(reg_node))] + [str(k) for k in reg_node]
        toks += [str(len(reg_edge))] + [str(k) for k in reg_edge]
        rp_avail = sorted(RP_KEYS) if self.cfg == "seg" else []
        toks += [str(len(rp_avail))] + [str(k) for k in rp_avail]
        rp_act = self.rp_active(tracks)
        toks += [str(len(rp_act))] + [str(k) for k in rp_act]
        toks.append(str(K_IOU) if self.cfg == "seg" else "-1")
        toks.append("1" if iou_on else "0")
        if self.with_ids and not plain:
            for book in (ta.tracklet_id_to_nodes, ta.lineage_id_to_nodes):
                toks.append(str(len(book)))
                for i in sorted(book):
                    toks += [str(i), str(len(book[i]))] + [str(x) for x in book[i]]
            toks += [str(ta.max_tracklet_id), str(ta.max_lineage_id)]
        else:
            toks += ["0", "0", "0", "0"]
        toks.append(str(getattr(tracks, "node_id_counter", 1)))
        toks.append("0" if (self.with_ids or plain) else "1")
        return " ".join(toks)

    # ---- helpers on the real object ----------------------------------------------------------
    def rp_active(self, tracks) -> list[int]:
        if self.cfg != "seg":
            return []
        from funtracks.annotators import RegionpropsAnnotator
        for a in tracks.annotators:
            if isinstance(a, RegionpropsAnnotator):
                return sorted(self.namekey[k] for k in a.features)
        return []

    def iou_active(self, tracks) -> bool:
        if self.cfg != "seg":
            return False
        from funtracks.annotators import EdgeAnnotator
        for a in tracks.annotators:
            if isinstance(a, EdgeAnnotator):
                return self.keyname[K_IOU] in a.features
        return False

    def pixels_of(self, tracks, node) -> list[int]:
        t = int(tracks.graph.nodes[node]["time"])
        fr = tracks.segmentation[t].reshape(-1)
        return [t * self.frame + int(o) for o in np.nonzero(fr == node)[0]]

    def iou_enc(self, tracks, e) -> list[str]:
        u, v = e
        tu, tv = int(tracks.graph.nodes[u]["time"]), int(tracks.graph.nodes[v]["time"])
        a = tracks.segmentation[tu].reshape(-1) == u
        b = tracks.segmentation[tv].reshape(-1) == v
        inter = int(np.sum(a & b))
        if inter == 0:
            return ["z"]
        return ["i", str(inter), str(int(np.sum(a | b)))]

    def idx_tuple(self, pixels: list[int]):
        """flat indices -> numpy multi-index tuple (time first)"""
        arr = np.array(pixels, dtype=np.int64)
        return tuple(np.unravel_index(arr, self.shape))


# ---- parsing the model's canonical state line ---------------------------------------------
class Toks:
    def __init__(self, toks: list[str]):
        self.t = toks
        self.i = 0

    def next(self) -> str:
        v = self.t[self.i]
        self.i += 1
        return v

    def nat(self) -> int:
        return int(self.next())

    def expect(self, s: str) -> None:
        v = self.next()
        if v != s:
            raise ValueError(f"model output: expected {s!r}, got {v!r} at {self.i}")

    def val(self):
        k = self.next()
        if k == "t":
            return ("t", int(self.next()))
        if k == "m":
            n = self.nat()
            return ("m", tuple(self.nat() for _ in range(n)))
        if k == "i":
            return ("i", self.nat(), self.nat())
        if k == "z":
            return ("z",)
        if k == "n":
            return ("n",)
        raise ValueError(f"bad val tag {k}")

    def attrs(self) -> dict:
        n = self.nat()
        return {self.nat(): self.val() for _ in range(n)}

    def natlist(self) -> list[int]:
        n = self.nat()
        return [self.nat() for _ in range(n)]

    def book(self) -> dict:
        n = self.nat()
        out = {}
        for _ in range(n):
            i = self.nat()
            out[i] = self.natlist()
        return out


def parse_model_line(line: str) -> tuple[str, dict | None]:
    if line in ("bad-op", "bad-model"):
        # bad-model: the driver's run-both check of the faithful IoU model failed on the reached state
        return line, None
    head, _, rest = line.partition(" | ")
    tk = Toks(rest.split())
    st: dict[str, Any] = {}
    tk.expect("N")
    nodes = {}
    for _ in range(tk.nat()):
        nid, time, tid = tk.nat(), tk.nat(), tk.nat()
        lin = int(tk.next())
        nodes[nid] = {"time": time, "tid": tid, "lin": None if lin < 0 else lin, "other": tk.attrs()}
    st["nodes"] = nodes
    tk.expect("E")
    edges = {}
    for _ in range(tk.nat()):
        u, v = tk.nat(), tk.nat()
        edges[(u, v)] = tk.attrs()
    st["edges"] = edges
    tk.expect("G")
    if tk.t[tk.i] == "-":
        tk.next()
        st["seg"] = None
    else:
        tk.nat()
        st["seg"] = tk.natlist()
    tk.expect("T")
    st["t2n"] = tk.book()
    tk.expect("L")
    st["l2n"] = tk.book()
    tk.expect("M")
    st["next"] = (tk.nat(), tk.nat())
    st["counter"] = tk.nat()
    tk.expect("H")
    st["hist"] = (tk.nat(), tk.nat())
    tk.expect("R")
    st["refresh"] = tk.nat()
    p = int(tk.next())
    st["payload"] = None if p < 0 else p
    tk.expect("F")
    st["lin_on"] = tk.nat() == 1
    st["reg_node"] = tk.natlist()
    st["reg_edge"] = tk.natlist()
    st["rp_active"] = tk.natlist()
    st["iou_active"] = tk.nat() == 1
    tk.expect("O")
    order = {}
    for _ in range(tk.nat()):
        n = tk.nat()
        order[n] = tk.natlist()
    st["succ_order"] = order
    return head, st


# ---- canonical state of the real object --------------------------------------------------
class _NoTrackAnnotator:
    tracklet_id_to_nodes: dict = {}
    lineage_id_to_nodes: dict = {}
    features: dict = {}


def impl_state(case: Case, tracks: SolutionTracks, refresh_count: int, payload, plain: bool = False) -> dict:
    g = tracks.graph
    ta = _NoTrackAnnotator if plain else tracks.track_annotator
    st: dict[str, Any] = {"plain": plain}
    nodes = {}
    for n, d in g.nodes(data=True):
        other = {}
        for k, v in d.items():
            if k in ("time", "track_id", "lineage_id") or v is None:
                continue
            kk = case.namekey.get(k)
            if kk is None:
                other[("?", k)] = ("raw", repr(v))
            elif kk in RP_KEYS and case.cfg == "seg":
                other[kk] = ("raw", v)
            elif kk in case.pos_keys:
                pv = v[0] if isinstance(v, (list, tuple, np.ndarray)) else v
                other[kk] = ("t", int(pv))
            else:
                other[kk] = ("t", int(v))
        nodes[int(n)] = {"time": int(d["time"]), "tid": d.get("track_id"), "lin": d.get("lineage_id"),
                         "other": other}
    st["nodes"] = nodes
    edges = {}
    for u, v, d in g.edges(data=True):
        ea = {}
        for k, val in d.items():
            if val is None:
                continue
            kk = case.namekey.get(k)
            if kk == K_IOU:
                ea[kk] = ("raw", val)
            elif kk is None:
                ea[("?", k)] = ("raw", repr(val))
            else:
                ea[kk] = ("t", int(val))
        edges[(int(u), int(v))] = ea
    st["edges"] = edges
    st["seg"] = None if tracks.segmentation is None else [int(x) for x in tracks.segmentation.reshape(-1)]
    st["t2n"] = {int(k): sorted(int(x) for x in v) for k, v in ta.tracklet_id_to_nodes.items()}
    st["l2n"] = {int(k): sorted(int(x) for x in v) for k, v in ta.lineage_id_to_nodes.items()}
    st["t2n_dups"] = any(len(v) != len(set(v)) for v in ta.tracklet_id_to_nodes.values())
    st["l2n_dups"] = any(len(v) != len(set(v)) for v in ta.lineage_id_to_nodes.values())
    st["next"] = (0, 0) if plain else (tracks.get_next_track_id(), tracks.get_next_lineage_id())
    st["counter"] = getattr(tracks, "node_id_counter", 0)
    st["hist"] = (len(tracks.action_history.undo_stack), len(tracks.action_history.redo_stack))
    st["refresh"] = refresh_count
    st["payload"] = payload
    feats = tracks.features
    st["lin_on"] = "lineage_id" in feats and "lineage_id" in ta.features
    # a registry built WITHOUT the lineage feature (FeatureDict.lineage_key is None): the model has
    # no such flavour of "lineage off" — it keeps writing the (unregistered) attribute on new nodes
    # as the code does after disable_features. Lineage fields are not compared in that state.
    st["lin_key_none"] = getattr(feats, "lineage_key", "x") is None
    st["reg_node"] = sorted(case.namekey.get(k, -1) for k, f in feats.items()
                            if f["feature_type"] == "node" and k not in ("time", "track_id", "lineage_id"))
    st["reg_edge"] = sorted(case.namekey.get(k, -1) for k, f in feats.items() if f["feature_type"] == "edge")
    st["rp_active"] = case.rp_active(tracks)
    st["iou_active"] = case.iou_active(tracks)
    st["succ_order"] = {int(n): [int(x) for x in g.successors(n)] for n in g.nodes if g.out_degree(n) >= 2}
    return st


# ---- reference values for a mask (what the model's `m` token stands for) ------------------
_REF_CACHE: dict = {}


def ref_value(case: Case, key: int, pixels: tuple[int, ...], label: int):
    """value of regionprops feature `key` computed from scratch on an empty frame that holds
    exactly `pixels` (flat global indices, all in one frame)"""
    ck = (key, case.shape, tuple(case.scale) if case.scale else None, pixels, label)
    if ck in _REF_CACHE:
        return _REF_CACHE[ck]
    from funtracks.annotators._regionprops_extended import regionprops_extended
    fshape = case.shape[1:]
    frame = np.zeros(int(np.prod(fshape)), dtype=np.int64)
    for p in pixels:
        frame[p % case.frame] = label
    frame = frame.reshape(fshape)
    spacing = None if case.scale is None else tuple(case.scale[1:])
    attr = {K_POS: "centroid", K_AREA: "area", K_ELL: "axes", K_CIRC: "circularity",
            K_PERIM: "perimeter"}[key]
    try:
        with np.errstate(all="ignore"):
            regs = regionprops_extended(frame, spacing=spacing)
            v = getattr(regs[0], attr)
        if isinstance(v, tuple):
            v = list(v)
    except Exception as e:  # skimage refuses degenerate masks
        v = ("exc", type(e).__name__)
    _REF_CACHE[ck] = v
    return v


def close(a, b, tol=1e-9) -> bool:
    try:
        if isinstance(a, (list, tuple, np.ndarray)) or isinstance(b, (list, tuple, np.ndarray)):
            a, b = list(a), list(b)
            return len(a) == len(b) and all(close(x, y, tol) for x, y in zip(a, b))
        a, b = float(a), float(b)
        if math.isnan(a) or math.isnan(b):
            return math.isnan(a) and math.isnan(b)
        if math.isinf(a) or math.isinf(b):
            return a == b
        return abs(a - b) <= tol * max(1.0, abs(a), abs(b))
    except Exception:
        return a == b


# field -> owning property (for attribution of a divergence)
OWNER = {"edges": "C03", "succ_order": "C03", "time": "C03", "tid": "C04", "lin": "C05",
         "t2n": "C06", "l2n": "C06", "next": "C06", "counter": "C06", "query": "C06",
         "seg": "C07", "rp": "C08", "iou": "C09", "registry": "C10", "hist": "C02",
         "refresh": "C20", "attr": "C01", "nodes": "C03", "outcome": "C11"}


def compare(case: Case, model: dict, impl: dict) -> list[tuple[str, str]]:
    """list of (field, description) differences between model state and real state"""
    diffs: list[tuple[str, str]] = []
    mn, rn = model["nodes"], impl["nodes"]
    if set(mn) != set(rn):
        diffs.append(("nodes", f"node sets differ: model {sorted(mn)} impl {sorted(rn)}"))
    for n in sorted(set(mn) & set(rn)):
        a, b = mn[n], rn[n]
        if a["time"] != b["time"]:
            diffs.append(("time", f"node {n} time model {a['time']} impl {b['time']}"))
        if a["tid"] != b["tid"] and not impl.get("plain"):
            diffs.append(("tid", f"node {n} track id model {a['tid']} impl {b['tid']}"))
        if a["lin"] != b["lin"] and not impl.get("lin_key_none") and not impl.get("plain"):
            diffs.append(("lin", f"node {n} lineage model {a['lin']} impl {b['lin']}"))
        ao = {k: v for k, v in a["other"].items() if v != ("n",)}
        bo = b["other"]
        if set(ao) != set(bo):
            fld = "rp" if any(k in RP_KEYS and case.cfg == "seg" for k in set(ao) ^ set(bo)) else "attr"
            diffs.append((fld, f"node {n} attribute keys model {sorted(map(str, ao))} impl {sorted(map(str, bo))}"))
            continue
        for k in ao:
            va, vb = ao[k], bo[k]
            if va[0] == "m":
                ref = ref_value(case, k, va[1], n)
                if isinstance(ref, tuple) and ref and ref[0] == "exc":
                    continue
                if not (vb[0] == "raw" and close(ref, vb[1])):
                    diffs.append(("rp", f"node {n} {case.keyname[k]}: impl {vb[1]!r} != value of the mask the model used {ref!r}"))
            elif va[0] == "t" and vb[0] == "raw":
                # a caller-supplied value for a managed feature that no annotator overwrote
                rv = vb[1]
                okv = (all(float(x) == va[1] for x in rv) if isinstance(rv, (list, tuple)) else float(rv) == va[1])
                if not okv:
                    diffs.append(("rp", f"node {n} {case.keyname.get(k, k)}: model keeps supplied value {va[1]}, impl {rv!r}"))
            elif va != vb:
                fld = "rp" if (k in RP_KEYS and case.cfg == "seg") else "attr"
                diffs.append((fld, f"node {n} attr {case.keyname.get(k, k)} model {va} impl {vb}"))
    me, re_ = model["edges"], impl["edges"]
    if set(me) != set(re_):
        diffs.append(("edges", f"edge sets differ: model {sorted(me)} impl {sorted(re_)}"))
    for e in sorted(set(me) & set(re_)):
        ao = {k: v for k, v in me[e].items() if v != ("n",)}
        bo = re_[e]
        if set(ao) != set(bo):
            diffs.append(("iou" if K_IOU in (set(ao) ^ set(bo)) else "attr",
                          f"edge {e} attribute keys model {sorted(map(str, ao))} impl {sorted(map(str, bo))}"))
            continue
        for k in ao:
            va, vb = ao[k], bo[k]
            if k == K_IOU:
                if va[0] == "z":
                    ok = vb[0] == "raw" and float(vb[1]) == 0.0
                elif va[0] == "i":
                    ok = vb[0] == "raw" and close(va[1] / va[2], vb[1], 1e-12)
                else:
                    ok = False
                if not ok:
                    diffs.append(("iou", f"edge {e} iou model {va} impl {vb}"))
            elif va != vb:
                diffs.append(("attr", f"edge {e} attr {k} model {va} impl {vb}"))
    if model["seg"] != impl["seg"]:
        diffs.append(("seg", "segmentation arrays differ"))
    for fld in ("t2n", "l2n"):
        if (fld == "l2n" and impl.get("lin_key_none")) or impl.get("plain"):
            continue
        a = {k: sorted(v) for k, v in model[fld].items()}
        if a != impl[fld]:
            diffs.append((fld, f"{fld} model {a} impl {impl[fld]}"))
    if impl.get("plain"):
        pass   # plain Tracks: no track annotator, no id counters
    elif impl.get("lin_key_none"):
        if model["next"][0] != impl["next"][0]:
            diffs.append(("next", f"next track id model {model['next'][0]} impl {impl['next'][0]}"))
    elif tuple(model["next"]) != tuple(impl["next"]):
        diffs.append(("next", f"next ids model {model['next']} impl {impl['next']}"))
    if model["counter"] != impl["counter"] and not impl.get("plain"):
        diffs.append(("counter", f"node id counter model {model['counter']} impl {impl['counter']}"))
    if tuple(model["hist"]) != tuple(impl["hist"]):
        diffs.append(("hist", f"history sizes model {model['hist']} impl {impl['hist']}"))
    if model["refresh"] != impl["refresh"] or model["payload"] != impl["payload"]:
        diffs.append(("refresh", f"refresh model {model['refresh']}/{model['payload']} impl {impl['refresh']}/{impl['payload']}"))
    for fld in ("lin_on", "reg_node", "reg_edge", "rp_active", "iou_active"):
        if model[fld] != impl[fld]:
            diffs.append(("registry", f"{fld} model {model[fld]} impl {impl[fld]}"))
    if model["succ_order"] != impl["succ_order"]:
        diffs.append(("succ_order", f"successor order model {model['succ_order']} impl {impl['succ_order']}"))
    return diffs
