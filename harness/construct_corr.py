"""Construction of a `Tracks` / `SolutionTracks` object: correspondence with the Lean model
`FtModel/Construct.lean` (driver family `CT`, grammar in `FtModel/ConstructDrv.lean`) and an
independent oracle on the real object (package R7S).

    construct_cases(prop, rng, n, res) -> list[Failure]

generates `n` random constructor calls (plain / solution, with / without array, default / single /
per-axis position attribute, custom key names, occasionally colliding ones, with / without a
pre-built FeatureDict, ids present on all / no / only the first / all but the first node / with
None values, labels in the node's own frame / another frame / nowhere) followed by 0..3 post
operations (`enable_features(keys, recompute)`, `SolutionTracks.from_tracks(tracks)`), runs the
real code, reads the canonical answer off the real object (`canon`), sends the same cases as `CT`
lines through the compiled model in one batch and compares the two strings.

What is read off the object is documented token by token in `canon`.  Two parts of the answer
are not stored on the object and come from wrappers installed (once, idempotently) around
`RegionpropsAnnotator.compute`, `EdgeAnnotator.compute`, `TrackAnnotator.compute/__init__/
_get_max_id_and_map/_assign_tracklet_ids/_assign_lineage_ids`: the log of bulk computations
(`comp`) and where each TrackAnnotator lookup comes from (`book … none|graph|computed`).  The
wrappers always call the original; they only append to a module-level log while a case of this
module is running and set two private attributes (`_verif_src_t`, `_verif_src_l`,
`_verif_mm_calls`) on TrackAnnotator instances, so they are harmless for other code in the process.

Oracle (independent of the model, evaluated on the object after construction and after every
post operation that returned normally):
  C10  registry keys == static keys ∪ active annotator keys, where static = what the CALL says
       (no FeatureDict: time key + position key(s) if there is no array; FeatureDict: its keys
       that no annotator of the object can manage);
  C10  every position key is a registered feature;
  C06/C04  for a SolutionTracks with >= 1 node whose ids are supposed to be complete (computed, or
       present with a value on every node as the documented contract of `tracklet_attr` / of a
       FeatureDict demands, or produced by `from_tracks`): the tracklet feature is active, every
       node has a track id, and `tracklet_id_to_nodes` lists exactly the nodes that carry each id.
"""
from __future__ import annotations

import copy
import random
import warnings
from typing import Any

import networkx as nx
import numpy as np

from .common import Driver, Failure, h, hexs

_REC: dict[str, Any] = {"on": False, "log": []}


# ---------------------------------------------------------------------------------------------
# instrumentation
# ---------------------------------------------------------------------------------------------
def _install_wrappers() -> None:
    from funtracks.annotators import EdgeAnnotator, RegionpropsAnnotator, TrackAnnotator

    if getattr(TrackAnnotator, "_verif_construct_wrapped", False):
        return

    rp_compute = RegionpropsAnnotator.compute
    ed_compute = EdgeAnnotator.compute
    tr_compute = TrackAnnotator.compute
    tr_init = TrackAnnotator.__init__
    tr_mm = TrackAnnotator._get_max_id_and_map
    tr_at = TrackAnnotator._assign_tracklet_ids
    tr_al = TrackAnnotator._assign_lineage_ids

    def w_rp_compute(self, feature_keys=None):
        if _REC["on"] and self.tracks.segmentation is not None:
            for k in self._filter_feature_keys(feature_keys):
                _REC["log"].append(("rp", k))
        return rp_compute(self, feature_keys)

    def w_ed_compute(self, feature_keys=None):
        if _REC["on"] and self.tracks.segmentation is not None:
            ktc = self._filter_feature_keys(feature_keys)
            if ktc and self.iou_key in ktc:
                _REC["log"].append(("edge", self.iou_key))
        return ed_compute(self, feature_keys)

    def w_tr_compute(self, feature_keys=None):
        if _REC["on"]:
            ktc = self._filter_feature_keys(feature_keys)
            if ktc:
                if self.tracklet_key in ktc:
                    _REC["log"].append(("track", self.tracklet_key))
                if self.lineage_key in ktc:
                    _REC["log"].append(("track", self.lineage_key))
        return tr_compute(self, feature_keys)

    def w_tr_mm(self, key):
        calls = getattr(self, "_verif_mm_calls", None)
        if calls is not None:
            calls.append(key)
        return tr_mm(self, key)

    def w_tr_init(self, *a, **k):
        self._verif_mm_calls = []
        tr_init(self, *a, **k)
        self._verif_src_t = "graph" if len(self._verif_mm_calls) >= 1 else "none"
        self._verif_src_l = "graph" if len(self._verif_mm_calls) >= 2 else "none"
        self._verif_mm_calls = None

    def w_tr_at(self):
        tr_at(self)
        self._verif_src_t = "computed"

    def w_tr_al(self):
        tr_al(self)
        self._verif_src_l = "computed"

    RegionpropsAnnotator.compute = w_rp_compute
    EdgeAnnotator.compute = w_ed_compute
    TrackAnnotator.compute = w_tr_compute
    TrackAnnotator.__init__ = w_tr_init
    TrackAnnotator._get_max_id_and_map = w_tr_mm
    TrackAnnotator._assign_tracklet_ids = w_tr_at
    TrackAnnotator._assign_lineage_ids = w_tr_al
    TrackAnnotator._verif_construct_wrapped = True


# ---------------------------------------------------------------------------------------------
# feature descriptors <-> tokens
# ---------------------------------------------------------------------------------------------
def feat_of_tok(tok: str) -> dict:
    from funtracks.features import (Area, Circularity, EllipsoidAxes, IoU, LineageID, Perimeter,
                                    Position, Time, TrackletID)

    c, n = tok[0], tok[1:]
    if tok == "T":
        return Time()
    if c == "P":
        return Position(axes=["z", "y", "x"][-int(n):])
    if tok == "X":
        return {"feature_type": "node", "value_type": "float", "num_values": 1, "required": True,
                "default_value": None}
    if c == "A":
        return Area(ndim=int(n))
    if c == "E":
        return EllipsoidAxes(ndim=int(n))
    if c == "C":
        return Circularity(ndim=int(n))
    if c == "R":
        return Perimeter(ndim=int(n))
    if tok == "I":
        return IoU()
    if tok == "K":
        return TrackletID()
    if tok == "L":
        return LineageID()
    if c == "U":
        return {"feature_type": "node", "value_type": "int", "num_values": 1, "required": False,
                "default_value": None, "display_name": "U" + n}
    raise ValueError(tok)


_DISPLAY = {"Area": "A3", "Volume": "A4", "Ellipse axis radii": "E3", "Ellipsoid axis radii": "E4",
            "Circularity": "C3", "Sphericity": "C4", "Perimeter": "R3", "Surface Area": "R4",
            "IoU": "I", "Tracklet ID": "K", "Lineage ID": "L"}


def tok_of_feat(f: dict) -> str:
    dn = f.get("display_name")
    if dn == "Time":
        return "T"
    if dn == "position":
        return f"P{f['num_values']}"
    if dn is None and f["value_type"] == "float" and f["num_values"] == 1 and f["required"]:
        return "X"
    if dn in _DISPLAY:
        return _DISPLAY[dn]
    if dn and dn.startswith("U") and dn[1:].isdigit():
        return dn
    return "U0"


# ---------------------------------------------------------------------------------------------
# canonical answer read off a real object
# ---------------------------------------------------------------------------------------------
def _optstr(s) -> list[str]:
    return ["0"] if s is None else ["1", hexs(s)]


def _poskey(p) -> list[str]:
    if p is None:
        return ["0"]
    if isinstance(p, str):
        return ["1", hexs(p)]
    return ["2", str(len(p))] + [hexs(k) for k in p]


def _table(af: dict) -> list[str]:
    out = [str(len(af))]
    for k, (f, b) in af.items():
        out += [hexs(k), tok_of_feat(f), "1" if b else "0"]
    return out


def _book(m: dict) -> list[str]:
    out = [str(len(m))]
    for i in sorted(m):
        ns = sorted(int(x) for x in m[i])
        out += [str(int(i)), str(len(ns))] + [str(x) for x in ns]
    return out


def canon(t) -> str:
    """<canon> of FtModel/ConstructDrv.lean from a real object:
    solution hasSeg ndim            isinstance(t, SolutionTracks), t.segmentation is not None, t.ndim
    reg NR (key feat)*              t.features.items() in dict order
    keys …                          features.time_key / position_key / tracklet_key / lineage_key
    ann NA …                        t.annotators in order: class, pos_key | tracklet_key lineage_key,
                                    all_features.items() in dict order with the active flag
    comp NC (kind key)*             log of the compute wrappers
    book …                          TrackAnnotator: source tags, max_*_id, *_id_to_nodes (sorted)
    nodes NN (id tid lin NK keys)*  graph order; ids under the annotator's keys; attribute keys sorted"""
    from funtracks.annotators import EdgeAnnotator, RegionpropsAnnotator
    from funtracks.data_model import SolutionTracks

    f = t.features
    out = ["1" if isinstance(t, SolutionTracks) else "0", "1" if t.segmentation is not None else "0",
           str(t.ndim), "reg", str(len(f))]
    for k, v in f.items():
        out += [hexs(k), tok_of_feat(v)]
    out += ["keys"] + _optstr(f.time_key) + _poskey(f.position_key) + _optstr(f.tracklet_key) + _optstr(f.lineage_key)
    out += ["ann", str(len(t.annotators))]
    ta = None
    for a in t.annotators:
        if isinstance(a, RegionpropsAnnotator):
            out += ["rp", hexs(a.pos_key)] + _table(a.all_features)
        elif isinstance(a, EdgeAnnotator):
            out += ["edge"] + _table(a.all_features)
        else:
            ta = a
            out += ["track", hexs(a.tracklet_key), hexs(a.lineage_key)] + _table(a.all_features)
    out += ["comp", str(len(_REC["log"]))]
    for kind, k in _REC["log"]:
        out += [kind, hexs(k)]
    out += ["book"]
    if ta is None:
        out += ["-"]
    else:
        out += [getattr(ta, "_verif_src_t", "?"), str(int(ta.max_tracklet_id))] + _book(ta.tracklet_id_to_nodes)
        out += [getattr(ta, "_verif_src_l", "?"), str(int(ta.max_lineage_id))] + _book(ta.lineage_id_to_nodes)
    out += ["nodes", str(t.graph.number_of_nodes())]
    for n in t.graph.nodes():
        d = t.graph.nodes[n]
        if ta is None:
            ids = ["-", "-"]
        else:
            ids = []
            for key in (ta.tracklet_key, ta.lineage_key):
                v = d.get(key)
                ids.append("-" if v is None else str(int(v)))
        ks = sorted(hexs(k) for k in d)
        out += [str(n)] + ids + [str(len(ks))] + ks
    return " ".join(out)


# ---------------------------------------------------------------------------------------------
# generator (every choice from `rng`; the case is a JSON-able literal)
# ---------------------------------------------------------------------------------------------
SEG_KEYS = ("pos", "area", "ellipse_axis_radii", "circularity", "perimeter", "iou")


def gen_case(rng: random.Random) -> dict:
    c: dict[str, Any] = {}
    c["solution"] = rng.random() < 0.65
    c["hasSeg"] = rng.random() < 0.5
    c["ndim"] = rng.choice([3, 3, 4])
    nsp = c["ndim"] - 1
    axes = ["z", "y", "x"][-nsp:]
    wild = rng.random() < 0.2       # allow key collisions
    c["wild"] = wild
    c["timeAttr"] = rng.choice([None, None, "time", "t"])
    pa = rng.choice(["none", "none", "pos", "centroid", "list", "tuple"] + (["time", "listtime", "area"] if wild else []))
    c["posKind"] = pa
    c["posAttr"] = {"none": None, "pos": "pos", "centroid": "centroid", "list": list(axes), "tuple": list(axes),
                    "time": "time", "listtime": ["time"] + axes[1:], "area": "area"}[pa]
    c["trackletAttr"] = rng.choice([None, None, "track_id", "tid", "tracklet_id"] + (["lineage_id", "pos"] if wild else []))
    c["lineageAttr"] = rng.choice([None, None, "lineage_id", "lin"] + (["track_id", "tid"] if wild else []))
    tkey = c["timeAttr"] or "time"
    g_track = c["trackletAttr"] or "track_id"
    g_lin = c["lineageAttr"] or "lineage_id"
    c["prebuilt"] = None
    if rng.random() < 0.4:
        feats = [(tkey, "T")]
        pk = rng.choice(["single", "single", "multi", "none", "custom"])
        if pk == "single":
            feats.append(("pos", f"P{nsp}"))
            posk: Any = "pos"
        elif pk == "custom":
            feats.append(("centroid", f"P{nsp}"))
            posk = "centroid"
        elif pk == "multi":
            for a in axes:
                feats.append((a, "X"))
            posk = list(axes)
        else:
            posk = None
        for k, tk in [("area", f"A{c['ndim']}"), ("iou", "I"), ("circularity", f"C{c['ndim']}"), ("score", "U7"),
                      ("ellipse_axis_radii", f"E{c['ndim']}"), ("perimeter", f"R{c['ndim']}")]:
            if rng.random() < 0.3:
                feats.append((k, tk))
        trk = rng.choice([None, g_track, g_track, g_track, "tracklet_id"])
        lk = rng.choice([None, g_lin, g_lin, g_lin])
        if trk is not None and rng.random() < 0.75:
            feats.append((trk, "K"))
        if lk is not None and rng.random() < 0.75 and lk not in dict(feats):
            feats.append((lk, "L"))
        if rng.random() < 0.2 and "tracklet_id" not in dict(feats):
            feats.append(("tracklet_id", "U9"))
        if rng.random() < 0.5:
            rest = feats[1:]
            rng.shuffle(rest)
            feats = feats[:1] + rest
        feats = [list(kv) for kv in dict(feats).items()]     # a dict: distinct keys, first position kept
        c["prebuilt"] = {"feats": feats, "time": tkey, "pos": posk, "trk": trk, "lin": lk}
        if trk is not None and rng.random() < 0.8:
            g_track = trk
    T = rng.randint(1, 3)
    nn = rng.choice([0, 1, 2, 3, 4, 5])
    ids = rng.sample(range(1, 12), nn)
    times = sorted(rng.randrange(T) for _ in ids)
    nodes = []
    mode_t = rng.choice(["all", "all", "none", "first-only", "first-missing", "some-none"])
    mode_l = rng.choice(["all", "none", "first-only", "first-missing", "some-none", "same", "same"])
    if mode_l == "same":
        mode_l = mode_t
    c["modes"] = [mode_t, mode_l]
    pos_on_graph = rng.choice(["single", "axes", "both", "none"]) if c["hasSeg"] else rng.choice(["single", "axes", "both"])
    mode_x = rng.choice(["none", "none", "all"])
    for idx, (n, t) in enumerate(zip(ids, times)):
        attrs: list[list] = [[tkey, t]]
        if pos_on_graph in ("single", "both"):
            attrs.append(["pos", "P"])
            if rng.random() < 0.3:
                attrs.append(["centroid", "P"])
        if pos_on_graph in ("axes", "both"):
            for a in axes:
                attrs.append([a, "F"])
        for key, mode, base in ((g_track, mode_t, 3), (g_lin, mode_l, 20), ("tracklet_id", mode_x, 40)):
            if key in [kv[0] for kv in attrs]:
                continue
            have = {"all": True, "none": False, "first-only": idx == 0, "first-missing": idx != 0,
                    "some-none": True}[mode]
            if have:
                v = rng.choice([base, base + 1, base + 2, rng.randrange(1, 9)])
                if mode == "some-none" and rng.random() < 0.4:
                    v = None
                attrs.append([key, v])
        if rng.random() < 0.3 and "area" not in [kv[0] for kv in attrs]:
            attrs.append(["area", "F"])
        if rng.random() < 0.2 and "score" not in [kv[0] for kv in attrs]:
            attrs.append(["score", 5])
        if rng.random() < 0.2:
            rng.shuffle(attrs)
        nodes.append({"id": n, "time": t, "attrs": attrs, "hasMask": False})
    edges = []
    for j in range(len(nodes)):
        cands = [i for i in range(j) if nodes[i]["time"] < nodes[j]["time"]
                 and sum(1 for e in edges if e[0] == nodes[i]["id"]) < 2]
        if cands and rng.random() < 0.7:
            edges.append([nodes[rng.choice(cands)]["id"], nodes[j]["id"]])
    c["edges"] = edges
    c["nodes"] = nodes
    c["T"] = T
    c["boxes"] = []        # (label, frame, row block, column block): 2x2(x2) boxes in a 6^nsp frame
    c["stray"] = False
    if c["hasSeg"]:
        slot = 0
        for nd in nodes:
            r = rng.random()
            if r < 0.7:
                fr = nd["time"]
            elif r < 0.8 and T > 1:
                fr = rng.choice([x for x in range(T) if x != nd["time"]])    # label in another frame only
            else:
                continue
            o = (slot % 3) * 2
            z = (slot // 3) * 2
            slot += 1
            if z > 4:
                continue
            c["boxes"].append([nd["id"], fr, z, o])
            nd["hasMask"] = True
        c["stray"] = rng.random() < 0.3       # a label that is no node
    posts: list[list] = []
    for _ in range(rng.choice([0, 0, 1, 2, 3])):
        if rng.random() < 0.3:
            posts.append(["ft"])
        else:
            pool = []
            if c["hasSeg"]:
                pk = "pos"
                if c["prebuilt"] is not None and isinstance(c["prebuilt"]["pos"], str):
                    pk = c["prebuilt"]["pos"]
                pool += [pk, "area", "iou"] + (["circularity", "perimeter"] if c["ndim"] == 3 else [])
            if c["solution"] or any(p[0] == "ft" for p in posts):
                if c["prebuilt"] is None:
                    pool += [g_track, g_lin]
                else:
                    pool += [c["prebuilt"]["trk"] or "tracklet_id", c["prebuilt"]["lin"] or "lineage_id"]
            if rng.random() < 0.2 or not pool:
                pool += [rng.choice(["bogus", "track_id", "tracklet_id", "centroid", "lineage_id"])]
            pool = list(dict.fromkeys(pool))
            ks = rng.sample(pool, min(len(pool), rng.choice([1, 1, 2, 3])))
            posts.append(["en", ks, rng.random() < 0.7])
    c["posts"] = posts
    return c


def _seg_of(c: dict):
    if not c["hasSeg"]:
        return None
    nsp = c["ndim"] - 1
    seg = np.zeros((c["T"],) + (6,) * nsp, dtype=np.int64)
    for label, fr, z, o in c["boxes"]:
        if nsp == 2:
            seg[fr, z:z + 2, o:o + 2] = label
        else:
            seg[fr, 0:2, z:z + 2, o:o + 2] = label
    if c["stray"]:
        seg[(0,) + (5,) * nsp] = 99
    return seg


def encode(c: dict) -> str:
    def val(v):
        if v is None:
            return "n"
        if isinstance(v, str):
            return "0"
        return str(int(v))

    out = ["CT", "1" if c["solution"] else "0", "1" if c["hasSeg"] else "0", str(c["ndim"])]
    out += _optstr(c["timeAttr"]) + _poskey(c["posAttr"]) + _optstr(c["trackletAttr"]) + _optstr(c["lineageAttr"])
    pb = c["prebuilt"]
    if pb is None:
        out += ["0"]
    else:
        out += ["1", str(len(pb["feats"]))]
        for k, tk in pb["feats"]:
            out += [hexs(k), tk]
        out += _optstr(pb["time"]) + _poskey(pb["pos"]) + _optstr(pb["trk"]) + _optstr(pb["lin"])
    out += [str(len(c["nodes"]))]
    for nd in c["nodes"]:
        out += [str(nd["id"]), str(nd["time"]), "1" if nd["hasMask"] else "0", str(len(nd["attrs"]))]
        for k, v in nd["attrs"]:
            out += [hexs(k), val(v)]
    out += [str(len(c["edges"]))]
    for u, v in c["edges"]:
        out += [str(u), str(v)]
    out += [str(len(c["posts"]))]
    for p in c["posts"]:
        if p[0] == "ft":
            out += ["ft"]
        else:
            out += ["en", str(len(p[1]))] + [hexs(k) for k in p[1]] + ["1" if p[2] else "0"]
    return " ".join(out)


# ---------------------------------------------------------------------------------------------
# the real code + the oracle
# ---------------------------------------------------------------------------------------------
def _oracle(t, c: dict, static_fresh: set | None, prebuilt_keys: set | None, ids_expected: bool) -> list[tuple[str, str]]:
    """independent readings of C10 / C06 / C04 on the real object; returns (tag, what) pairs"""
    from funtracks.data_model import SolutionTracks

    bad: list[tuple[str, str]] = []
    reg = set(t.features.keys())
    manageable = set(t.annotators.all_features.keys())
    active = {k for k, (_, on) in t.annotators.all_features.items() if on}
    static = static_fresh if prebuilt_keys is None else (prebuilt_keys - manageable)
    if reg != (static | active):
        bad.append(("registry", f"registry {sorted(reg)} != static {sorted(static)} ∪ active {sorted(active)}"))
    pk = t.features.position_key
    pks = [] if pk is None else ([pk] if isinstance(pk, str) else list(pk))
    miss = [k for k in pks if k not in t.features]
    if miss:
        bad.append(("position", f"position key(s) {miss} not registered (features {sorted(reg)})"))
    if isinstance(t, SolutionTracks) and t.graph.number_of_nodes() > 0 and ids_expected:
        _REC["ids_checked"] = _REC.get("ids_checked", 0) + 1
        ta = t.track_annotator
        tk = ta.tracklet_key
        if tk not in ta.features:
            bad.append(("ids", f"tracklet feature {tk!r} not active in the TrackAnnotator"))
        else:
            by_id: dict[int, set] = {}
            none_nodes = []
            for n in t.graph.nodes():
                v = t.graph.nodes[n].get(tk)
                if v is None:
                    none_nodes.append(n)
                else:
                    by_id.setdefault(int(v), set()).add(int(n))
            if none_nodes:
                bad.append(("ids", f"nodes {none_nodes} have no track id under {tk!r}"))
            book = {int(i): sorted(int(x) for x in ns) for i, ns in ta.tracklet_id_to_nodes.items() if len(ns) > 0}
            want = {i: sorted(ns) for i, ns in by_id.items()}
            if book != want:
                bad.append(("ids", f"tracklet_id_to_nodes {book} != nodes per id {want}"))
    return bad


def _ids_contract(c: dict, tk: str | None, lk: str | None) -> bool:
    """are the track ids of a freshly constructed solution supposed to be complete? (computed
    because the first node lacks the key, or present with a value on every node)"""
    if tk is None or tk == lk or tk in SEG_KEYS or tk == (c["timeAttr"] or "time"):
        return False
    if not c["nodes"]:
        return True
    first = dict((k, v) for k, v in c["nodes"][0]["attrs"])
    if c["prebuilt"] is None and tk not in first:
        return True
    return all(dict((k, v) for k, v in nd["attrs"]).get(tk) is not None
               and not isinstance(dict((k, v) for k, v in nd["attrs"]).get(tk), str) for nd in c["nodes"])


def run_case(c: dict) -> tuple[str, list[tuple[str, str]]]:
    """real code: canonical answer (`ok …` / `keyerror j …`) and the oracle findings"""
    from funtracks.data_model import SolutionTracks, Tracks
    from funtracks.features import FeatureDict

    _install_wrappers()
    nsp = c["ndim"] - 1
    g = nx.DiGraph()
    for nd in c["nodes"]:
        a = {}
        for k, v in nd["attrs"]:
            if v == "P":
                v = [1.0] * nsp
            elif v == "F":
                v = 2.0
            a[k] = v
        g.add_node(nd["id"], **a)
    for u, v in c["edges"]:
        g.add_edge(u, v)
    kw: dict[str, Any] = dict(segmentation=_seg_of(c), ndim=c["ndim"])
    pb = c["prebuilt"]
    prebuilt_keys = None
    static_fresh = None
    if pb is not None:
        kw["features"] = FeatureDict({k: feat_of_tok(tk) for k, tk in pb["feats"]}, pb["time"],
                                     copy.copy(pb["pos"]), pb["trk"], pb["lin"])
        prebuilt_keys = {k for k, _ in pb["feats"]}
    else:
        static_fresh = {c["timeAttr"] or "time"}
        if not c["hasSeg"]:
            pa = c["posAttr"] if c["posAttr"] is not None else "pos"
            static_fresh |= {pa} if isinstance(pa, str) else set(pa)
    pos_attr = tuple(c["posAttr"]) if c["posKind"] == "tuple" else c["posAttr"]
    kw.update(time_attr=c["timeAttr"], pos_attr=pos_attr, tracklet_attr=c["trackletAttr"],
              lineage_attr=c["lineageAttr"])
    cls = SolutionTracks if c["solution"] else Tracks
    findings: list[tuple[str, str]] = []
    _REC["on"] = True
    _REC["log"] = []
    try:
        with warnings.catch_warnings():
            warnings.simplefilter("ignore")
            t = cls(g, **kw)
            if c["solution"]:
                if pb is None:
                    ids_expected = _ids_contract(c, c["trackletAttr"] or "track_id", c["lineageAttr"] or "lineage_id")
                else:
                    ids_expected = (pb["trk"] is not None and pb["trk"] in prebuilt_keys
                                    and _ids_contract(c, pb["trk"], pb["lin"]))
            else:
                ids_expected = False
            findings += _oracle(t, c, static_fresh, prebuilt_keys, ids_expected)
            for j, p in enumerate(c["posts"]):
                before = canon(t)
                snap = list(_REC["log"])
                try:
                    if p[0] == "ft":
                        _REC["log"] = []
                        had_key = t.features.tracklet_key is not None
                        lin_key = t.features.lineage_key
                        # the new object gets the FeatureDict of the old one
                        prebuilt_keys = set(t.features.keys())
                        static_fresh = None
                        t = SolutionTracks.from_tracks(t)
                        ta = t.track_annotator
                        ids_expected = (had_key and ta.tracklet_key != lin_key and ta.tracklet_key not in SEG_KEYS
                                        and ta.tracklet_key != t.features.time_key)
                    else:
                        t.enable_features(list(p[1]), recompute=p[2])
                        ta = getattr(t, "track_annotator", None)
                        if ta is not None and ta.tracklet_key in p[1]:
                            if p[2]:
                                ids_expected = (ta.tracklet_key != ta.lineage_key and ta.tracklet_key not in SEG_KEYS
                                                and ta.tracklet_key != t.features.time_key
                                                and not (ta.lineage_key in p[1] and ta.lineage_key == ta.tracklet_key))
                            # without recomputation the caller vouches for the values: keep the flag
                except KeyError as e:
                    if "Features not available" in str(e):
                        _REC["log"] = snap
                        return f"keyerror {j} " + before, findings
                    raise
                findings += _oracle(t, c, static_fresh, prebuilt_keys, ids_expected)
            return "ok " + canon(t), findings
    finally:
        _REC["on"] = False


# ---------------------------------------------------------------------------------------------
# entry point
# ---------------------------------------------------------------------------------------------
_SECTIONS = ("reg", "keys", "ann", "comp", "book", "nodes")


def _diff_tag(real: str, model: str) -> str:
    """which part of the answer differs first (stable across seeds)"""
    rt, mt = real.split(), model.split()
    if not mt or mt[0] == "bad-op":
        return "bad-op"
    if rt[0] != mt[0]:
        return "status"
    section = "head"
    for a, b in zip(rt, mt):
        if a != b:
            return section
        if a in _SECTIONS:
            section = a
    return "length"


def branch_tag(c: dict) -> str:
    pos = "per-axis" if isinstance(c["posAttr"], list) else ("default" if c["posAttr"] is None else "single")
    return "/".join(["solution" if c["solution"] else "plain", "array" if c["hasSeg"] else "no-array",
                     "featuredict" if c["prebuilt"] is not None else "attrs", pos])


def construct_cases(prop: str, rng: random.Random, n: int, res) -> list[Failure]:
    """`n` random constructor calls: model vs code (divergence) and oracle on the real object."""
    cases: list[dict] = []
    lines: list[str] = []
    reals: list[str] = []
    failures: list[Failure] = []
    seen: set[str] = set()
    for _ in range(n):
        c = gen_case(rng)
        res.count("construct:" + branch_tag(c))
        try:
            real, findings = run_case(c)
        except Exception as e:  # noqa: BLE001 - anything but the modelled KeyError: not a case
            res.count(f"construct:skipped:{type(e).__name__}")
            continue
        res.evaluations += 1
        res.nontrivial.add(h(c))
        res.count("construct:result:" + real.split(" ", 1)[0])
        res.count("construct:ids-first-node:" + c["modes"][0])
        if " comp 0 " not in real:
            res.count("construct:computed-something")
        for p in c["posts"]:
            res.count("construct:post:" + p[0])
        if not c["nodes"]:
            res.count("construct:empty-graph")
        if c["wild"]:
            res.count("construct:colliding-keys-allowed")
        if len(res.samples) < 2:
            res.samples.append({"construct": {k: v for k, v in c.items() if k not in ("boxes",)}})
        line = encode(c)
        if c["wild"]:
            # colliding key names (a tracklet key called "lineage_id" …) are generated to validate the
            # model only: the properties say nothing about such configurations
            findings = []
        for tag, what in findings:
            sig = f"{prop}|construct|{tag}"
            if sig not in seen:
                seen.add(sig)
                failures.append(Failure("oracle", prop, sig, "constructed object: " + what,
                                        {"case": c, "ct_line": line, "real": real}))
        cases.append(c)
        lines.append(line)
        reals.append(real)
    res.count("construct:oracle-ids-evaluated", _REC.pop("ids_checked", 0))
    outs = Driver().run(lines) if lines else []
    for c, line, real, model in zip(cases, lines, reals, outs):
        res.compared_steps += 1
        if real != model:
            tag = _diff_tag(real, model)
            sig = f"{prop}|construct-model-vs-code|{tag}"
            if sig not in seen:
                seen.add(sig)
                failures.append(Failure("divergence", prop, sig,
                                        f"construction model and code differ ({tag}); branch {branch_tag(c)}",
                                        {"ct_line": line, "real": real, "model": model, "case": c}))
    return failures
