"""Family "labels": properties C19 (label utilities) and C13 (relabelling on import).

Real code exercised
  C19  funtracks.utils._segmentation_utils.ensure_unique_labels (multiseg False/True)
       funtracks.utils._segmentation_utils.relabel_segmentation_with_track_id
  C13  funtracks.import_export._import_segmentation.relabel_segmentation   (direct)
       funtracks.import_export.tracks_from_df(df, segmentation)            (public path)

For every generated case: real code -> oracle (brute-force reading of the property on the real
return value, nothing shared with the implementation or with the Lean model) -> the same case
through the Lean driver (`LB eu|eum|bt|rs|imp`), flat label arrays (and node / edge lists)
compared token by token.

A case is a plain JSON-able dict (this is also the replay format):
  {"fn": "ensure_unique", "shape": [...], "dtype": "uint16", "data": [flat], "multiseg": bool}
  {"fn": "bytrack", shape, dtype, data, "nodes": [[id, time|None, seg|None], ...], "edges": [[u,v],...]}
  {"fn": "relabel" | "import", shape, dtype, data, "rows": [[id, seg, time], ...],
   "gnodes": [...], "edges": [[u,v],...], "dask": bool}
"""
from __future__ import annotations

import multiprocessing as mp
import random
import signal
import sys
import time
import warnings
from typing import Any, Callable

import numpy as np

from .common import Driver, Failure, Result, h, ncores, shard_seeds

RULE = {
    "C19": "a case counts as non-trivial if the array has >= 2 frames and >= 1 non-zero label and "
           "(ensure_unique) the real output differs from the input or some label value occurs in two "
           "input frames, (bytrack) the solution has >= 1 edge or >= 2 nodes and the output has a "
           "non-zero pixel; distinct = distinct hash of the whole literal case",
    "C13": "a case counts as non-trivial if at least one listed (time, seg id) owns a pixel and the "
           "output differs from the input array (some label really changes or is removed); "
           "distinct = distinct hash of the whole literal case",
}

DTYPES = ["int32", "uint16", "uint64", "int64", "uint8", "uint32"]
DT_MAX = {"int32": 2**31 - 1, "uint16": 2**16 - 1, "uint64": 2**62, "int64": 2**62, "uint8": 2**8 - 1,
          "uint32": 2**32 - 1}
# the true top of the narrow dtypes: shifted labels must not wrap around in the INPUT's width
DT_TOP = {"int32": 2**31 - 1, "uint16": 2**16 - 1, "uint8": 2**8 - 1, "uint32": 2**32 - 1}


# ------------------------------------------------------------------------------------------------
# watchdog


class _Hang(Exception):
    pass


def _alarm(_sig, _frm):
    raise _Hang()


def guarded(fn: Callable[[], Any], seconds: int = 20):
    """run fn() under a SIGALRM watchdog; returns ('ok', value) | ('exc', repr) | ('hang', None)"""
    use_alarm = hasattr(signal, "SIGALRM")
    old = None
    if use_alarm:
        try:
            old = signal.signal(signal.SIGALRM, _alarm)
            signal.alarm(seconds)
        except ValueError:  # not in main thread
            use_alarm = False
    try:
        return ("ok", fn())
    except _Hang:
        return ("hang", None)
    except Exception as e:  # noqa: BLE001
        return ("exc", type(e).__name__)
    finally:
        if use_alarm:
            signal.alarm(0)
            if old is not None:
                signal.signal(signal.SIGALRM, old)


# ------------------------------------------------------------------------------------------------
# case helpers


def arr_of(case: dict) -> np.ndarray:
    return np.array(case["data"], dtype=case["dtype"]).reshape(case["shape"])


def laid_out(case: dict, a: np.ndarray) -> np.ndarray:
    """a private copy of `a` in the memory layout the case asks for: C order, or the logically
    identical but NON-contiguous array one gets from swapaxes/transpose of a stack stored in
    another axis order (reshape of such an array copies instead of returning a view)"""
    if case.get("layout") == "swapped" and a.ndim >= 2 and a.size:
        return np.ascontiguousarray(np.swapaxes(a, 0, 1)).swapaxes(0, 1)
    return a.copy()


def frames_of(case: dict) -> list[list[int]]:
    """the frames as the model sees them: flat label lists; multiseg: (h,t) pairs, C order"""
    a = arr_of(case)
    nlead = 2 if case.get("multiseg") else 1
    lead = int(np.prod(a.shape[:nlead], dtype=np.int64))
    a = a.reshape((lead, -1)) if lead else a.reshape((0, 0))
    return [[int(x) for x in row] for row in a]


def enc_arr(frames: list[list[int]]) -> list[str]:
    out = [str(len(frames))]
    for f in frames:
        out.append(str(len(f)))
        out.extend(str(x) for x in f)
    return out


def model_line(case: dict) -> str:
    fn = case["fn"]
    if fn == "ensure_unique":
        if case.get("multiseg"):
            a = arr_of(case)
            H, T = a.shape[0], a.shape[1]
            fr = frames_of(case)
            toks = ["LB", "eum", str(H)]
            for hh in range(H):
                toks += enc_arr(fr[hh * T:(hh + 1) * T])
            return " ".join(toks)
        return " ".join(["LB", case.get("variant", "eu")] + enc_arr(frames_of(case)))
    if fn == "bytrack":
        toks = ["LB", "bt"] + enc_arr(frames_of(case)) + [str(len(case["nodes"]))]
        for nid, t, s in case["nodes"]:
            toks.append(str(nid))
            toks += ["0"] if t is None else ["1", str(t)]
            toks += ["0"] if s is None else ["1", str(s)]
        toks.append(str(len(case["edges"])))
        for u, v in case["edges"]:
            toks += [str(u), str(v)]
        return " ".join(toks)
    if fn in ("relabel", "import"):
        toks = ["LB", "rs" if fn == "relabel" else case.get("variant", "imp")] + enc_arr(frames_of(case))
        toks.append(str(len(case["gnodes"])))
        toks += [str(n) for n in case["gnodes"]]
        toks.append(str(len(case["edges"])))
        for u, v in case["edges"]:
            toks += [str(u), str(v)]
        toks.append(str(len(case["rows"])))
        for nid, sg, t in case["rows"]:
            toks += [str(nid), str(sg), str(t)]
        return " ".join(toks)
    raise ValueError(fn)


def canon_flat(a: np.ndarray) -> str:
    flat = [str(int(x)) for x in a.ravel()]
    return " ".join(["ok"] + flat)


def canon_seg_graph(a: np.ndarray, nodes, edges) -> str:
    ns = sorted(int(n) for n in nodes)
    es = sorted((int(u), int(v)) for u, v in edges)
    toks = ["ok"] + [str(int(x)) for x in a.ravel()] + ["|", str(len(ns))] + [str(n) for n in ns]
    toks += ["|", str(len(es))]
    for u, v in es:
        toks += [str(u), str(v)]
    return " ".join(toks)


# ------------------------------------------------------------------------------------------------
# real code runners: case -> canonical string ('ok …' | 'err') + raw objects for the oracle


def run_real(case: dict):
    """returns (canonical string, payload for the oracle)"""
    fn = case["fn"]
    warnings.simplefilter("ignore")
    if fn == "ensure_unique":
        from funtracks.utils._segmentation_utils import ensure_unique_labels

        a = arr_of(case)
        out = ensure_unique_labels(laid_out(case, a), multiseg=bool(case.get("multiseg")))
        return canon_flat(out), {"out": out}
    if fn == "bytrack":
        import networkx as nx
        from funtracks.utils._segmentation_utils import relabel_segmentation_with_track_id

        g = nx.DiGraph()
        for nid, t, s in case["nodes"]:
            attrs = {}
            if t is not None:
                attrs["time"] = t
            if s is not None:
                attrs["seg_id"] = s
            g.add_node(nid, **attrs)
        a = arr_of(case)
        if case.get("pre_edges") is not None:
            # the function has been called before on this graph object, with other links
            g.add_edges_from([tuple(e) for e in case["pre_edges"]])
            try:
                relabel_segmentation_with_track_id(g, a.copy())
            except (KeyError, IndexError):
                pass
            g.remove_edges_from(list(g.edges))
        g.add_edges_from([tuple(e) for e in case["edges"]])
        try:
            out = relabel_segmentation_with_track_id(g, laid_out(case, a))
        except (KeyError, IndexError):
            return "err", {"out": None}
        return canon_flat(out), {"out": out}
    if fn == "relabel":
        import dask.array as da
        import networkx as nx
        from funtracks.import_export._import_segmentation import relabel_segmentation

        g = nx.DiGraph()
        rowmap = {r[0]: r for r in case["rows"]}
        for n in case["gnodes"]:
            if n in rowmap:
                g.add_node(n, time=rowmap[n][2], seg_id=rowmap[n][1])
            else:
                g.add_node(n)
        g.add_edges_from([tuple(e) for e in case["edges"]])
        a = arr_of(case)
        seg = da.from_array(a.copy(), chunks=a.shape) if case.get("dask") and a.size else laid_out(case, a)
        ids = np.array([r[0] for r in case["rows"]], dtype=np.int64)
        sgs = np.array([r[1] for r in case["rows"]], dtype=np.int64)
        tms = np.array([r[2] for r in case["rows"]], dtype=np.int64)
        try:
            out = relabel_segmentation(seg, g, ids, sgs, tms)
        except IndexError:
            return "err", {"out": None}
        return canon_seg_graph(out, g.nodes, g.edges), {"out": out, "graph": g}
    if fn == "import":
        import pandas as pd
        from funtracks.import_export import tracks_from_df

        a = arr_of(case)
        cols: dict[str, list] = {"time": [], "id": [], "parent_id": [], "seg_id": []}
        axes = ["z", "y", "x"][-(a.ndim - 1):]
        for ax in axes:
            cols[ax] = []
        par = {v: u for u, v in case["edges"]}
        for nid, sg, t in case["rows"]:
            cols["time"].append(t)
            cols["id"].append(nid)
            cols["parent_id"].append(par.get(nid, -1))
            cols["seg_id"].append(sg)
            where = np.argwhere(a[t] == sg)
            pos = where[0] if len(where) else np.zeros(a.ndim - 1)
            for ax, c in zip(axes, pos):
                cols[ax].append(float(c))
        df = pd.DataFrame(cols)
        if not case["rows"]:
            df = pd.DataFrame({k: pd.Series([], dtype=(float if k in axes else int)) for k in cols})
        if case.get("tif_folder"):
            # the segmentation given as a PATH: a folder of per-frame TIFFs, frame numbers not
            # zero-padded (frame_0.tif … frame_11.tif)
            import shutil
            import tempfile
            from pathlib import Path

            import tifffile
            from funtracks.import_export import CSVTracksBuilder
            d = Path(tempfile.mkdtemp(prefix="ft_lb_", dir="/tmp"))
            try:
                for i in range(a.shape[0]):
                    fr = a[i]
                    if case.get("tif_mixed"):
                        # every frame written in the narrowest dtype that holds its labels
                        fr = fr.astype(np.uint8 if int(fr.max(initial=0)) < 256 else np.uint16)
                    tifffile.imwrite(d / f"frame_{i}.tif", fr)
                b = CSVTracksBuilder()
                b.prepare(df)
                try:
                    tracks = b.build(df, d)
                except ValueError as e:
                    if case.get("tif_mixed") and "dtype" in str(e):
                        # frames of different dtypes cannot be stacked lazily: refused as a whole
                        # (repaired defect D22; before, the wider frames were wrapped silently)
                        return "refused:mixed-dtype", {"out": None, "refused": True}
                    raise
                out = np.asarray(tracks.segmentation)
            finally:
                shutil.rmtree(d, ignore_errors=True)
            return canon_seg_graph(out, tracks.graph.nodes, tracks.graph.edges), {"out": out, "graph": tracks.graph}
        if case.get("tif_file"):
            # the segmentation given as the PATH of one TIFF stack, a file name that was imported
            # before with other content (a label image corrected and saved under the same name)
            import os
            import shutil
            from pathlib import Path

            import tifffile
            from funtracks.import_export import CSVTracksBuilder
            d = Path(f"/tmp/ft_lb_same_{os.getpid()}")
            d.mkdir(exist_ok=True)
            f = d / "seg.tif"
            try:
                tifffile.imwrite(f, np.flip(a, axis=-1).copy())
                try:
                    b0 = CSVTracksBuilder()
                    b0.prepare(df)
                    b0.build(df, f)
                except Exception:  # noqa: BLE001  (the earlier content need not fit the table)
                    pass
                tifffile.imwrite(f, a)
                same = (int(a.sum()) + len(case["rows"])) % 2 == 0
                if same:
                    # batch import with ONE builder object: the earlier array came from another path
                    g_ = d / "earlier.tif"
                    tifffile.imwrite(g_, np.flip(a, axis=-1).copy())
                    b = CSVTracksBuilder()
                    b.prepare(df)
                    try:
                        b.build(df, g_)
                    except Exception:  # noqa: BLE001
                        pass
                else:
                    b = CSVTracksBuilder()
                b.prepare(df)
                tracks = b.build(df, f)
                out = np.asarray(tracks.segmentation)
            finally:
                shutil.rmtree(d, ignore_errors=True)
            return canon_seg_graph(out, tracks.graph.nodes, tracks.graph.edges), {"out": out, "graph": tracks.graph}
        tracks = tracks_from_df(df, a.copy())
        out = np.asarray(tracks.segmentation)
        return canon_seg_graph(out, tracks.graph.nodes, tracks.graph.edges), {
            "out": out, "graph": tracks.graph}
    raise ValueError(fn)


# ------------------------------------------------------------------------------------------------
# oracles (independent brute-force readings of the property statements)


def oracle(case: dict, payload: dict) -> tuple[str, str] | None:
    """returns (signature, what) on a property failure, else None"""
    fn = case["fn"]
    if payload.get("refused"):
        return None
    a = arr_of(case)
    out = payload.get("out")
    if fn == "ensure_unique":
        if out.shape != a.shape:
            return ("C19|ensure_unique|shape-changed", f"shape {a.shape} -> {out.shape}")
        nlead = 2 if case.get("multiseg") else 1
        lead = int(np.prod(a.shape[:nlead], dtype=np.int64))
        fi = a.reshape((lead, -1)) if lead else a.reshape((0, 0))
        fo = out.reshape((lead, -1)) if lead else out.reshape((0, 0))
        seen: dict[int, int] = {}
        for i in range(lead):
            for x in set(int(v) for v in fo[i]):
                if x == 0:
                    continue
                if x in seen:
                    return ("C19|ensure_unique|label-in-two-frames",
                            f"label {x} occurs in frame {seen[x]} and frame {i} of the result")
                seen[x] = i
        for i in range(lead):
            npx = fi.shape[1]
            fwd: dict[int, int] = {}
            bwd: dict[int, int] = {}
            for p in range(npx):
                x, y = int(fi[i][p]), int(fo[i][p])
                if (x == 0) != (y == 0):
                    return ("C19|ensure_unique|partition-changed",
                            f"frame {i} pixel {p}: in {x} out {y} (background not preserved)")
                if fwd.setdefault(x, y) != y or bwd.setdefault(y, x) != x:
                    return ("C19|ensure_unique|partition-changed",
                            f"frame {i}: regions split or merged around pixel {p} (in {x}, out {y})")
        return None
    if fn == "bytrack":
        if out is None:
            return None  # ill-formed input (missing attribute / time out of range): no claim
        if case.get("illformed"):
            return None
        nodes = case["nodes"]
        # unbranched segments, independently: union-find over edges whose source has out-degree 1
        outdeg: dict[int, int] = {}
        for u, _v in case["edges"]:
            outdeg[u] = outdeg.get(u, 0) + 1
        parent = {n[0]: n[0] for n in nodes}

        def find(x):
            while parent[x] != x:
                parent[x] = parent[parent[x]]
                x = parent[x]
            return x

        for u, v in case["edges"]:
            if outdeg[u] == 1:
                parent[find(u)] = find(v)
        T = a.shape[0]
        fi = a.reshape((T, -1)) if T else a.reshape((0, 0))
        fo = out.reshape((T, -1)) if T else out.reshape((0, 0))
        det = {(t, s): nid for nid, t, s in nodes}
        lab: dict[int, int] = {}
        for t in range(T):
            for p in range(fi.shape[1]):
                x, y = int(fi[t][p]), int(fo[t][p])
                if x == 0:
                    if y != 0:
                        return ("C19|bytrack|background-changed", f"frame {t} pixel {p}: 0 -> {y}")
                    continue
                nid = det.get((t, x))
                if nid is None:
                    if y != 0:
                        return ("C19|bytrack|unsolved-detection-kept",
                                f"frame {t} label {x} is not in the solution but pixel {p} became {y}")
                    continue
                if y == 0:
                    return ("C19|bytrack|solution-detection-removed",
                            f"frame {t} label {x} (node {nid}) pixel {p} became 0")
                if lab.setdefault(nid, y) != y:
                    return ("C19|bytrack|detection-label-not-uniform",
                            f"node {nid}: pixels carry {lab[nid]} and {y}")
        ids = sorted(lab)
        for i, n in enumerate(ids):
            for m in ids[i + 1:]:
                same = find(n) == find(m)
                if same and lab[n] != lab[m]:
                    return ("C19|bytrack|same-segment-different-label",
                            f"nodes {n},{m} in one unbranched segment got {lab[n]} and {lab[m]}")
                if not same and lab[n] == lab[m]:
                    return ("C19|bytrack|segments-share-label",
                            f"nodes {n},{m} in different segments both got {lab[n]}")
        return None
    if fn in ("relabel", "import"):
        if out is None or case.get("illformed"):
            return None
        tag = "relabel" if fn == "relabel" else "import"
        ids = [r[0] for r in case["rows"]]
        off = 1 if 0 in ids else 0
        T = a.shape[0]
        if out.shape != a.shape:
            return (f"C13|{tag}|pixel-wrong", f"shape {a.shape} -> {out.shape}")
        fi = a.reshape((T, -1)) if T else a.reshape((0, 0))
        fo = out.reshape((T, -1)) if T else out.reshape((0, 0))
        assign = {(r[2], r[1]): r[0] for r in case["rows"]}
        identity = all(r[0] == r[1] for r in case["rows"])
        for t in range(T):
            for p in range(fi.shape[1]):
                x, y = int(fi[t][p]), int(fo[t][p])
                want = assign[(t, x)] + off if (t, x) in assign else 0
                if y != want:
                    if fn == "import" and identity and (t, x) not in assign and y == x:
                        return ("C13|import|unlisted-label-kept-when-seg-id-equals-id",
                                f"frame {t} pixel {p}: label {x} belongs to no node but stays {y} "
                                "(relabelling skipped because every seg id equals its node id)")
                    return (f"C13|{tag}|pixel-wrong",
                            f"frame {t} pixel {p}: source label {x}, expected {want}, got {y}")
        g = payload["graph"]
        want_nodes = sorted(n + off for n in case["gnodes"])
        want_edges = sorted((u + off, v + off) for u, v in case["edges"])
        if sorted(int(n) for n in g.nodes) != want_nodes or \
                sorted((int(u), int(v)) for u, v in g.edges) != want_edges:
            return (f"C13|{tag}|graph-shift-mismatch",
                    f"graph nodes {sorted(g.nodes)} edges {sorted(g.edges)}; expected shift by {off}")
        for nid, sg, t in case["rows"]:
            if nid in case["gnodes"]:
                d = g.nodes[nid + off]
                if int(d.get("time", -1)) != t or int(d.get("seg_id", -1)) != sg:
                    return (f"C13|{tag}|graph-shift-mismatch",
                            f"node {nid}+{off} carries time/seg_id {d.get('time')}/{d.get('seg_id')}, "
                            f"expected {t}/{sg}")
        return None
    raise ValueError(fn)


# ------------------------------------------------------------------------------------------------
# fixed corpus: the witnesses of the Lean counterexample theorems, run first in every run
#   C19_counterexample_unfixed, C13_chained_counterexample, C13_counterexample_skip_unlisted

CORPUS = {
    "C19": [
        {"fn": "ensure_unique", "multiseg": False, "shape": [3, 2], "dtype": "uint64",
         "data": [1, 2, 0, 0, 1, 0]},
        {"fn": "ensure_unique", "multiseg": True, "shape": [3, 1, 2], "dtype": "uint16",
         "data": [1, 2, 0, 0, 1, 0]},
        {"fn": "bytrack", "shape": [3, 3], "dtype": "uint16", "data": [7, 7, 0, 7, 8, 9, 5, 6, 0],
         "nodes": [[1, 0, 7], [2, 1, 7], [3, 1, 8], [4, 2, 5], [5, 2, 6]],
         "edges": [[1, 2], [1, 3], [2, 4]]},
    ],
    "C13": [
        {"fn": "relabel", "shape": [1, 2], "dtype": "uint16", "data": [1, 2],
         "rows": [[2, 1, 0], [1, 2, 0]], "gnodes": [1, 2], "edges": [], "dask": False, "mode": "corpus"},
        {"fn": "relabel", "shape": [2, 4], "dtype": "uint16", "data": [5, 7, 0, 5, 5, 9, 1, 0],
         "rows": [[0, 5, 0], [5, 5, 1], [7, 9, 1], [9, 1, 1]], "gnodes": [0, 5, 7, 9],
         "edges": [[0, 5], [0, 7], [5, 9]], "dask": True, "mode": "corpus"},
        {"fn": "import", "shape": [1, 2, 2], "dtype": "uint16", "data": [1, 0, 0, 3],
         "rows": [[3, 3, 0]], "gnodes": [3], "edges": [], "dask": False, "mode": "corpus"},
        {"fn": "import", "shape": [1, 2, 2], "dtype": "uint16", "data": [1, 2, 0, 0],
         "rows": [[2, 1, 0], [1, 2, 0]], "gnodes": [2, 1], "edges": [], "dask": False, "mode": "corpus"},
        # D22: a folder of per-frame TIFFs, the middle frame uint16 with label 300 after a uint8 first
        # frame (before the repair the lazily stacked array wrapped 300 to 44: node 2 lost its mask)
        {"fn": "import", "shape": [3, 2, 2], "dtype": "uint16", "data": [7, 7, 0, 0, 0, 300, 300, 0, 9, 0, 0, 9],
         "rows": [[1, 7, 0], [2, 300, 1], [3, 9, 2]], "gnodes": [1, 2, 3], "edges": [[1, 2], [2, 3]],
         "dask": False, "mode": "corpus", "tif_folder": True, "tif_mixed": True},
    ],
}


# ------------------------------------------------------------------------------------------------
# generators


def gen_shape(rng: random.Random, ndim_spatial: int | None = None, allow_t0: bool = True) -> list[int]:
    T = rng.choice([0] if allow_t0 and rng.random() < 0.02 else [1, 2, 2, 3, 3, 4, 5])
    nd = ndim_spatial or rng.choice([2, 2, 3])
    if nd == 2:
        sp = [rng.randint(1, 4), rng.randint(1, 4)]
    else:
        sp = [rng.randint(1, 2), rng.randint(1, 3), rng.randint(1, 3)]
    return [T] + sp


def gen_labels(rng: random.Random, shape: list[int], dtype: str, lead: int,
               small_only: bool = False) -> list[int]:
    """flat data: `lead` frames; frames with no labels, repeated labels, large values"""
    npx = int(np.prod(shape)) // lead if lead else 0
    style = rng.choice(["small", "small", "reuse"] if small_only else ["small", "small", "reuse", "big", "mixed", "top"])
    if style == "top" and dtype not in DT_TOP:
        style = "big"
    big = DT_MAX[dtype] // 16
    pool_small = [1, 2, 3, 4, 5]
    data: list[int] = []
    base_frame: list[int] | None = None
    for _i in range(lead):
        r = rng.random()
        if r < 0.22:
            fr = [0] * npx
        elif style == "reuse" and base_frame is not None and rng.random() < 0.6:
            fr = list(base_frame)
        else:
            if style == "top":
                pool = [DT_TOP[dtype] - rng.randint(0, 6) for _ in range(rng.randint(1, 3))]
                if rng.random() < 0.5:
                    pool.append(rng.randint(1, 5))
            elif style == "big" or (style == "mixed" and rng.random() < 0.4):
                k = rng.randint(1, 3)
                pool = [rng.randint(1, big) for _ in range(k)]
            else:
                pool = rng.sample(pool_small, rng.randint(1, 4))
            dens = rng.choice([0.3, 0.6, 0.9])
            fr = [rng.choice(pool) if rng.random() < dens else 0 for _ in range(npx)]
        if base_frame is None and any(fr):
            base_frame = fr
        data += fr
    return data


def gen_ensure_unique(rng: random.Random) -> dict:
    dtype = rng.choice(DTYPES)
    layout = "swapped" if rng.random() < 0.25 else "C"
    if rng.random() < 0.3:
        shape = gen_shape(rng, allow_t0=False)
        H = rng.randint(1, 3)
        shape = [H] + shape
        lead = H * shape[1]
        return {"fn": "ensure_unique", "multiseg": True, "shape": shape, "dtype": dtype, "layout": layout,
                "data": gen_labels(rng, shape, dtype, lead)}
    shape = gen_shape(rng)
    return {"fn": "ensure_unique", "multiseg": False, "shape": shape, "dtype": dtype, "layout": layout,
            "data": gen_labels(rng, shape, dtype, shape[0])}


def detections(case: dict) -> list[tuple[int, int]]:
    a = arr_of(case)
    T = a.shape[0]
    dets = []
    for t in range(T):
        for x in sorted(set(int(v) for v in a[t].ravel())):
            if x != 0:
                dets.append((t, x))
    return dets


def gen_forest(rng: random.Random, ids_times: list[tuple[int, int]], maxdeg: int = 2) -> list[list[int]]:
    """random forward forest: each node may pick a parent in an earlier frame (skip edges allowed)"""
    edges: list[list[int]] = []
    deg: dict[int, int] = {}
    order = sorted(ids_times, key=lambda it: (it[1], rng.random()))
    pdiv = rng.choice([0.0, 0.3, 0.7])
    for nid, t in order:
        if rng.random() < 0.25:
            continue  # root / isolated
        cands = [(m, tm) for m, tm in order if tm < t and deg.get(m, 0) < maxdeg]
        if not cands:
            continue
        # prefer adjacent frame, sometimes skip; prefer nodes that already have a child (division)
        adj = [c for c in cands if c[1] == t - 1]
        pool = adj if adj and rng.random() < 0.8 else cands
        divs = [c for c in pool if deg.get(c[0], 0) >= 1]
        if divs and rng.random() < pdiv:
            pool = divs
        m, _ = rng.choice(pool)
        edges.append([m, nid])
        deg[m] = deg.get(m, 0) + 1
    rng.shuffle(edges)
    return edges


def gen_ids(rng: random.Random, n: int, labels: list[int], allow_zero: bool,
            big_ok: bool = True) -> list[int]:
    style = rng.choice(["small", "sparse", "labels", "big"] if big_ok else ["small", "sparse", "labels"])
    out: list[int] = []
    used = set()
    tries = 0
    while len(out) < n:
        tries += 1
        if tries > 20 * (n + 1):
            style = "big" if big_ok else "sparse"
        if style == "small":
            c = rng.randint(0 if allow_zero else 1, n + 2)
        elif style == "sparse":
            c = rng.randint(0 if allow_zero else 1, 40)
        elif style == "labels" and labels:
            c = rng.choice(labels + [rng.randint(1, 9)])
        else:
            c = rng.randint(1, 2**40)
        if not big_ok and c > 200:
            continue
        if c == 0 and not allow_zero:
            continue
        if c not in used:
            used.add(c)
            out.append(c)
    return out


def gen_bytrack(rng: random.Random, illformed: bool = False) -> dict:
    dtype = rng.choice(DTYPES)
    shape = gen_shape(rng)
    base = {"fn": "bytrack", "shape": shape, "dtype": dtype,
            "data": gen_labels(rng, shape, dtype, shape[0])}
    dets = detections(base)
    keep = [d for d in dets if rng.random() < rng.choice([1.0, 0.8, 0.5])]
    # occasionally a solution node whose detection owns no pixel
    if shape[0] and rng.random() < 0.1:
        t = rng.randrange(shape[0])
        ghost = (t, rng.randint(6, 50))
        if ghost not in dets:
            keep.append(ghost)
    ids = gen_ids(rng, len(keep), [d[1] for d in dets], allow_zero=True)
    nodes = [[i, t, s] for i, (t, s) in zip(ids, keep)]
    rng.shuffle(nodes)
    edges = gen_forest(rng, [(n[0], n[1]) for n in nodes], maxdeg=rng.choice([2, 2, 2, 3]))
    case = dict(base, nodes=nodes, edges=edges)
    if not illformed and rng.random() < 0.25:
        # the function was called before on the SAME graph object, when it had other links
        case["pre_edges"] = gen_forest(rng, [(n[0], n[1]) for n in nodes], maxdeg=2)
    if rng.random() < 0.15:
        case["layout"] = "swapped"
    if illformed and nodes:
        kind = rng.choice(["shared", "nokey", "badtime", "merge"])
        case["illformed"] = kind
        if kind == "shared" and len(nodes) >= 2:
            i, j = rng.sample(range(len(nodes)), 2)
            nodes[j][1], nodes[j][2] = nodes[i][1], nodes[i][2]
        elif kind == "nokey":
            n = rng.choice(nodes)
            n[rng.choice([1, 2])] = None
        elif kind == "badtime":
            rng.choice(nodes)[1] = shape[0] + rng.randint(0, 2)
        elif kind == "merge" and len(nodes) >= 3:
            # a node with two parents (not a forest): model and code must still agree
            ns = sorted(nodes, key=lambda n: n[1] if n[1] is not None else 0)
            edges.append([ns[0][0], ns[-1][0]])
            edges.append([ns[1][0], ns[-1][0]])
            case["edges"] = [list(e) for e in {tuple(e) for e in edges} if e[0] != e[1]]
    return case


def gen_relabel(rng: random.Random, public: bool, illformed: bool = False) -> dict:
    dtype = rng.choice(DTYPES)
    shape = gen_shape(rng, allow_t0=not public)
    tif = False
    if public:
        # regionprops on the imported tracks wants real 2-D / 3-D frames
        shape = [max(1, shape[0])] + [max(2, s) for s in shape[1:]]
        if rng.random() < 0.08 and dtype != "uint64":
            # the segmentation given as a folder of per-frame TIFFs: more than ten frames
            tif = True
            shape = [rng.randint(11, 13), 2, rng.randint(2, 3)]
    base = {"fn": "import" if public else "relabel", "shape": shape, "dtype": dtype,
            "data": gen_labels(rng, shape, dtype, shape[0], small_only=public)}
    dets = detections(base)
    if public and not dets:
        # the public path needs at least one node (it inspects a sample node)
        base["data"][rng.randrange(len(base["data"]))] = rng.randint(1, 5)
        dets = detections(base)
    mode = rng.choice(["random", "random", "cycle", "identity", "idzero", "otherid"])
    listed = [d for d in dets if rng.random() < rng.choice([1.0, 0.8, 0.5])]
    if public and not listed:
        listed = [rng.choice(dets)]
    if public and rng.random() < 0.04:
        listed = []   # a node table without rows (everything filtered out): nothing but background comes back
    if not public and shape[0] and rng.random() < 0.1:
        ghost = (rng.randrange(shape[0]), rng.randint(6, 50))
        if ghost not in dets:
            listed.append(ghost)
    labels = sorted({d[1] for d in dets})
    n = len(listed)
    if mode == "identity":
        # every seg id equals its node id (only possible if labels are unique across frames)
        seen, keep = set(), []
        for d in listed:
            if d[1] not in seen:
                seen.add(d[1])
                keep.append(d)
        listed = keep
        ids = [d[1] for d in listed]
        if rng.random() < 0.3 and len(ids) >= 2:
            # … all but one: forces the relabel path with label = other node's id
            i, j = rng.sample(range(len(ids)), 2)
            ids[i], ids[j] = ids[j], ids[i]
    elif mode == "cycle" and n >= 2:
        # node ids are a permutation of the listed label values (made distinct first)
        vals = []
        for d in listed:
            v = d[1]
            while v in vals:
                v += 1
            vals.append(v)
        k = rng.randrange(1, n)
        ids = vals[k:] + vals[:k]
    elif mode == "idzero":
        ids = gen_ids(rng, n, labels, allow_zero=True, big_ok=not public)
        if n and 0 not in ids:
            ids[rng.randrange(n)] = 0
    elif mode == "otherid":
        ids = gen_ids(rng, n, labels, allow_zero=False, big_ok=not public)
        # make some label value equal to another node's id
        for i in range(n):
            if listed[i][1] not in ids and rng.random() < 0.5:
                j = rng.randrange(n)
                if j != i:
                    ids[j] = listed[i][1]
        if len(set(ids)) != n:
            ids = gen_ids(rng, n, labels, allow_zero=False, big_ok=not public)
    else:
        ids = gen_ids(rng, n, labels, allow_zero=rng.random() < 0.3, big_ok=not public)
    if dtype in ("uint8", "uint16") and mode not in ("identity", "cycle") and rng.random() < 0.35:
        # node ids beyond the range of the label image's dtype (labels are reused per frame, node
        # ids are global): the relabelled array must still carry them exactly
        off = 256 if dtype == "uint8" else 65536
        ids = [i + off if i else i for i in ids]
    rows = [[i, s, t] for i, (t, s) in zip(ids, listed)]
    if dtype in ("uint8", "uint16") and shape[0] and not illformed and not public and rng.random() < 0.2:
        # a node whose seg id does NOT fit the label image's dtype (a stale, too-large label): it
        # matches no pixel — also when the value wrapped into the dtype is a label of its frame
        wrap = 256 if dtype == "uint8" else 65536
        t_ = rng.randrange(shape[0])
        present = sorted({d[1] for d in dets if d[0] == t_})
        sg = wrap * rng.randint(1, 2) + (rng.choice(present) if present and rng.random() < 0.8 else rng.randint(1, 5))
        nid = max([r[0] for r in rows] + [0]) + rng.randint(1, 5)
        if (t_, sg) not in [(r[2], r[1]) for r in rows]:
            rows.append([nid, sg, t_])
    rng.shuffle(rows)
    edges = gen_forest(rng, [(r[0], r[2]) for r in rows])
    gnodes = [r[0] for r in rows]
    if not public:
        rng.shuffle(gnodes)
        if rng.random() < 0.15:  # graph nodes that are not in the table (and vice versa)
            extra = rng.randint(50, 60)
            if extra not in gnodes:
                gnodes.append(extra)
    case = dict(base, rows=rows, gnodes=gnodes, edges=edges, mode=mode,
                dask=rng.random() < 0.3)
    if tif:
        case["tif_folder"] = True
        ks = sorted({r[2] for r in rows if r[2] >= 1})
        if ks and np.dtype(dtype).itemsize >= 2 and rng.random() < 0.5:
            # one later frame holds labels >= 256 while the first frames fit a byte, and every frame
            # file is written in the narrowest dtype that holds it
            k = rng.choice(ks)
            npx = int(np.prod(shape[1:]))
            case["data"] = [v + 256 if (v and i // npx == k) else v for i, v in enumerate(case["data"])]
            case["rows"] = [[r[0], r[1] + 256, r[2]] if r[2] == k else list(r) for r in rows]
            case["tif_mixed"] = True
    elif public and dtype != "uint64" and len(shape) >= 3 and rng.random() < 0.06:
        case["tif_file"] = True
    if not public and rng.random() < 0.15:
        case["layout"] = "swapped"
    if illformed and rows and not public:
        kind = rng.choice(["dup", "badtime"])
        case["illformed"] = kind
        if kind == "dup" and len(rows) >= 2:
            i, j = rng.sample(range(len(rows)), 2)
            rows[j][1], rows[j][2] = rows[i][1], rows[i][2]
        else:
            rng.choice(rows)[2] = shape[0] + rng.randint(0, 2)
    return case


# ------------------------------------------------------------------------------------------------
# evaluate one case on the real code (+ oracle); the model is asked in batch later


def evaluate(case: dict) -> dict:
    st, val = guarded(lambda: run_real(case))
    if st == "hang":
        return {"status": "hang"}
    if st == "exc":
        return {"status": "exc", "exc": val}
    canon, payload = val
    orc = oracle(case, payload)
    return {"status": "ok", "canon": canon, "oracle": orc, "out": payload.get("out")}


def fails_with(case: dict, signature: str) -> bool:
    try:
        r = evaluate(case)
    except Exception:  # noqa: BLE001
        return False
    return r["status"] == "ok" and r["oracle"] is not None and r["oracle"][0] == signature


def diverges(case: dict) -> bool:
    try:
        r = evaluate(case)
        if r["status"] != "ok":
            return False
        m = Driver().run([model_line(case)])[0]
    except Exception:  # noqa: BLE001
        return False
    return m != r["canon"]


# ------------------------------------------------------------------------------------------------
# shrinking (delta debugging over frames, pixels, label values, nodes, edges, rows)


def _rebuild(case: dict, a: np.ndarray, **upd) -> dict:
    c = {k: v for k, v in case.items()}
    c["shape"] = list(a.shape)
    c["data"] = [int(x) for x in a.ravel()]
    c.update(upd)
    return c


def _drop_time(case: dict, t: int, a: np.ndarray, axis: int) -> dict:
    a2 = np.delete(a, t, axis=axis)
    upd: dict[str, Any] = {}
    if case["fn"] == "bytrack":
        keep = [n for n in case["nodes"] if n[1] is None or n[1] != t]
        ids = {n[0] for n in keep}
        upd["nodes"] = [[n[0], (n[1] - 1 if n[1] is not None and n[1] > t else n[1]), n[2]] for n in keep]
        upd["edges"] = [e for e in case["edges"] if e[0] in ids and e[1] in ids]
    elif case["fn"] in ("relabel", "import"):
        keep = [r for r in case["rows"] if r[2] != t]
        gone = {r[0] for r in case["rows"] if r[2] == t}
        upd["rows"] = [[r[0], r[1], r[2] - 1 if r[2] > t else r[2]] for r in keep]
        upd["gnodes"] = [n for n in case["gnodes"] if n not in gone]
        upd["edges"] = [e for e in case["edges"] if e[0] not in gone and e[1] not in gone]
    return _rebuild(case, a2, **upd)


def candidates(case: dict):
    a = arr_of(case)
    fn = case["fn"]
    multiseg = bool(case.get("multiseg"))
    tax = 1 if multiseg else 0
    # 1 drop frames (and hypotheses)
    if multiseg:
        for hh in range(a.shape[0]):
            if a.shape[0] > 1:
                yield _rebuild(case, np.delete(a, hh, axis=0))
    min_t = 1 if fn == "import" else 0
    for t in range(a.shape[tax]):
        if a.shape[tax] > min_t:
            yield _drop_time(case, t, a, tax)
    # 2 drop graph parts
    if fn == "bytrack":
        for i in range(len(case["nodes"])):
            nid = case["nodes"][i][0]
            yield dict(case, nodes=case["nodes"][:i] + case["nodes"][i + 1:],
                       edges=[e for e in case["edges"] if nid not in e])
        for i in range(len(case["edges"])):
            yield dict(case, edges=case["edges"][:i] + case["edges"][i + 1:])
    if fn in ("relabel", "import"):
        for i in range(len(case["rows"])):
            nid = case["rows"][i][0]
            yield dict(case, rows=case["rows"][:i] + case["rows"][i + 1:],
                       gnodes=[n for n in case["gnodes"] if n != nid],
                       edges=[e for e in case["edges"] if nid not in e])
        for i in range(len(case["edges"])):
            yield dict(case, edges=case["edges"][:i] + case["edges"][i + 1:])
        if fn == "relabel":
            rowids = {r[0] for r in case["rows"]}
            for n in case["gnodes"]:
                if n not in rowids:
                    yield dict(case, gnodes=[m for m in case["gnodes"] if m != n],
                               edges=[e for e in case["edges"] if n not in e])
            if case.get("dask"):
                yield dict(case, dask=False)
    # 3 drop pixels: shrink each spatial axis
    nlead = 2 if multiseg else 1
    min_sp = 2 if fn == "import" else 1
    for ax in range(nlead, a.ndim):
        if a.shape[ax] > min_sp:
            for k in range(a.shape[ax]):
                yield _rebuild(case, np.delete(a, k, axis=ax))
    if fn != "import" and a.ndim - nlead > 1 and a.size:
        yield _rebuild(case, a.reshape(a.shape[:nlead] + (1, -1)) if a.ndim - nlead == 2 and a.shape[nlead] != 1
                       else a.reshape(a.shape[:nlead] + (-1,)))
    # 4 zero pixels
    flat = a.ravel()
    nz = [i for i in range(flat.size) if flat[i] != 0]
    for i in nz[:40]:
        b = flat.copy()
        b[i] = 0
        yield _rebuild(case, b.reshape(a.shape))
    # 5 smaller label values (rename one value everywhere, seg ids follow)
    vals = sorted({int(v) for v in flat if v != 0})
    for v in vals:
        for w in range(1, min(v, 6)):
            if w in vals:
                continue
            b = flat.copy()
            b[b == v] = w
            upd: dict[str, Any] = {}
            if fn == "bytrack":
                upd["nodes"] = [[n[0], n[1], w if n[2] == v else n[2]] for n in case["nodes"]]
            if fn in ("relabel", "import"):
                if fn == "import" and case.get("mode") == "identity":
                    break
                upd["rows"] = [[r[0], w if r[1] == v else r[1], r[2]] for r in case["rows"]]
            yield _rebuild(case, b.reshape(a.shape), **upd)
            break
    if case["dtype"] != "uint64" and fn != "import":
        yield dict(case, dtype="uint64")


def shrink(case: dict, still: Callable[[dict], bool], budget: int = 400) -> dict:
    cur = case
    n = 0
    progress = True
    import time as _t
    t0_ = _t.time()   # wall-clock limit: a change that makes every evaluation slow must not stall the check
    while progress and n < budget and _t.time() - t0_ < 60:
        progress = False
        for cand in candidates(cur):
            n += 1
            if n >= budget or _t.time() - t0_ >= 60:
                break
            try:
                ok = still(cand)
            except Exception:  # noqa: BLE001
                ok = False
            if ok:
                cur = cand
                progress = True
                break
    return cur


# ------------------------------------------------------------------------------------------------
# run


def nontrivial(case: dict, out) -> bool:
    a = arr_of(case)
    fn = case["fn"]
    if out is None or not a.size or not a.any():
        return False
    if fn == "ensure_unique":
        fr = frames_of(case)
        if len(fr) < 2:
            return False
        seen: set[int] = set()
        rep = False
        for f in fr:
            s = {x for x in f if x}
            rep = rep or bool(s & seen)
            seen |= s
        return rep or not np.array_equal(out, a.astype(out.dtype))
    if fn == "bytrack":
        return a.shape[0] >= 2 and (len(case["edges"]) >= 1 or len(case["nodes"]) >= 2) and bool(out.any())
    owns = any((a[r[2]] == r[1]).any() for r in case["rows"] if r[2] < a.shape[0])
    return owns and not np.array_equal(out, a.astype(out.dtype))


def _shard(args) -> Result:
    prop, seed, counts, intensify, first = args
    try:
        # a change that sizes a table by the largest LABEL VALUE asks for terabytes on the large ids
        # generated here; without a limit one C call fills the machine's memory (no watchdog can
        # interrupt it). With the limit it is a MemoryError, reported like any other exception.
        import resource
        lim = 6 << 30
        soft, hard = resource.getrlimit(resource.RLIMIT_AS)
        if soft == resource.RLIM_INFINITY or soft > lim:
            resource.setrlimit(resource.RLIMIT_AS, (lim, hard))
    except Exception:  # noqa: BLE001
        pass
    rng = random.Random(seed)
    res = Result(rule=RULE[prop])
    pending: list[tuple[dict, str]] = []  # (case, real canonical)
    seen_sig: set[str] = set()

    plan: list[Callable[[], dict]] = []
    if first:
        for c in CORPUS[prop]:
            plan.append(lambda c=c: dict(c))
        res.count("corpus-cases", len(CORPUS[prop]))
    if prop == "C19":
        plan += [lambda: gen_ensure_unique(rng)] * counts["eu"]
        plan += [lambda: gen_bytrack(rng)] * counts["bt"]
        plan += [lambda: gen_bytrack(rng, illformed=True)] * counts["bt_ill"]
    else:
        plan += [lambda: gen_relabel(rng, public=False)] * counts["rs"]
        plan += [lambda: gen_relabel(rng, public=False, illformed=True)] * counts["rs_ill"]
        plan += [lambda: gen_relabel(rng, public=True)] * counts["imp"]

    hangs = 0
    import time as _t
    t_shard = _t.time()
    for mk in plan:
        if res.failures and _t.time() - t_shard > 300:
            res.count("shard-ended-early(failures-recorded,slow)")
            break
        case = mk()
        key = case["fn"] + ("+multiseg" if case.get("multiseg") else "")
        res.count(f"cases:{key}")
        res.count(f"ndim:{len(case['shape'])}")
        res.count(f"frames:{case['shape'][1] if case.get('multiseg') else case['shape'][0]}")
        res.count(f"dtype:{case['dtype']}")
        for tag in ("layout", "tif_folder", "tif_mixed", "tif_file", "pre_edges"):
            if case.get(tag) not in (None, "C", False):
                res.count(f"variant:{tag}")
        if case.get("illformed"):
            res.count(f"illformed:{case['fn']}:{case['illformed']}")
        if "mode" in case:
            res.count(f"mode:{case['fn']}:{case['mode']}")
        fr = frames_of(case)
        if any(not any(f) for f in fr):
            res.count("has-empty-frame")
        if case["fn"] == "bytrack":
            deg: dict[int, int] = {}
            for u, _v in case["edges"]:
                deg[u] = deg.get(u, 0) + 1
            if any(d > 1 for d in deg.values()):
                res.count("bytrack:has-division")
            tm = {n[0]: n[1] for n in case["nodes"]}
            if any(tm.get(u) is not None and tm.get(v) is not None and tm[v] - tm[u] > 1
                   for u, v in case["edges"]):
                res.count("bytrack:has-skip-edge")
            if len(detections(case)) > len(case["nodes"]):
                res.count("bytrack:has-unsolved-detection")
        if case["fn"] in ("relabel", "import"):
            if any(r[0] == 0 for r in case["rows"]):
                res.count(f"{case['fn']}:has-id-0")
            labs = {r[1] for r in case["rows"]}
            if any(r[0] in labs and r[0] != r[1] for r in case["rows"]):
                res.count(f"{case['fn']}:id-equals-a-listed-label")
            if len({r[1] for r in case["rows"]}) < len(case["rows"]):
                res.count(f"{case['fn']}:label-reused-across-frames")
            if len(detections(case)) > len({(r[2], r[1]) for r in case["rows"]}):
                res.count(f"{case['fn']}:has-unlisted-label")

        r = evaluate(case)
        res.evaluations += 1
        if r["status"] == "hang":
            res.failures.append(Failure("hang", prop, f"{prop}|{case['fn']}|hang",
                                        "real code did not return within the watchdog time",
                                        {"case": case}))
            hangs += 1
            if hangs >= 2:
                res.count("shard-ended-after-two-hangs")
                break   # the violation is recorded; do not wait 20 s for each further case
            continue
        if r["status"] == "exc":
            res.count(f"real-raised:{case['fn']}:{r['exc']}")
            sig = f"{prop}|{case['fn']}|raises-{r['exc']}"
            if sig not in seen_sig:
                seen_sig.add(sig)
                res.failures.append(Failure("oracle", prop, sig,
                                            f"real code raised {r['exc']} on an input in the property's domain",
                                            {"case": case}))
            continue
        if r["canon"] == "refused:mixed-dtype":
            res.count("tif-folder-of-mixed-dtypes-refused")
            res.nontrivial.add(h(case))
            continue
        if nontrivial(case, r["out"]):
            res.nontrivial.add(h(case))
        if len(res.samples) < 3 and rng.random() < 0.02:
            res.samples.append({k: v for k, v in case.items()})
        if r["oracle"] is not None:
            sig, what = r["oracle"]
            res.count(f"oracle-fail:{sig}")
            if sig not in seen_sig:
                seen_sig.add(sig)
                small = shrink(case, lambda c: fails_with(c, sig))
                r2 = evaluate(small)
                what2 = r2["oracle"][1] if r2.get("oracle") else what
                res.failures.append(Failure("oracle", prop, sig, what2, {"case": small}))
        pending.append((case, r["canon"]))

    # correspondence, in one batch
    if pending:
        outs = Driver().run([model_line(c) for c, _ in pending])
        ndiv = 0
        for (case, canon), m in zip(pending, outs):
            res.compared_steps += 1
            if m != canon:
                res.count(f"divergence:{case['fn']}")
                ndiv += 1
                if ndiv <= 2:
                    small = shrink(case, diverges, budget=150)
                    rr = evaluate(small)
                    mm = Driver().run([model_line(small)])[0]
                    res.failures.append(Failure(
                        "divergence", prop, f"{prop}|{case['fn']}|model-differs",
                        f"real: {rr.get('canon')}  model: {mm}", {"case": small}))
    return res


# cases per shard (16 shards on this machine)
COUNTS = {
    ("C19", "quick"): {"eu": 3000, "bt": 2500, "bt_ill": 300},
    ("C19", "thorough"): {"eu": 40000, "bt": 30000, "bt_ill": 3000},
    ("C13", "quick"): {"rs": 2500, "rs_ill": 250, "imp": 150},
    ("C13", "thorough"): {"rs": 30000, "rs_ill": 3000, "imp": 2500},
}


def run(prop: str, tier: str, seed: int, intensify: bool = False) -> Result:
    if prop not in ("C19", "C13"):
        raise ValueError(prop)
    counts = dict(COUNTS[(prop, tier)])
    if intensify:
        counts = {k: v * 3 for k, v in counts.items()}
    n = ncores()
    seeds = shard_seeds(seed * 1000003 + (19 if prop == "C19" else 13) + (7 if intensify else 0), n)
    jobs = [(prop, s, counts, intensify, i == 0) for i, s in enumerate(seeds)]
    total = Result(rule=RULE[prop])
    if n == 1:
        parts = [_shard(j) for j in jobs]
    else:
        ctx = mp.get_context("fork")
        with ctx.Pool(n) as pool:
            parts = pool.map(_shard, jobs)
    for p in parts:
        total.merge(p)
    # one failure per signature is enough (keep the smallest replay)
    best: dict[tuple[str, str], Failure] = {}
    for f in total.failures:
        k = (f.kind, f.signature)
        if k not in best or len(str(f.replay)) < len(str(best[k].replay)):
            best[k] = f
    total.failures = list(best.values())
    total.notes.append(f"shards={n} counts/shard={counts}")
    return total


def replay(prop: str, replay_obj: dict) -> int:
    rep = replay_obj.get("replay", replay_obj)
    cases = []
    if "case" in rep:
        cases.append(rep["case"])
    cases += [d["case"] for d in rep.get("divergences", []) if isinstance(d, dict) and "case" in d]
    if not cases:
        print("replay file carries no case")
        return 2
    rc = 0
    for case in cases:
        print("case :", case)
        r = evaluate(case)
        print("real :", r.get("canon", r["status"]))
        try:
            m = Driver().run([model_line(case)])[0]
        except Exception as e:  # noqa: BLE001
            m = f"driver error: {e}"
        print("model:", m)
        # the model of the code as it was before the repairs (D8 / D11), for comparison
        alt = None
        if case["fn"] == "ensure_unique" and not case.get("multiseg"):
            alt = dict(case, variant="euo")
        elif case["fn"] == "import":
            alt = dict(case, variant="impo")
        if alt is not None:
            try:
                print("model of the unrepaired code:", Driver().run([model_line(alt)])[0])
            except Exception as e:  # noqa: BLE001
                print(f"driver error: {e}")
        if r["status"] != "ok":
            print("real code:", r)
            rc = 1
        elif r["oracle"] is not None:
            print("oracle: FAIL", r["oracle"][0], "-", r["oracle"][1])
            rc = 1
        else:
            print("oracle: ok")
        if r.get("canon") != m:
            print("correspondence: DIFFERENT")
            rc = 1
        else:
            print("correspondence: equal")
    return rc


if __name__ == "__main__":  # ad-hoc: python -m harness.fam_labels C19 quick 0
    p, t, s = sys.argv[1], sys.argv[2], int(sys.argv[3])
    t0 = time.time()
    R = run(p, t, s)
    print(f"{p} {t}: evaluations={R.evaluations} nontrivial={len(R.nontrivial)} "
          f"compared={R.compared_steps} wall={time.time() - t0:.1f}s")
    for k, v in sorted(R.distribution.items()):
        print(f"   {k}: {v}")
    for f in R.failures:
        print(f.kind, f.signature, "-", f.what[:200])
        print("   replay:", f.replay)
