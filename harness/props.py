"""Registry: which harness family decides which property, which theorems are required,
what is trusted.  (Filled as families land.)"""

FAMILY: dict[str, str] = {}

# theorems that must be found by the audit for the property to count as proved
REQUIRED_THEOREMS: dict[str, list[str]] = {}

TRUSTED_BASE_COMMON = [
    "Lean 4.33.0 kernel + elaborator, lake",
    "axioms allowed: propext, Classical.choice, Quot.sound (checked per theorem by Audit.lean)",
    "hand-written Lean model (FtModel/*), tied to /repo only by the correspondence check",
    "harness glue: canonicalisation, Python oracles, driver parser/printer",
]
TRUSTED_BASE: dict[str, list[str]] = {}
ASSUMPTIONS: dict[str, list[str]] = {}

ENGINE: dict[str, str] = {}
LEVEL_TEXT: dict[str, str] = {}
LEVEL_NOTE: dict[str, str] = {}
TECHNIQUE: dict[str, str] = {}
NOT_APPLICABLE: dict[str, str] = {}
ENGINES = [
    {"name": "lean-model", "path": "lean/", "serves_properties": [],
     "kind_free_text": "Lean 4 executable model (FtModel), theorems (FtProofs), audit, native driver"},
]
NOTES = ("Each check = Lean build + axiom audit of the property's theorems, correspondence of the "
         "executable Lean model with /repo's working tree, and an independent oracle on the real code. "
         "See DESIGN.md.")

for _p in ("C01", "C02", "C03", "C04", "C05", "C06", "C07", "C08", "C09", "C10", "C11", "C20"):
    FAMILY[_p] = "fam_session"
