"""Registry: which harness family decides which property, which theorems are required,
what is trusted.  (Filled as families land.)"""

FAMILY: dict[str, str] = {}

# theorems that must be found by the audit for the property to count as proved
REQUIRED_THEOREMS: dict[str, list[str]] = {}

TRUSTED_BASE_COMMON = [
    "Lean 4.33.0 kernel + elaborator, lake",
    "axioms allowed: propext, Classical.choice, Quot.sound (checked per theorem by Audit.lean)",
    "hand-written Lean model (FtModel/*), tied to /repo only by the correspondence check",
    "harness glue: canonicalisation, Python oracles, driver parser/printer",
]
TRUSTED_BASE: dict[str, list[str]] = {}
ASSUMPTIONS: dict[str, list[str]] = {}

ENGINE: dict[str, str] = {}
LEVEL_TEXT: dict[str, str] = {}
LEVEL_NOTE: dict[str, str] = {}
TECHNIQUE: dict[str, str] = {}
NOT_APPLICABLE: dict[str, str] = {}
ENGINES = [
    {"name": "lean-model", "path": "lean/", "serves_properties": [],
     "kind_free_text": "Lean 4 executable model (FtModel), theorems (FtProofs), audit, native driver"},
]
NOTES = ("Each check = Lean build + axiom audit of the property's theorems, correspondence of the "
         "executable Lean model with /repo's working tree, and an independent oracle on the real code. "
         "See DESIGN.md.")

for _p in ("C01", "C02", "C03", "C04", "C05", "C06", "C07", "C08", "C09", "C10", "C11", "C20"):
    FAMILY[_p] = "fam_session"

# ---- C17 (family namemap) --------------------------------------------------------------------
FAMILY["C17"] = "fam_namemap"
REQUIRED_THEOREMS["C17"] = ["C17_partition", "C17_no_dup", "C17_exact", "C17_partition_edge",
                            "C17_no_dup_edge", "C17_counterexample_unfixed"]
TRUSTED_BASE["C17"] = [
    "difflib.get_close_matches opaque: only 'answers with nothing or one of its candidates' (FzOk); recorded answers drive the model",
    "str.lower is a model parameter (theorems assume nothing about it); driver uses ASCII lower-casing, harness generates ASCII column names only",
    "feature table (key, feature_type, num_values, display_name, value_names) read from the live annotator classes and sent on every line"]
ASSUMPTIONS["C17"] = ["source column names pairwise distinct (the property's quantifier)",
                      "theorems are about the model of _name_mapping.py as repaired (fix commit D6); C17_counterexample_unfixed* prove the partition clause false of the model of the pinned code"]

# ---- C18 (family candgraph) ------------------------------------------------------------------
FAMILY["C18"] = "fam_candgraph"
REQUIRED_THEOREMS["C18"] = ["C18_edges", "C18_edges_nodup", "C18_edges_points", "C18_edges_seg",
                            "C18_nodes", "C18_nodes_points", "C18_nodes_refusal", "C18_iou", "C18_iou_absent",
                            "C18_counterexample_unfixed", "C18_counterexample_unfixed_spec"]
TRUSTED_BASE["C18"] = [
    "scipy KDTree.query_ball_tree = all pairs with distance <= r (model parameter `near`; brute-force exact-rational near relation per case; for r = fl(sqrt K) the pair at d^2 = K follows scipy's float rule fl(d^2) <= fl(r*r))",
    "skimage regionprops: labels ascending, area = count*prod(spacing), centroid = mean*spacing (checked per case, 1e-9)",
    "numpy unique/flatten in _compute_ious; networkx add_edge idempotent"]
ASSUMPTIONS["C18"] = ["frame numbers are non-negative integers (points: integer first column and integer scale[0])",
                      "all frames of a label array have the same pixel count", "labels are non-negative"]

# ---- C19, C13 (family labels) ----------------------------------------------------------------
FAMILY["C19"] = "fam_labels"
FAMILY["C13"] = "fam_labels"
REQUIRED_THEOREMS["C19"] = ["C19_unique", "C19_partition", "C19_shape", "C19_multiseg", "C19_bytrack",
                            "C19_bytrack_unbranched", "C19_counterexample_unfixed"]
REQUIRED_THEOREMS["C13"] = ["C13_relabel", "C13_shift", "C13_import", "C13_chained_counterexample",
                            "C13_counterexample_skip_unlisted"]
TRUSTED_BASE["C19"] = [
    "numpy masked assignment / `+=` on a mask / np.max / reshape(-1, ...) in C order (modelled pointwise on flat frames; shape is irrelevant to these functions)",
    "networkx out_degree, remove_edges_from, weakly_connected_components: components in order of their first node in node insertion order (modelled as class merging along the kept edges; proved equal to the inductive relation SameSeg)",
    "uint64 wrap-around not modelled (labels are unbounded naturals; generators keep running sums < 2^64)"]
TRUSTED_BASE["C13"] = [
    "numpy masked assignment, np.unique, boolean row selection, dict(zip(...)) (first position, last value), dask .compute()",
    "networkx relabel_nodes(copy=False) with the shift-by-one map = simultaneous renaming of nodes and edges (modelled as such, not verified; checked per case against the real graph incl. time/seg_id attributes)",
    "public path: pandas/geff construction of node_ids, seg_ids, time_values from the DataFrame in row order (checked per case through tracks_from_df)"]
ASSUMPTIONS["C19"] = [
    "theorems are about the model of ensure_unique_labels AS REPAIRED (fixes/D8_ensure_unique_labels.patch); C19_counterexample_unfixed proves uniqueness false of the model of the unrepaired loop",
    "every frame has at least one pixel (np.max of an empty frame raises); labels are non-negative",
    "relabel_segmentation_with_track_id: every node has 'time' (inside the array) and 'seg_id' (else KeyError/IndexError, modelled as `none`), distinct nodes have distinct (time, seg_id); no forest hypothesis is needed for C19_bytrack, in-degree <= 1 only for C19_bytrack_unbranched"]
ASSUMPTIONS["C13"] = [
    "(time, seg id) pairs are distinct per node and every time value indexes a frame (else IndexError, modelled as `none`)",
    "handle_segmentation is modelled AS REPAIRED (fixes/D11_import_seg_skip_branch.patch: always relabels); C13_counterexample_skip_unlisted proves the property false of the model of the unrepaired caller",
    "public path exercised with >= 1 node and ids/labels <= 200 (an empty table raises StopIteration in handle_segmentation; ids ~1e8 exhaust memory inside skimage regionprops) - outside the property"]



# ---- C12 (family import) ---------------------------------------------------------------------
FAMILY["C12"] = "fam_import"
REQUIRED_THEOREMS["C12"] = ["C12_nodes", "C12_edges", "C12_attrs", "C12_renumber", "C12_reject_dup",
                            "C12_reject_unknown", "C12_reject_self", "C12_reject_missing",
                            "C12_geff_import", "C12_geff_reject", "C12_counterexample_unfixed",
                            # R8I: the parts of the pipeline the base model left out (FtModel/ImportExt.lean, family IMX):
                            # _preprocess_name_map (None / [] entries, legacy z/y/x keys), GEFF edge properties with their
                            # own key map, order of the checks in build()
                            "C12_preprocess_none_is_absent_partial", "C12_preprocess_none_is_absent_edge",
                            "C12_wrapper_none_is_absent", "C12_legacy_axes", "C12_legacy_axes_order", "C12_legacy_axes_few",
                            "C12_validate_seg_none", "C12_edge_props_faithful", "C12_edge_props_all_loaded",
                            "C12_edge_map_unknown_refused", "C12_node_edge_key_collision_refused",
                            "C12_counterexample_blank_pos_shadows_legacy", "C12_counterexample_all_blank_map",
                            "C12_counterexample_legacy_edge_spatial"]
TRUSTED_BASE["C12"] = [
    "pandas dtype decision is_integer_dtype(id column) enters the model as a per-table flag read from pandas by the harness",
    "pandas CSV parsing (source of a CSV case = the frame pd.read_csv yields; floats checked within 1 ulp of what was written), numpy coercion of homogeneous columns, NaN/None carrying, ast.literal_eval of '[...]' strings: opaque carriers, values are tokens (floats by repr, integral floats = ints)",
    "zarr/GEFF I/O (geff write_arrays / read_to_memory, geff.construct), GEFF missing masks; ValueError text -> error kind by regex in the harness",
    "spatial feature keys (pos, ellipse_axis_radii) read from the live feature table and sent on every line"]
ASSUMPTIONS["C12"] = ["ids are never -1 / '' / '-1' (documented no-parent sentinels) and never missing",
                      "C12_attrs: NameMapOK (no key twice; a stacked column is used in one list only, once, and is not itself the name of a key), non-empty header, rectangular rows",
                      "not modelled: _preprocess_name_map (legacy z/y/x keys, None/[] entries), node_features, track_id/lineage_id validation, segmentation; a second key mapped to the id column only for integer ids",
                      "theorems are about the model of the pipeline as repaired (fix commits D9, D9b, D9c); C12_counterexample_unfixed refutes the unrepaired id remapping",
                      "cycles and backward links in a table are not among the property's malformations and are imported"]

# ---- C14, C15, C16 (family export) -------------------------------------------------------------
for _p in ("C14", "C15", "C16"):
    FAMILY[_p] = "fam_export"
REQUIRED_THEOREMS["C14"] = ["C14_csv", "C14_geff", "C14_geff_loaded", "C14_geff_loaded_edge", "C14_internal",
                            # R5A: the table of every state an admissible editing session reaches is well-formed
                            "C14_export_wf_of_inv", "C14_export_faithful", "C14_posSrc_reach", "C14_after_session_csv",
                            "C14_after_session_geff", "C14_after_session_internal", "C14_after_session_pos",
                            "C14_export_needs_posSrc", "C14_counterexample_position_switched_off",
                            # R6H: the display-name CSV layout and its re-import
                            "C14_csv_display", "C14_csv_display_names", "C14_csv_display_layout",
                            "C14_csv_display_needs_distinct_names", "C14_csv_display_needs_distinct_targets",
                            # R8S: a saved and reloaded solution (bookkeeping rebuilt, history empty) satisfies the
                            # invariant, shows the same observables and — up to the order inside the lookups and the
                            # rebuilt id maxima — behaves the same in every later session
                            "C14_reload_is_load", "C14_reload_inv", "C14_reload_same_observables",
                            "C14_reload_step_congr", "C14_reload_bisim_partial", "C14_counterexample_reload_bisim",
                            "C14_reload_note_what_differs", "C14_reload_note_order_needs_valid",
                            # R8V: the importer's id validators (geff.validate.tracks) accept the ids of every reached
                            # state, so the re-imported track / lineage ids are the written ones (no trusted flag)
                            "C14_reached_tracklets_validate", "C14_reached_lineages_validate", "C14_inv_ids_validate",
                            "C14_reached_ids_validate", "C14_reached_roundtrip_keeps_ids",
                            "C14_reached_roundtrip_keeps_ids_csv", "C14_reached_roundtrip_keeps_ids_geff",
                            "C14_validator_tracklets_spec", "C14_validator_lineages_spec", "C14_validator_acyclic_spec",
                            "C14_validator_start_end_determined", "C14_validator_accepts_all_singletons",
                            "C14_validator_accepts_id_through_division", "C14_validator_rejects_shared_id",
                            "C14_validator_rejects_merged_lineages", "C14_validator_rejects_subset_export"]
REQUIRED_THEOREMS["C15"] = ["C15_closure", "C15_closure_files", "C15_parent_closed", "C15_edges", "C15_edges_csv", "C15_seg", "C15_seg_csv",
                            "C15_after_session", "C15_after_session_csv", "C15_after_session_seg", "C15_csv_display_subset"]
REQUIRED_THEOREMS["C16"] = ["C16_readonly", "C16_readonly_eq", "C16_counterexample_unfixed", "C16_repair_same_output"]
_EXPORT_TB = ["pandas / zarr / json / numpy / tifffile file I/O are carriers of the opaque value tokens (files written by the real exporters are read back with csv/zarr/json-level readers and compared with the model's encode)",
              "networkx ancestors / subgraph and the geff write / construct path are trusted library code"]
for _p in ("C14", "C15", "C16"):
    TRUSTED_BASE[_p] = list(_EXPORT_TB)
ASSUMPTIONS["C14"] = ["the tracks are a forward-in-time forest with consistent ids (reachable states)",
                      "floats re-imported from CSV are accepted within 4 ulp (pandas' default float parser is not last-bit exact; 2 ulp observed); the CSV file itself is compared exactly",
                      "GEFF import refuses (ValueError in validate_graph_seg_match) a store whose loaded position lies outside the node's own mask (non-convex masks, ~15% of generated arrays): the importer's documented precondition; those cases are re-imported without the position key and must then be exact",
                      "the default CSV layout carries no lineage id and no extra features (nothing to compare there)"]
ASSUMPTIONS["C15"] = ["the selection is a subset of the graph's nodes (a selection naming an unknown node must raise on both sides)"]
ASSUMPTIONS["C16"] = ["lookups are compared as sets (get_track_neighbors re-sorts the list it reads, as the property allows); _get_new_node_ids is documented to advance a counter and is not a read-only query",
                      "C16's theorem is near-trivial once the model returns the state; the assurance rests on the type-faithful deep-snapshot oracle and the output correspondence"]

# ---- session family: texts ---------------------------------------------------------------------
_SESSION_TB = [
    "networkx DiGraph: insertion-ordered adjacency, degree, has_edge, remove_node drops incident edges (modelled as such)",
    "numpy fancy-index assignment / nonzero / unique on the label array (modelled as a flat list with set/get)",
    "psygnal: emit calls each connected callback once, synchronously",
]
_RP_TB = ["skimage regionprops numerics (area = count*prod(spacing), centroid = mean*spacing are checked numerically per node; "
          "perimeter / axes / circularity are opaque functions of (mask, spacing): a stored value is compared with a from-scratch "
          "computation on the mask the model says was used)"]
for _p in ("C01", "C02", "C03", "C04", "C05", "C06", "C07", "C08", "C09", "C10", "C11", "C20"):
    TRUSTED_BASE[_p] = list(_SESSION_TB)
    ENGINE[_p] = "lean-model+session-harness"
for _p in ("C01", "C08", "C10"):
    TRUSTED_BASE[_p] += _RP_TB

_SESSION_ASSUME = [
    "documented preconditions respected by the generators: a paint stroke lies in one frame, is grouped by the true previous labels, "
    "has already been written by the caller, an existing label is painted only in its node's own frame; AddNode paints on background",
    "track id / position features are never disabled (core features); a caller never passes an explicit lineage id to UserAddNode",
    "sessions start from valid forests (imported graphs are forests with forward edges)",
]
for _p in ("C01", "C02", "C03", "C04", "C05", "C06", "C07", "C08", "C09", "C10", "C11", "C20"):
    ASSUMPTIONS[_p] = list(_SESSION_ASSUME)
ASSUMPTIONS["C08"] = _SESSION_ASSUME + ["enable_features(..., recompute=False) promises nothing about values (documented: 'assume values already exist')"]
ASSUMPTIONS["C09"] = ASSUMPTIONS["C08"]
ASSUMPTIONS["C11"] = _SESSION_ASSUME + ["'track lookups' = the per-id node lists compared as sets; the id maxima (next fresh ids) may stay raised after a rolled-back refusal"]

_T = ("Lean 4 theorems (induction / invariants / refinement, no size bound) about a hand-written executable model; "
      "model tied to the code by per-step differential correspondence through a compiled driver; independent Python oracle "
      "on the real code as failing-input search")
for _p in list(FAMILY):
    TECHNIQUE.setdefault(_p, _T)

LEVEL_TEXT.update({
    "C01": "Per-primitive inverse laws and their lift to recorded action groups are Lean theorems about the model; every accepted edit of every generated session is undone and redone on the real code and on the model and the whole observable state compared.",
    "C02": "The history algorithm (undo/redo stacks with pointer) is proved to refine the list+cursor timeline for every operation sequence and every action semantics satisfying the inverse law; the concrete sessions (incl. all sequences up to a length bound over composite forced edits) are compared with a Python timeline reference and with the model.",
    "C03": "Forest preservation by each user action and the refusal rules are Lean theorems about the model of the user actions; degrees, time order and refusal classes are checked on the real code after every step.",
    "C04": "Local track-id invariant ⇒ 'same id iff same unbranched segment' is a generic Lean theorem; preservation by the relabel walk/user actions as far as proved (see theorem list); independent partition oracle + frame clause on the real code after every step; exact ids compared with the model.",
    "C05": "As C04 for lineage ids and connected components.",
    "C06": "Bookkeeping invariant (lookups = nodes carrying the id, maxima bound ids) and the query/freshness specifications are Lean theorems about the model of TrackAnnotator; lookups, both queries for every id x time, and the three fresh-id sources are checked against a scan on the real code after every step.",
    "C07": "Pointwise array theorems (set/get, pixels query, paint leaves array as painted, inverse restores bits); the whole array, orphan labels, empty nodes and get_pixels are checked on the real code after every step, 2D+t and 3D+t.",
    "C08": "In the model a stored measurement is the mask it was computed from; theorems state that every operation that changes a node's mask recomputes that node and no other mask changes unnoticed; numerics checked against numpy / from-scratch skimage on the real code.",
    "C09": "IoU as exact (intersection, union) counts; bulk = incremental = true overlap (also for skip edges) are Lean theorems; every edge checked against a numpy reference on the real code after every step and after bulk enabling.",
    "C10": "Registry/active-flag bookkeeping, KeyError-before-change and protected-attribute refusal are Lean theorems about the model; random interleavings of enable/disable/edits/undo/redo on the real code with registry, value and frozen-value oracles.",
    "C11": "User actions return the state also on failure, so 'a refused edit changes nothing' is a real statement: proved for validations before the first mutation, and for rollback paths via the inverse laws as far as proved; snapshot comparison around every raising call on the real code.",
    "C20": "Refresh count/payload per operation is a Lean theorem about the session step function; a counting callback is connected to the real signal around every call.",
    "C17": "For every fuzzy matcher that answers with one of its candidates and every duplicate-free column list: the inferred map's columns are a permutation of the input (Lean theorem about the model of the five matching steps); difflib answers are recorded from the real run and replayed into the model.",
    "C18": "For every nearness relation and every frame dictionary: edges = exactly the near pairs in consecutive frames (Lean theorem about the loop as written); brute-force reference on random arrays / point lists with gaps and boundary distances.",
})
LEVEL_TEXT.update({
    "C19": "Uniqueness across frames and per-frame partition preservation are Lean theorems about the fold with the carried running maximum, for arrays of any size; relabel-by-track is proved against the inductive relation 'same unbranched segment' (the executable component computation is proved sound and complete); brute-force oracles on the real return values, flat arrays compared with the model.",
    "C13": "Pixel-exact characterisation of relabel_segmentation (masks read from the original, written into zeros) for arrays and assignments of any size incl. reused labels, permutations, unlisted labels and id 0 with the joint graph shift; the in-place variant is proved not to satisfy it; direct calls and the public tracks_from_df path checked against a brute-force oracle and the model.",
})
LEVEL_TEXT["C14"] = ("decode(encode s) = s for the CSV, GEFF and internal formats at table level (position split per axis and recombined, parent column, loaded features, array, scale, registry) are Lean theorems for tracks of any size; "
                    "real round trips after random editing sessions, and the files the real exporters wrote are compared with the model's encode.")
LEVEL_TEXT["C15"] = ("Exported node set = ancestor closure of the selection (executable climbing proved sound and complete against the inductive ancestor relation), parent-closed, edges = induced edges, array masked pointwise: Lean theorems; "
                    "random subsets on random forests through the real CSV/GEFF exporters against a brute-force closure and the model.")
LEVEL_TEXT["C16"] = ("Every modelled read-only operation returns the state unchanged (near-trivial theorem, stated plainly); the unrepaired GEFF exporter is proved to change the scale; the weight is on the deep-snapshot oracle "
                    "(graph, all attributes, array bytes, scale incl. type, registry, lookups as sets, history) around every export/save/query on the real object.")
LEVEL_TEXT["C12"] = ("Node/edge/attribute faithfulness, first-occurrence renumbering and the four rejection classes are Lean theorems about a table-level "
                    "model of the import pipeline (load_source, _ensure_integer_ids, rename, stack, validate, construct) for tables of any size; random DataFrames, "
                    "CSV files and GEFF stores incl. every malformation class go through the real importers and the model.")
LEVEL_NOTE.update({p: "; ".join(TRUSTED_BASE_COMMON[2:] + TRUSTED_BASE.get(p, []))[:900] for p in FAMILY})

REQUIRED_THEOREMS["C06"] = ["C06_fresh_tid", "C06_fresh_lin", "C06_fresh_nodes", "C06_has_track", "C06_neighbors",
                            "C06_book_pAddNode", "C06_book_pDelNode", "C06_book_pUpdTid", "C06_book_walk_tracks",
                            "C06_book_prims_other", "C06_book_uDeleteEdge", "C06_book_uUpdateAttrs",
                            "C06_book_uAddEdge_partial", "C06_counterexample_book_needs_lineage_rule"]

REQUIRED_THEOREMS["C04"] = ["C04_tid_iff_sameSeg", "C04_walk_segment", "C04_step_deleteEdge", "C04_frame_deleteEdge"]
REQUIRED_THEOREMS["C05"] = ["C05_lin_iff_conn", "C05_walk_visits_once", "C05_walk_subtree", "C05_step_deleteEdge",
                            "C05_frame_deleteEdge", "C05_step_addEdge", "C05_frame_addEdge", "C05_step_swap"]
REQUIRED_THEOREMS["C07"] = ["C07_array_write", "C07_pixels", "C07_getPixels", "C07_as_painted", "C07_step_paint_partial",
                            "C07_step_addNode", "C07_step_delNode", "C07_step_noarray", "C07_undo_bits_updSeg", "C07_undo_bits_delNode"]
REQUIRED_THEOREMS["C08"] = ["C08_meas_update", "C08_meas_step_updSeg", "C08_meas_step_addNode", "C08_meas_step_delNode",
                            "C08_meas_step_noarray", "C08_meas_step_updAttrs", "C08_bulk",
                            # R6P: every command list of the primitive protocol, on ANY graph (merges, cycles)
                            "C08_prim_reach", "C08_prim_inv_admissible", "C08_prim_frozen", "C08_prim_reach_pixels",
                            "C08_counterexample_prim_stale_after_reenable", "C08_prim_reach_needs_labels_in_frame"]
REQUIRED_THEOREMS["C09"] = ["C09_value", "C09_bulk", "C09_bulk_measOK", "C09_incr_addEdge", "C09_incr_updSeg", "C09_agree",
                            "C09_counterexample_unfixed",
                            # R5F: the IoU code paths as written (frame-pair grouping, edge-list removal,
                            # leftovers -> 0, masked incremental) are equal to the per-edge model on any DAG
                            "C09_computeIous_spec", "C09_faithful_bulk_eq", "C09_faithful_bulk_true",
                            "C09_faithful_incr_eq", "C09_variant_bytarget_differs",
                            "C09_variant_nosrcmask_differs", "C09_variant_setdefault_differs",
                            "C09_prim_reach", "C09_prim_reach_measOK", "C09_prim_reach_faithful", "C09_prim_frozen"]
REQUIRED_THEOREMS["C01"] = ["C01_prim_addEdge", "C01_prim_addEdge_law", "C01_prim_delEdge", "C01_group", "C01_group_rollback",
                            "C01_note_updAttrs_fresh_key"]
REQUIRED_THEOREMS["C10"] = ["C10_unknown", "C10_protected", "C10_protected_any_activation", "C10_registry_enable",
                            "C10_registry_disable", "C10_registry_step", "C10_disabled_frozen_update",
                            "C10_disabled_frozen_compute", "C10_disabled_frozen_updSeg", "C10_disabled_frozen_iou",
                            "C10_disabled_frozen_updAttrs",
                            # R5B: feature switching inside histories (any operation list incl. undo/redo)
                            "C10_registry_reach", "C10_unknown_reach", "C10_protected_reach", "C10_weak_invariant_reach",
                            "C10_current_after_enable_reach_partial", "C10_disabled_frozen_reach_partial",
                            "C10_disabled_frozen_after_disable", "C10_inv_not_preserved_disable",
                            "C10_inv_not_preserved_tid", "C10_inv_not_preserved_lin",
                            "C10_disabled_frozen_needs_record_condition"]
REQUIRED_THEOREMS["C11"] = ["C11_note_rollback_loses_unregistered_attr", "C11_deleteEdge_unknown", "C11_addEdge_invalid", "C11_addEdge_merge", "C11_addEdge_triple",
                            "C11_addNode_invalid", "C11_deleteNode_unknown", "C11_swap_unknown", "C11_swap_invalid",
                            "C11_updateSeg_no_seg", "C11_updateAttrs", "C11_updateAttrs_protected", "C11_updateAttrs_unknown",
                            "C11_addNode_conflict", "C11_step_no_history_no_refresh", "C11_addNode_refused"]
REQUIRED_THEOREMS["C02"] = ["C02_refines", "C02_refines_step", "C02_inverts_at_post", "C02_abstraction", "C02_false_iff",
                            "C02_false_iff_run", "C02_reachable_prefix", "C02_reachable", "C02_reachable_edit_last",
                            "C02_one_step_user", "C02_one_step", "C02_one_step_group", "C02_session", "C02_session_step"]
REQUIRED_THEOREMS["C20"] = ["C20_refresh", "C20_refresh_cases", "C20_refresh_nested", "C20_refresh_run"]
REQUIRED_THEOREMS["C03"] = ["C03_acyclic", "C03_forest_reading", "C03_step_deleteEdge", "C03_deleteEdge_effect", "C03_step_addEdge",
                            "C03_step_updateAttrs", "C03_step_swap", "C03_step_addNode", "C03_step_deleteNode_partial",
                            "C03_step_updateSeg_partial", "C03_step_session", "C03_refuse_merge", "C03_refuse_backward",
                            "C03_refuse_triple", "C03_refuse_triple_forced", "C03_force_minimal",
                            "C03_hyp_needed_addNode_book", "C03_hyp_needed_addNode_tid", "C03_hyp_needed_deleteNode_book",
                            "C03_hyp_needed_deleteNode_tid"]
REQUIRED_THEOREMS["C04"] += ["C04_import_inv", "C04_import_inv_table", "C04_import_ids", "C04_import_needs_forward",
                             "C04_import_needs_binary"]   # R6I: an imported solution satisfies Inv
REQUIRED_THEOREMS["C03"] += ["C03_reach_imported", "C03_reach_imported_table"]
# R7S: construction (which features get registered / activated / computed; from_tracks; enable_features)
REQUIRED_THEOREMS["C10"] += ["C10_construct_registry", "C10_construct_registry_prebuilt", "C10_construct_position_registered",
                             "C10_construct_enable_sets_special_keys", "C10_construct_enable_registry"]
REQUIRED_THEOREMS["C04"] += ["C04_construct_ids", "C04_construct_ids_segments", "C04_from_tracks_ids_active"]
REQUIRED_THEOREMS["C05"] += ["C05_construct_ids", "C05_construct_ids_components"]
REQUIRED_THEOREMS["C06"] += ["C06_construct_book_from_graph"]
# R7T: the TracksController entry points as compositions of user actions
REQUIRED_THEOREMS["C03"] += ["C03_controller_expand", "C03_controller_reach", "C03_controller_is_valid_sound"]
REQUIRED_THEOREMS["C02"] += ["C02_controller_steps"]
REQUIRED_THEOREMS["C11"] += ["C11_controller_update_attrs_refused", "C11_controller_update_attrs_counterexample_unfixed",
                             "C11_controller_update_attrs_protected"]
REQUIRED_THEOREMS["C04"] += ["C04_step_addEdge", "C04_frame_addEdge", "C04_step_swap", "C04_frame_swap",
                             "C04_valid_uDeleteEdge", "C04_valid_uAddEdge", "C04_valid_uSwap"]
REQUIRED_THEOREMS["C05"] += ["C05_frame_swap"]
REQUIRED_THEOREMS["C06"] += ["C06_book_uAddEdge", "C06_book_uSwap"]
REQUIRED_THEOREMS["C01"] += ["C01_prim_updTid", "C01_prim_updTid_again", "C01_prim_updTid_law", "C01_prim_updTid_view",
                             "C01_prim_updTid_obs", "C01_updTid_rec_inverse", "C01_updTid_pre", "C01_group_wf",
                             "C01_note_updTid_needs_fresh", "C01_note_updTid_needs_lineage", "C01_note_updTid_needs_wf"]
# ---- round 2 proof packages --------------------------------------------------------------------
REQUIRED_THEOREMS["C03"] += ["C03_step_enable", "C03_delNbrOK", "C03_step_deleteNode", "C03_deleteNode_effect"]
REQUIRED_THEOREMS["C04"] += ["C04_component_sound", "C04_component_complete", "C04_components_partition",
                             "C04_reach_sameSeg", "C04_assign", "C04_assign_iff", "C04_assign_book",
                             "C04_assign_forest", "C04_assign_order", "C04_step_enable",
                             "C04_step_enable_recompute", "C04_step_enable_tid", "C04_step_enable_session",
                             "C04_step_disable",
                             "C04_valid_uDeleteNode", "C04_step_deleteNode", "C04_frame_deleteNode", "C04_deleteNode_tids",
                             "C04_step_addNode", "C04_valid_uAddNode", "C04_valid_step_addNode", "C04_valid_trackNeighbors",
                             "C04_frame_addNode", "C04_frame_addNode_unforced", "C04_frame_addNode_sharp"]
REQUIRED_THEOREMS["C05"] += ["C05_reach_conn", "C05_assign", "C05_assign_iff", "C05_assign_book",
                             "C05_assign_forest", "C05_assign_order", "C05_step_enable_lin",
                             "C05_hyp_needed_enable_norecompute",
                             "C05_step_deleteNode", "C05_frame_deleteNode", "C05_deleteNode_lins", "C05_deleteNode_root_keeps",
                             "C05_step_addNode", "C05_frame_addNode", "C05_note_addNode_caller_lineage"]
REQUIRED_THEOREMS["C06"] += ["C06_book_uDeleteNode", "C06_book_uAddNode", "C06_track_present_diverts"]
REQUIRED_THEOREMS["C10"] += ["C10_enable_ids_current", "C10_enable_ids_graph_only",
                             "C10_enable_current", "C10_enable_current_pixels", "C10_disabled_frozen_user_deleteEdge",
                             "C10_disabled_frozen_user_addEdge", "C10_disabled_frozen_user_swap",
                             "C10_disabled_frozen_user_updAttrs", "C10_disabled_frozen_user_deleteNode",
                             "C10_disabled_frozen_user_addNode", "C10_disabled_frozen_user_updateSeg",
                             "C10_disabled_frozen_user", "C10_disabled_frozen_recreate"]
REQUIRED_THEOREMS["C01"] += ["C01_obsEq_equivalence", "C01_prim_updAttrs", "C01_prim_updSeg", "C01_prim_addNode",
                             "C01_prim_delNode", "C01_group_obs", "C01_group_gen", "C01_obligation_obs",
                             "C01_note_obsEq_needs_wf"]
REQUIRED_THEOREMS["C07"] += ["C07_paint_combinatorial", "C07_step_paint", "C07_step_paint_ids", "C07_step_updSeg",
                             "C07_undo_bits_addNode", "C07_note_undo_bits_addNode_needs_absent", "C07_step"]
REQUIRED_THEOREMS["C08"] += ["C08_meas_step_paint", "C08_meas_paint_invariant", "C08_meas_step_paint_measOK"]
ASSUMPTIONS["C12"] += ["mapped track_id / lineage_id: the validity check of the real code (geff.validate tracklets/lineages) is opaque; the model carries these columns like any other; the generators produce only valid, non-canonical ids and the oracle claims equality only when the ids are valid by the harness's own reading of the source links"]
REQUIRED_THEOREMS["C04"] += ["C04_valid_uUpdateSeg", "C04_valid_step", "C04_valid_step_ok", "C04_valid_run", "C04_frame_updateSeg",
                             "C04_valid_pUpdSeg", "C04_valid_uUpdateAttrs", "C04_valid_step_hist_false"]
REQUIRED_THEOREMS["C05"] += ["C05_frame_updateSeg"]
REQUIRED_THEOREMS["C07"] += ["C07_valid_step", "C07_valid_step_all", "C07_shape_step", "C07_valid_reading"]
REQUIRED_THEOREMS["C01"] += ["C01_common_equivalence", "C01_prim_addEdge_obs", "C01_prim_delEdge_obs", "C01_prim_updTid_obsW",
                             "C01_prims_common", "C01_group_common", "C01_edgeInv_common", "C01_obligation_common"]
REQUIRED_THEOREMS["C03"] += ["C03_valid_congr_obs", "C03_valid_congr_E", "C03_invariants_congr_obs", "C03_note_bookOK_needs_max",
                             "C03_note_measOK_needs_segOK"]
REQUIRED_THEOREMS["C01"] += ["C01_user_deleteEdge", "C01_user_addEdge", "C01_user_swap", "C01_user_updateAttrs",
                             "C01_user_deleteNode", "C01_user_addNode", "C01_user_deleteEdge_ctx", "C01_nodeInv_of_records",
                             "C01_nodeInv_of_joint", "C01_note_deleteNode_foreign_pixels"]
REQUIRED_THEOREMS["C11"] += ["C11_addEdge_forced_triple", "C11_deleteEdge_accepts", "C11_addEdge_refused", "C11_deleteEdge_refused",
                             "C11_addNode_refused_forced"]
# ---- round 3: whole-history theorems -----------------------------------------------------------
REQUIRED_THEOREMS["C01"] += ["C01_user_updateSeg", "C01_step_paint", "C01_user_all", "C01_undo_restores", "C01_user_step",
                             "C01_user_edge_ops", "C01_user_all_of", "C01_undo_restores_of", "C01_note_updAttrs_unregistered"]
REQUIRED_THEOREMS["C02"] += ["C02_session_valid", "C02_session_valid_of"]
REQUIRED_THEOREMS["C03"] += ["C03_reach", "C03_reach_of", "C03_reach_ids_of", "C03_inv_congr_E"]
REQUIRED_THEOREMS["C11"] += ["C11_updateSeg_refused"]

REQUIRED_THEOREMS["C03"] += ["C03_checkers_sound", "C03_reach_checked", "C03_reach_checked_prefix"]
REQUIRED_THEOREMS["C02"] += ["C02_session_valid_checked"]
REQUIRED_THEOREMS["C01"] += ["C01_user_all_checked"]

# ---- additions of rounds 5-7 (whole-history / composition theorems and new correspondence protocols) ----
LEVEL_TEXT["C01"] += (" Whole-history form: C01_user_all / C01_undo_restores for every admissible session, also on imported solutions (C01_user_imported) and through the "
                      "TracksController entry points (C03_controller_reach); primitive actions, inverse() and inverse().inverse() are additionally run through the model's primitive protocol (SP).")
LEVEL_TEXT["C02"] += " Controller calls: one history entry and one refresh per accepted element (C02_controller_steps); one history of > 1000 entries is unwound completely in every run."
LEVEL_TEXT["C03"] += " Whole-history: C03_reach (Inv at every reached state), C03_reach_imported, C03_controller_reach; the TracksController methods are modelled (FtModel/Controller.lean, protocol SC) and compared call by call."
LEVEL_TEXT["C04"] += " Construction is modelled too (FtModel/Construct.lean, protocol CT: which id features get registered / activated / computed, from_tracks) and compared with the real constructors; C04_import_inv: an imported solution satisfies the invariant."
LEVEL_TEXT["C08"] += " C08_prim_reach: every command list of the primitive protocol on ANY graph (merges, cycles) keeps 'active => current'; plain Tracks objects with merges are driven through the model (SP) and an isolated-mask reference."
LEVEL_TEXT["C09"] += (" The IoU code paths as written (frame-pair grouping, edge-list removal, leftovers -> 0, masked incremental) are modelled (FtModel/IouFaithful.lean) and proved equal to the per-edge model on any DAG "
                      "(C09_faithful_bulk_eq, C09_faithful_incr_eq); both are run on every reached state by the drivers; C09_prim_reach for arbitrary graphs.")
LEVEL_TEXT["C10"] += " Whole-history: C10_registry_reach / C10_unknown_reach / C10_protected_reach for ANY operation list, weak invariant through undo/redo of entries recorded under another registry; construction modelled (C10_construct_*); primitive-level frozen-feature cases."
LEVEL_TEXT["C11"] += " C11_controller_update_attrs_refused (multi-node controller update rolls back); known finding D18 (unregistered attributes are not restored by a rollback) is reported as KNOWN-FINDING with its own signature."
LEVEL_TEXT["C14"] += (" Composition: C14_after_session_* (the table of every state an admissible editing session reaches is well-formed, so the round trips hold for it); the display-name CSV layout is modelled "
                      "(FtModel/ExportDisplay.lean, protocol EXD, C14_csv_display) and the file the real exporter wrote is compared with it.")
LEVEL_TEXT["C15"] += " C15_after_session, C15_csv_display_subset; large structures (dozens of ancestors, wide id range) are exported through the oracle."
LEVEL_TEXT["C16"] += " Plain Tracks objects and solutions without a tracklet key are snapshotted around exports and queries as well."
LEVEL_TEXT["C20"] += " Several listeners, one of which reacts to a refresh with an edit of its own, in either connection order."

# ---- additions of round 8 -----------------------------------------------------------------------
LEVEL_TEXT["C12"] += (" The parts the base model left out are modelled in FtModel/ImportExt.lean (protocol IMX, package R8I: _preprocess_name_map with None / [] entries and legacy z/y/x keys, "
                      "GEFF edge properties with their own key map, order of the checks in build()); GEFF stores imported with an edge key map are compared with it (C12_edge_props_faithful).")
LEVEL_TEXT["C14"] += (" The importer's id validators (geff validate_tracklets / validate_lineages) are modelled (FtModel/IdValidate.lean, protocol IDV) and proved to accept the ids of every reached state "
                      "(C14_reached_ids_validate), so the re-imported track / lineage ids are the written ones without a trusted flag; a reloaded object satisfies the invariant and behaves like the original "
                      "in every later session up to the rebuilt id maxima (C14_reload_inv, C14_reload_bisim_partial; the full bisimulation is refuted by C14_counterexample_reload_bisim).")
LEVEL_TEXT["C08"] += " Also checked on masks of > 100 000 pixels (one-pixel edits) and on objects built by the CSV importer with feature flags in several representations."
LEVEL_TEXT["C09"] += " One-byte label arrays with many overlapping pairs per frame pair (bulk path); pixel-less nodes (IoU 0)."
LEVEL_TEXT["C05"] += " Ids given as numpy integers; one attributes dict object re-used by the caller for several adds (defect D23, repaired)."
LEVEL_TEXT["C13"] += " Segmentation given as paths (TIFF folder incl. frames of different dtypes — defect D22, repaired —, one TIFF whose name was imported before with other content, the same builder object twice)."

# ---- round 9 (package R9C) -----------------------------------------------------------------------
REQUIRED_THEOREMS["C05"] += ["C05_reused_dict_fixed", "C05_reused_dict_fixed_reach", "C05_counterexample_reused_dict_unfixed",
                             "C05_counterexample_reused_dict_unfixed_prop", "C05_reused_dict_unfixed_needs_reuse",
                             "C05_unfixed_dict_lineage_sticks"]
REQUIRED_THEOREMS["C12"] += ["C12_counterexample_stack_missing_or", "C12_stack_missing_or_step"]
ASSUMPTIONS["C12"] += ["a list-mapped (stacked) node property has all its components present on every node: the driver's model stacks per row, the real code ORs the missing masks per column (C12_counterexample_stack_missing_or; the generators never leave a component out)"]
