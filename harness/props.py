"""Registry: which harness family decides which property, which theorems are required,
what is trusted.  (Filled as families land.)"""

FAMILY: dict[str, str] = {}

# theorems that must be found by the audit for the property to count as proved
REQUIRED_THEOREMS: dict[str, list[str]] = {}

TRUSTED_BASE_COMMON = [
    "Lean 4.33.0 kernel + elaborator, lake",
    "axioms allowed: propext, Classical.choice, Quot.sound (checked per theorem by Audit.lean)",
    "hand-written Lean model (FtModel/*), tied to /repo only by the correspondence check",
    "harness glue: canonicalisation, Python oracles, driver parser/printer",
]
TRUSTED_BASE: dict[str, list[str]] = {}
ASSUMPTIONS: dict[str, list[str]] = {}

ENGINE: dict[str, str] = {}
LEVEL_TEXT: dict[str, str] = {}
LEVEL_NOTE: dict[str, str] = {}
TECHNIQUE: dict[str, str] = {}
NOT_APPLICABLE: dict[str, str] = {}
ENGINES = [
    {"name": "lean-model", "path": "lean/", "serves_properties": [],
     "kind_free_text": "Lean 4 executable model (FtModel), theorems (FtProofs), audit, native driver"},
]
NOTES = ("Each check = Lean build + axiom audit of the property's theorems, correspondence of the "
         "executable Lean model with /repo's working tree, and an independent oracle on the real code. "
         "See DESIGN.md.")

for _p in ("C01", "C02", "C03", "C04", "C05", "C06", "C07", "C08", "C09", "C10", "C11", "C20"):
    FAMILY[_p] = "fam_session"

# ---- C17 (family namemap) --------------------------------------------------------------------
FAMILY["C17"] = "fam_namemap"
REQUIRED_THEOREMS["C17"] = ["C17_partition", "C17_no_dup", "C17_exact", "C17_partition_edge",
                            "C17_no_dup_edge", "C17_counterexample_unfixed"]
TRUSTED_BASE["C17"] = [
    "difflib.get_close_matches opaque: only 'answers with nothing or one of its candidates' (FzOk); recorded answers drive the model",
    "str.lower is a model parameter (theorems assume nothing about it); driver uses ASCII lower-casing, harness generates ASCII column names only",
    "feature table (key, feature_type, num_values, display_name, value_names) read from the live annotator classes and sent on every line"]
ASSUMPTIONS["C17"] = ["source column names pairwise distinct (the property's quantifier)",
                      "theorems are about the model of _name_mapping.py as repaired (fix commit D6); C17_counterexample_unfixed* prove the partition clause false of the model of the pinned code"]

# ---- C18 (family candgraph) ------------------------------------------------------------------
FAMILY["C18"] = "fam_candgraph"
REQUIRED_THEOREMS["C18"] = ["C18_edges", "C18_edges_nodup", "C18_edges_points", "C18_edges_seg",
                            "C18_nodes", "C18_nodes_points", "C18_nodes_refusal", "C18_iou", "C18_iou_absent",
                            "C18_counterexample_unfixed", "C18_counterexample_unfixed_spec"]
TRUSTED_BASE["C18"] = [
    "scipy KDTree.query_ball_tree = all pairs with distance <= r (model parameter `near`; brute-force exact-rational near relation per case; for r = fl(sqrt K) the pair at d^2 = K follows scipy's float rule fl(d^2) <= fl(r*r))",
    "skimage regionprops: labels ascending, area = count*prod(spacing), centroid = mean*spacing (checked per case, 1e-9)",
    "numpy unique/flatten in _compute_ious; networkx add_edge idempotent"]
ASSUMPTIONS["C18"] = ["frame numbers are non-negative integers (points: integer first column and integer scale[0])",
                      "all frames of a label array have the same pixel count", "labels are non-negative"]
