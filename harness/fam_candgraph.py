"""Family `candgraph` — property C18 (candidate graph = all detections + all near pairs in
consecutive frames; requested IoU = true mask overlap).

Per generated case
  1. real code:  compute_graph_from_points_list / compute_graph_from_seg  (public entry points)
                 (+ nodes_from_points_list / nodes_from_segmentation once more for the frame dict)
  2. oracle:     brute-force reading of the statement in exact rational arithmetic
                 nodes = detections with time, centroid·scale, area = count·∏scale[1:]
                 edges = all ordered pairs (u, v) with time v = time u + 1 and dist(u, v) ≤ max
                 iou   = |A∩B| / |A∪B| of the two masks
  3. model:      Lean driver (`CG …`), fed with the frame numbers / label arrays and the
                 brute-force `near` relation over ALL ordered pairs of detections; compared on the
                 canonical string (nodes, frame dict, sorted edges, IoU as exact (inter, union)).

Distance boundary.  Coordinates live on an integer grid and scales are small integers or 0.5, so
squared distances are exact rationals.  `max_edge_distance` is an integer / half-integer (then a
pair at exactly that distance is an exact boundary case and MUST be linked: "at most"), or
sqrt(K) rounded to a float (then the pair at squared distance K sits within one ulp of the
boundary; scipy compares fl(d²) ≤ fl(r·r), and that float rule is what the oracle uses for
exactly those pairs — they are counted separately as `boundary:float-rule`).  Cases in which a
pair is within 1e-9 of the boundary without its coordinates being exactly representable are
re-drawn (`regen:ambiguous-distance`).
"""
from __future__ import annotations

import math
import os
import random
import signal
import time as _time
from fractions import Fraction
from multiprocessing import Pool
from typing import Any

os.environ.setdefault("TQDM_DISABLE", "1")

import numpy as np  # noqa: E402

from .common import Driver, Failure, Result, h, ncores, shard_seeds  # noqa: E402

PROP = "C18"
RULE = ("a case is non-trivial if it has at least one ordered pair of detections in consecutive "
        "frames (the edge rule is exercised) or is refused for a duplicate label; distinct = "
        "distinct hash of the literal input (rows / label array, scale, max distance, iou flag)")

_FT: dict[str, Any] = {}


def _ft():
    """import funtracks lazily (so PYTHONPATH / editable install decide), silence tqdm"""
    if not _FT:
        import logging

        logging.disable(logging.CRITICAL)
        from funtracks.candidate_graph import compute_graph as cg
        from funtracks.candidate_graph import iou as ioumod
        from funtracks.candidate_graph import utils as ut

        def _plain(it, *a, **k):
            return it

        for m in (cg, ioumod, ut):
            if hasattr(m, "tqdm"):
                m.tqdm = _plain
        _FT.update(cg=cg, ut=ut, iou=ioumod)
    return _FT


# ----------------------------------------------------------------------------------------
# exact arithmetic helpers


def _fr(x) -> Fraction:
    return Fraction(x)


def _is_exact_float(q: Fraction) -> bool:
    return abs(q) < 2 ** 40 and Fraction(float(q)) == q


def _sqrt_fraction(q: Fraction) -> Fraction | None:
    """exact rational square root if it exists"""
    n, d = q.numerator, q.denominator
    rn, rd = math.isqrt(n), math.isqrt(d)
    if rn * rn == n and rd * rd == d:
        return Fraction(rn, rd)
    return None


def _scale_list(case) -> list[Fraction]:
    nd = case["ndim"]
    sc = case.get("scale")
    if sc is None:
        return [Fraction(1)] * nd
    return [_fr(s) for s in sc]


# ----------------------------------------------------------------------------------------
# reference (brute force)


def detections(case) -> dict[str, Any]:
    """literal reading of the input: detections with frame, exact scaled position, area.
    returns {"dets": {id: {...}}, "dup": bool}"""
    sc = _scale_list(case)
    dets: dict[int, dict] = {}
    dup = False
    if case["kind"] == "pts":
        for i, row in enumerate(case["rows"]):
            dets[i] = {
                "frame": row[0],
                "time": _fr(row[0]) * sc[0],
                "pos": [_fr(c) * s for c, s in zip(row[1:], sc[1:])],
            }
    else:
        seg = np.array(case["seg"], dtype=np.int64).reshape(case["shape"])
        for t in range(seg.shape[0]):
            fr = seg[t]
            for lab in sorted(set(int(v) for v in fr.flatten()) - {0}):
                if lab in dets:
                    dup = True
                    continue
                coords = np.argwhere(fr == lab)
                cnt = len(coords)
                sums = [int(v) for v in coords.sum(axis=0)]
                vol = Fraction(1)
                for s in sc[1:]:
                    vol *= s
                dets[lab] = {
                    "frame": t,
                    "time": Fraction(t),
                    "count": cnt,
                    "sums": sums,
                    "pos": [Fraction(sm, cnt) * s for sm, s in zip(sums, sc[1:])],
                    "area": cnt * vol,
                }
    return {"dets": dets, "dup": dup}


def _d2(a: dict, b: dict) -> Fraction:
    return sum(((x - y) ** 2 for x, y in zip(a["pos"], b["pos"])), Fraction(0))


def near_relation(case, dets) -> dict[str, Any]:
    """near(u,v) for ALL ordered pairs, exact where the boundary is exact; see module doc"""
    r = float(case["max"])
    R2 = Fraction(r) ** 2
    rr = r * r
    r_exact = Fraction(rr) == R2
    near: set[tuple[int, int]] = set()
    b_exact: set[tuple[int, int]] = set()
    b_float: set[tuple[int, int]] = set()
    ambiguous = 0
    ids = sorted(dets)
    for u in ids:
        for v in ids:
            d2 = _d2(dets[u], dets[v])
            coords_exact = all(_is_exact_float(c) for c in dets[u]["pos"] + dets[v]["pos"]) \
                and _is_exact_float(d2)
            exact = d2 <= R2
            close = abs(float(d2) - rr) <= 1e-9 * (1.0 + rr)
            if not close:
                res = exact
            elif coords_exact and r_exact:
                res = exact  # exactly decided; d2 == R2 is the exact boundary ("at most")
                if d2 == R2:
                    b_exact.add((u, v))
            elif coords_exact:
                # r = fl(sqrt K): scipy's float rule on an exactly representable d²
                res = float(d2) <= rr
                b_float.add((u, v))
            else:
                res = exact
                ambiguous += 1
            if res:
                near.add((u, v))
    return {"near": near, "b_exact": b_exact, "b_float": b_float, "ambiguous": ambiguous}


def reference(case) -> dict[str, Any]:
    D = detections(case)
    dets = D["dets"]
    if D["dup"]:
        return {"refuse": True, "dets": dets, "near": set(), "edges": set(), "iou": {},
                "boundary_exact": 0, "boundary_float": 0, "ambiguous": 0}
    N = near_relation(case, dets)

    def consecutive(p):
        return dets[p[1]]["time"] == dets[p[0]]["time"] + 1

    edges = {p for p in N["near"] if consecutive(p)}
    iou: dict[tuple[int, int], tuple[int, int]] = {}
    if case["kind"] == "seg":
        seg = np.array(case["seg"], dtype=np.int64).reshape(case["shape"])
        for (u, v) in edges:
            A = seg[dets[u]["frame"]] == u
            B = seg[dets[v]["frame"]] == v
            iou[(u, v)] = (int(np.logical_and(A, B).sum()), int(np.logical_or(A, B).sum()))
    return {"refuse": False, "dets": dets, "edges": edges, "iou": iou, "near": N["near"],
            "ambiguous": N["ambiguous"],
            # boundary pairs that matter for the edge rule: consecutive frames only
            "boundary_exact": sum(1 for p in N["b_exact"] if consecutive(p)),
            "boundary_float": sum(1 for p in N["b_float"] if consecutive(p))}


# ----------------------------------------------------------------------------------------
# real code


class _Hang(Exception):
    pass


def _alarm(signum, frame):  # pragma: no cover
    raise _Hang()


def _np_input(case):
    if case["kind"] == "pts":
        dt = {"int": np.int64, "float": np.float64}.get(case.get("dtype", "int")) or np.dtype(case["dtype"])
        arr = np.array(case["rows"], dtype=dt).reshape(len(case["rows"]), case["ndim"])
        return arr
    return np.array(case["seg"], dtype=np.dtype(case.get("dtype", "int64"))).reshape(case["shape"])


def _scale_arg(case):
    sc = case.get("scale")
    return None if sc is None else list(sc)


def _max_arg(case):
    m = case["max"]
    if case.get("max_as_int") and float(m).is_integer():
        return int(m)
    return float(m)


def run_real(case, timeout: float = 20.0) -> dict[str, Any]:
    ft = _ft()
    arr = _np_input(case)
    old = signal.signal(signal.SIGALRM, _alarm)
    signal.setitimer(signal.ITIMER_REAL, timeout)
    try:
        try:
            if case["kind"] == "pts":
                g = ft["cg"].compute_graph_from_points_list(arr, _max_arg(case), scale=_scale_arg(case))
            else:
                g = ft["cg"].compute_graph_from_seg(arr, _max_arg(case), iou=bool(case["iou"]),
                                                    scale=_scale_arg(case))
        except _Hang:
            return {"status": "hang"}
        except Exception as e:  # noqa: BLE001
            return {"status": "err", "exc": type(e).__name__, "msg": str(e)[:200]}
        # the frame dictionary the entry point used (deterministic re-computation)
        try:
            if case["kind"] == "pts":
                _, fd = ft["ut"].nodes_from_points_list(arr, scale=_scale_arg(case))
            else:
                _, fd = ft["ut"].nodes_from_segmentation(arr, scale=_scale_arg(case))
        except Exception as e:  # noqa: BLE001
            fd = {"__err__": type(e).__name__}
        return {"status": "ok", "graph": g, "dict": fd}
    finally:
        signal.setitimer(signal.ITIMER_REAL, 0)
        signal.signal(signal.SIGALRM, old)


# ----------------------------------------------------------------------------------------
# oracle


def _close(x: float, q: Fraction, tol: float = 1e-9) -> bool:
    try:
        xf = float(x)
    except Exception:  # noqa: BLE001
        return False
    qf = float(q)
    return abs(xf - qf) <= tol * max(1.0, abs(qf))


def oracle(case, real, ref) -> list[tuple[str, str]]:
    """list of (signature, description) — empty when the statement holds on this case"""
    out: list[tuple[str, str]] = []
    fn = "compute_graph_from_points_list" if case["kind"] == "pts" else "compute_graph_from_seg"
    if real["status"] == "hang":
        return [(f"C18|{fn}|hang", "real code did not return within the watchdog")]
    if ref["refuse"]:
        if real["status"] == "err" and real["exc"] == "ValueError":
            return []
        return [("C18|nodes|duplicate-label-accepted",
                 f"label array with a label in two frames was not refused: {real['status']} "
                 f"{real.get('exc', '')}")]
    dets = ref["dets"]
    if real["status"] == "err":
        tag = "empty-input" if not dets else "valid-input"
        return [(f"C18|add_cand_edges|{tag}-raises-{real['exc']}",
                 f"{fn} raised {real['exc']}: {real['msg']} on a valid input with {len(dets)} detections")]
    g = real["graph"]
    # ---- nodes
    ids = set(g.nodes)
    if ids != set(dets):
        extra = sorted(ids - set(dets))[:3]
        miss = sorted(set(dets) - ids)[:3]
        out.append(("C18|nodes|node-set-differs",
                    f"nodes differ from detections: extra {extra} missing {miss}"))
    for n in sorted(ids & set(dets)):
        a = g.nodes[n]
        d = dets[n]
        if "time" not in a or not _close(a["time"], d["time"], 0.0):
            out.append(("C18|nodes|time-wrong", f"node {n}: time {a.get('time')} expected {d['time']}"))
            break
        pos = a.get("pos")
        if pos is None or len(pos) != len(d["pos"]) or not all(_close(p, q) for p, q in zip(pos, d["pos"])):
            out.append(("C18|nodes|centroid-wrong",
                        f"node {n}: pos {pos} expected {[float(q) for q in d['pos']]}"))
            break
        if case["kind"] == "seg" and ("area" not in a or not _close(a["area"], d["area"])):
            out.append(("C18|nodes|area-wrong", f"node {n}: area {a.get('area')} expected {float(d['area'])}"))
            break
    # ---- edges
    real_edges = set(g.edges)
    exp = ref["edges"]
    populated = sorted({d["time"] for d in dets.values()})
    for (u, v) in sorted(real_edges - exp):
        if u not in dets or v not in dets:
            out.append(("C18|add_cand_edges|edge-on-unknown-node", f"edge {(u, v)}"))
            continue
        dt = dets[v]["time"] - dets[u]["time"]
        if dt > 1:
            out.append(("C18|add_cand_edges|link-across-gap",
                        f"edge {(u, v)} links frame {dets[u]['time']} to frame {dets[v]['time']} "
                        f"(populated frames {[int(p) for p in populated]})"))
        elif dt < 1:
            out.append(("C18|add_cand_edges|link-not-forward", f"edge {(u, v)} has time difference {dt}"))
        else:
            out.append(("C18|add_cand_edges|link-too-far",
                        f"edge {(u, v)} at squared distance {_d2(dets[u], dets[v])} > max {case['max']}"))
        break
    for (u, v) in sorted(exp - real_edges):
        tu = dets[u]["time"]
        # source frame is the first populated frame after a run of empty frames
        earlier_gap = (tu - 1) not in populated and any(p < tu for p in populated)
        if earlier_gap:
            out.append(("C18|add_cand_edges|missing-link-after-gap",
                        f"no edge {(u, v)} (frames {tu}->{tu + 1}, squared distance "
                        f"{_d2(dets[u], dets[v])} <= max {case['max']}^2) after an earlier gap; populated frames "
                        f"{[int(p) for p in populated]}"))
        else:
            out.append(("C18|add_cand_edges|missing-link",
                        f"no edge {(u, v)} (frames {tu}->{tu + 1}, squared distance "
                        f"{_d2(dets[u], dets[v])}, max {case['max']})"))
        break
    # ---- iou
    if case["kind"] == "seg":
        seg = np.array(case["seg"], dtype=np.int64).reshape(case["shape"])
        for (u, v) in sorted(real_edges):
            a = g.edges[(u, v)]
            if not case["iou"]:
                if "iou" in a:
                    out.append(("C18|iou|unrequested-iou-present", f"edge {(u, v)} has iou {a['iou']}"))
                    break
                continue
            if u not in dets or v not in dets:
                continue
            if "iou" not in a:
                out.append(("C18|iou|missing-on-edge", f"edge {(u, v)} has no iou attribute"))
                break
            A = seg[dets[u]["frame"]] == u
            B = seg[dets[v]["frame"]] == v
            inter = int(np.logical_and(A, B).sum())
            union = int(np.logical_or(A, B).sum())
            if abs(float(a["iou"]) - inter / union) > 1e-12:
                out.append(("C18|iou|value-wrong",
                            f"edge {(u, v)}: iou {a['iou']} but masks overlap {inter}/{union}"))
                break
    # de-duplicate signatures, keep first description
    seen: set[str] = set()
    res = []
    for s, w in out:
        if s not in seen:
            seen.add(s)
            res.append((s, w))
    return res


# ----------------------------------------------------------------------------------------
# model line / canonical strings


def _int_time(x) -> str:
    try:
        f = float(x)
        if f == int(f):
            return str(int(f))
    except Exception:  # noqa: BLE001
        pass
    return f"?{x}"


def model_line(case, ref, mode: str = "fixed") -> str | None:
    """None when the case is outside the model's input language (non-integral times)"""
    dets = ref["dets"]
    pairs = sorted(ref["near"])
    ptoks = [str(len(pairs))] + [f"{u} {v}" for u, v in pairs]
    if case["kind"] == "pts":
        sc = _scale_list(case)
        if sc[0].denominator != 1 or sc[0] < 0:
            return None
        times = [row[0] for row in case["rows"]]
        if any((not float(t).is_integer()) or t < 0 for t in times):
            return None
        toks = ["CG", "pts", mode, str(int(sc[0])), str(len(times))] + [str(int(t)) for t in times]
        return " ".join(toks + ptoks)
    shape = case["shape"]
    flat = [int(v) for v in np.array(case["seg"], dtype=np.int64).reshape(-1)]
    if any(v < 0 for v in flat):
        return None
    toks = ["CG", "seg", mode, "1" if case["iou"] else "0", str(len(shape) - 1)]
    toks += [str(s) for s in shape[1:]] + [str(shape[0])] + [str(v) for v in flat]
    return " ".join(toks + ptoks)


def _canon_dict(fd) -> list[str]:
    if "__err__" in fd:
        return ["dict", "?" + fd["__err__"]]
    items = sorted(((float(k), [int(n) for n in v]) for k, v in fd.items()), key=lambda kv: kv[0])
    toks = ["dict", str(len(items))]
    for k, v in items:
        toks += [_int_time(k), str(len(v))] + [str(n) for n in v]
    return toks


def canon_real(case, real, ref) -> str:
    if real["status"] == "hang":
        return "hang"
    if real["status"] == "err":
        return {"ValueError": "err:value", "IndexError": "err:index"}.get(real["exc"], "err:" + real["exc"])
    g = real["graph"]
    sc = _scale_list(case)
    toks = ["ok", "nodes", str(g.number_of_nodes())]
    for n in sorted(g.nodes):
        a = g.nodes[n]
        toks += [str(int(n)), _int_time(a.get("time", "none"))]
        if case["kind"] == "seg":
            vol = Fraction(1)
            for s in sc[1:]:
                vol *= s
            try:
                cnt = round(float(a["area"]) / float(vol))
                ok = abs(float(a["area"]) - cnt * float(vol)) <= 1e-9 * max(1.0, float(a["area"]))
                toks.append(str(cnt) if ok else f"?{a['area']}")
                pos = list(a["pos"])
                toks.append(str(len(pos)))
                for p, s in zip(pos, sc[1:]):
                    sm = round(float(p) / float(s) * cnt)
                    good = cnt > 0 and abs(float(p) - float(Fraction(sm, max(cnt, 1)) * s)) <= 1e-9 * max(1.0, abs(float(p)))
                    toks.append(str(sm) if good else f"?{p}")
            except Exception as e:  # noqa: BLE001
                toks.append("?" + type(e).__name__)
    toks += _canon_dict(real["dict"])
    es = sorted((int(u), int(v)) for u, v in g.edges)
    toks += ["edges", str(len(es))]
    for u, v in es:
        toks += [str(u), str(v)]
    if case["kind"] == "seg":
        seg = np.array(case["seg"], dtype=np.int64).reshape(case["shape"])
        ent = []
        for u, v in es:
            a = g.edges[(u, v)]
            if "iou" not in a:
                continue
            f = float(a["iou"])
            if f == 0.0:
                ent.append([str(u), str(v), "z"])
                continue
            # recover the exact (inter, union) by brute force from the frames the REAL nodes sit in
            try:
                A = seg[int(g.nodes[u]["time"])] == u
                B = seg[int(g.nodes[v]["time"])] == v
                inter = int(np.logical_and(A, B).sum())
                union = int(np.logical_or(A, B).sum())
                if union > 0 and abs(f - inter / union) <= 1e-12:
                    ent.append([str(u), str(v), str(inter), str(union)])
                else:
                    ent.append([str(u), str(v), f"?{f}"])
            except Exception as e:  # noqa: BLE001
                ent.append([str(u), str(v), "?" + type(e).__name__])
        toks += ["iou", str(len(ent))]
        for e in ent:
            toks += e
    return " ".join(toks)


# ----------------------------------------------------------------------------------------
# generators

_SQRT_K = [2, 3, 5, 8, 10, 13]
_PLAIN_MAX = [0.0, 0.5, 1.0, 1.5, 2.0, 2.5, 3.0, 4.0, 5.0, 1e6]


def _frame_counts(rng: random.Random, intensify: bool) -> tuple[list[int], dict[str, int]]:
    """detections per frame (0..4), with structured gaps of 1-3 frames at start/middle/end"""
    tags = {"gap_start": 0, "gap_middle": 0, "gap_end": 0}
    mode = rng.random()
    counts: list[int] = []
    if mode < 0.08:
        counts = [0] * rng.randint(0, 3)  # no detection at all
    elif mode < (0.75 if not intensify else 0.9):
        if rng.random() < 0.35:
            counts += [0] * rng.randint(1, 3)
            tags["gap_start"] = 1
        nruns = rng.randint(1, 3)
        for i in range(nruns):
            counts += [rng.randint(1, 4) for _ in range(rng.randint(1, 3))]
            if i < nruns - 1:
                counts += [0] * rng.randint(1, 3)
                tags["gap_middle"] += 1
        if rng.random() < 0.3:
            counts += [0] * rng.randint(1, 3)
            tags["gap_end"] = 1
    else:
        counts = [rng.choice([0, 0, 1, 1, 2, 3, 4]) for _ in range(rng.randint(1, 7))]
        pop = [i for i, c in enumerate(counts) if c]
        if pop:
            tags["gap_start"] = int(pop[0] > 0)
            tags["gap_end"] = int(pop[-1] < len(counts) - 1)
            tags["gap_middle"] = sum(1 for a, b in zip(pop, pop[1:]) if b > a + 1)
    return counts, tags


def _gen_scale(rng: random.Random, ndim: int, kind: str) -> tuple[list | None, str]:
    x = rng.random()
    if x < 0.3:
        return None, "none"
    if x < 0.5:
        return [1] * ndim, "ones"
    if x < 0.6:
        return [1.0] * ndim, "ones-float"
    sc: list = [1] + [rng.choice([1, 2, 3]) for _ in range(ndim - 1)]
    tag = "aniso-int"
    if rng.random() < 0.25:
        i = rng.randrange(1, ndim)
        sc[i] = 0.5
        tag = "aniso-half"
    if kind == "pts" and rng.random() < 0.08:
        sc[0] = 2
        tag += "+time-scaled"
    elif kind == "seg" and rng.random() < 0.2:
        sc[0] = rng.choice([2, 5])  # documented as a dummy for label arrays
    return sc, tag


def _choose_max(rng: random.Random, case, res: Result | None) -> None:
    """sets case['max'], case['max_kind'], case['max_as_int']; avoids ambiguous distances"""
    dets = detections(case)["dets"]
    ids = sorted(dets)
    cons = [(u, v) for u in ids for v in ids if dets[v]["time"] == dets[u]["time"] + 1]
    for _attempt in range(12):
        kind = "plain"
        m = None
        x = rng.random()
        if x < 0.45 and cons:
            u, v = rng.choice(cons)
            d2 = _d2(dets[u], dets[v])
            if all(_is_exact_float(c) for c in dets[u]["pos"] + dets[v]["pos"]) and _is_exact_float(d2):
                s = _sqrt_fraction(d2)
                if s is not None and _is_exact_float(s):
                    m, kind = float(s), "boundary-exact"
                else:
                    m, kind = math.sqrt(float(d2)), "boundary-sqrt"
        if m is None:
            if x < 0.8:
                m, kind = rng.choice(_PLAIN_MAX), "plain"
            else:
                m, kind = math.sqrt(rng.choice(_SQRT_K)), "sqrt"
        case["max"] = m
        case["max_kind"] = kind
        case["max_as_int"] = bool(float(m).is_integer() and m < 1e5 and rng.random() < 0.5)
        if near_relation(case, dets)["ambiguous"] == 0:
            return
        if res is not None:
            res.count("regen:ambiguous-distance")
    case["max"], case["max_kind"], case["max_as_int"] = 0.25, "plain", False


def gen_pts(rng: random.Random, res: Result | None, intensify: bool = False) -> dict:
    nsp = rng.choice([2, 3])
    ndim = nsp + 1
    counts, tags = _frame_counts(rng, intensify)
    rows = []
    grid = rng.choice([2, 3, 4])
    for t, c in enumerate(counts):
        for _ in range(c):
            rows.append([t] + [rng.randint(0, grid) for _ in range(nsp)])
    order = "time-order"
    if rng.random() < 0.5:
        rng.shuffle(rows)
        order = "shuffled"
    scale, stag = _gen_scale(rng, ndim, "pts")
    dtype = rng.choice(["int", "float"])
    if rng.random() < 0.2:
        # the point list as a NARROW integer array (what a detector that stores pixel coordinates
        # compactly hands over) with coordinates spread over the dtype's range: differences and
        # their squares do not fit the dtype
        dtype, stride = rng.choice([("uint8", 60), ("int8", 30), ("uint16", 15000), ("int16", 8000)])
        rows = [[r[0]] + [c * stride for c in r[1:]] for r in rows]
    case = {"kind": "pts", "ndim": ndim, "rows": rows, "dtype": dtype,
            "scale": scale, "iou": False}
    _choose_max(rng, case, res)
    case["_tags"] = {**tags, "scale": stag, "order": order, "counts": counts}
    return case


def _blob(rng: random.Random, shape: tuple[int, ...], start: tuple[int, ...], size: int) -> set:
    px = {start}
    cur = start
    for _ in range(size * 3):
        if len(px) >= size:
            break
        ax = rng.randrange(len(shape))
        step = rng.choice([-1, 1])
        nxt = list(cur)
        nxt[ax] = min(max(nxt[ax] + step, 0), shape[ax] - 1)
        cur = tuple(nxt)
        px.add(cur)
    return px


def gen_seg(rng: random.Random, res: Result | None, intensify: bool = False, malformed: bool = False) -> dict:
    three = rng.random() < 0.4
    fshape = rng.choice([(3, 3, 3), (2, 4, 3)]) if three else rng.choice([(5, 5), (4, 6), (6, 3)])
    counts, tags = _frame_counts(rng, intensify)
    if malformed:
        while sum(1 for c in counts if c) < 2:
            counts, tags = _frame_counts(rng, intensify)
    T = len(counts)
    seg = np.zeros((T,) + fshape, dtype=np.int64)
    total = sum(counts)
    pool = rng.sample(range(1, 3 * total + 6), total) if total else []
    if rng.random() < 0.5:
        pool.sort()
    li = 0
    prev_pixels: list[tuple[int, ...]] = []
    for t, c in enumerate(counts):
        cur_pixels: list[tuple[int, ...]] = []
        for _ in range(c):
            lab = pool[li]
            li += 1
            if prev_pixels and rng.random() < 0.6:
                start = rng.choice(prev_pixels)
            else:
                start = tuple(rng.randrange(s) for s in fshape)
            size = rng.choice([1, 1, 2, 2, 3, 4, 4, 6])
            px = [p for p in _blob(rng, fshape, start, size) if seg[(t,) + p] == 0]
            if not px:
                free = [tuple(int(i) for i in p) for p in np.argwhere(seg[t] == 0)]
                if not free:
                    continue
                px = [rng.choice(free)]
            for p in px:
                seg[(t,) + p] = lab
            cur_pixels += px
        prev_pixels = cur_pixels
    if rng.random() < 0.12:
        # no background in the populated frames: the remaining pixels go to the frame's detections (a
        # detection that is alone in its frame fills it; several tile it)
        for t in range(T):
            labs = sorted(set(int(v) for v in seg[t].reshape(-1)) - {0})
            if labs:
                flat = seg[t].reshape(-1)
                for i in range(flat.size):
                    if flat[i] == 0:
                        flat[i] = rng.choice(labs)
    if malformed:
        frames = [t for t in range(T) if seg[t].any()]
        if len(frames) >= 2:
            a, b = sorted(rng.sample(frames, 2))
            la = rng.choice(sorted(set(seg[a].flatten().tolist()) - {0}))
            lb = rng.choice(sorted(set(seg[b].flatten().tolist()) - {0}))
            seg[b][seg[b] == lb] = la
    scale, stag = _gen_scale(rng, len(fshape) + 1, "seg")
    case = {"kind": "seg", "ndim": len(fshape) + 1, "shape": [T] + list(fshape),
            "seg": seg.reshape(-1).tolist(), "dtype": rng.choice(["int64", "int32", "uint16", "uint8"]),
            "scale": scale, "iou": rng.random() < 0.6}
    if case["dtype"] == "uint8" and seg.size and seg.max() > 255:
        case["dtype"] = "int64"
    _choose_max(rng, case, res)
    case["_tags"] = {**tags, "scale": stag, "counts": counts, "malformed": malformed}
    return case


def strip(case: dict) -> dict:
    return {k: v for k, v in case.items() if not k.startswith("_")}


# ----------------------------------------------------------------------------------------
# shrinking


def _variants(case: dict):
    """smaller candidate inputs"""
    if case["kind"] == "pts":
        rows = case["rows"]
        for i in range(len(rows)):
            c = dict(case)
            c["rows"] = rows[:i] + rows[i + 1:]
            yield c
        # shift all frames down by one if frame 0 is unused
        if rows and min(r[0] for r in rows) > 0:
            c = dict(case)
            c["rows"] = [[r[0] - 1] + r[1:] for r in rows]
            yield c
        for i, r in enumerate(rows):
            if any(x != 0 for x in r[1:]):
                c = dict(case)
                c["rows"] = rows[:i] + [[r[0]] + [0] * (len(r) - 1)] + rows[i + 1:]
                yield c
    else:
        shape = case["shape"]
        seg = np.array(case["seg"], dtype=np.int64).reshape(shape)
        for t in range(shape[0]):
            c = dict(case)
            s2 = np.delete(seg, t, axis=0)
            c["shape"] = [shape[0] - 1] + shape[1:]
            c["seg"] = s2.reshape(-1).tolist()
            yield c
        for lab in sorted(set(seg.flatten().tolist()) - {0}):
            c = dict(case)
            s2 = seg.copy()
            s2[s2 == lab] = 0
            c["seg"] = s2.reshape(-1).tolist()
            yield c
        if case["iou"]:
            c = dict(case)
            c["iou"] = False
            yield c
    if case.get("scale") is not None:
        c = dict(case)
        c["scale"] = None
        yield c
    if case.get("dtype") not in ("int", "int64"):
        c = dict(case)
        c["dtype"] = "int" if case["kind"] == "pts" else "int64"
        yield c
    if case["max"] != 1e6:
        c = dict(case)
        c["max"], c["max_as_int"] = 1e6, False
        yield c


def shrink(case: dict, pred, budget: int = 400) -> dict:
    cur = strip(case)
    progress = True
    n = 0
    import time as _t
    t0_ = _t.time()   # wall-clock limit: a change that makes every evaluation slow must not stall the check
    while progress and n < budget and _t.time() - t0_ < 60:
        progress = False
        for cand in _variants(cur):
            n += 1
            if n >= budget or _t.time() - t0_ >= 60:
                break
            try:
                if pred(cand):
                    cur = cand
                    progress = True
                    break
            except Exception:  # noqa: BLE001
                continue
    return cur


def _oracle_sigs(case) -> list[tuple[str, str]]:
    ref = reference(case)
    if ref["ambiguous"]:
        return []
    real = run_real(case)
    return oracle(case, real, ref)


def _diverges(case, drv: Driver) -> tuple[bool, str, str]:
    ref = reference(case)
    real = run_real(case)
    line = model_line(case, ref)
    if line is None:
        return False, "", ""
    m = drv.run([line])[0]
    r = canon_real(case, real, ref)
    return m != r, r, m


# ----------------------------------------------------------------------------------------
# shard worker


def _hist(res: Result, prefix: str, v) -> None:
    res.count(f"{prefix}:{v}")


def _shard(args) -> Result:
    seed, n_cases, intensify = args
    rng = random.Random(seed)
    res = Result(rule=RULE)
    lines: list[str] = []
    pend: list[tuple[dict, dict, dict, str]] = []
    oracle_seen: dict[str, int] = {}
    for _i in range(n_cases):
        x = rng.random()
        if x < 0.45:
            case = gen_pts(rng, res, intensify)
            stream = "pts"
        elif x < 0.93:
            case = gen_seg(rng, res, intensify)
            stream = "seg"
        else:
            case = gen_seg(rng, res, intensify, malformed=True)
            stream = "seg-malformed"
        tags = case.pop("_tags")
        ref = reference(case)
        real = run_real(case)
        res.evaluations += 1
        # distribution
        res.count(f"stream:{stream}")
        _hist(res, "spatial-dims", case["ndim"] - 1)
        _hist(res, "scale", tags["scale"])
        _hist(res, "max-kind", case["max_kind"] + ("/int" if case.get("max_as_int") else ""))
        _hist(res, "frames", len(tags["counts"]))
        for c in tags["counts"]:
            _hist(res, "detections-per-frame", c)
        for k in ("gap_start", "gap_middle", "gap_end"):
            if tags[k]:
                res.count(f"cases-with-{k}")
        if case["kind"] == "pts":
            _hist(res, "pts-order", tags["order"])
            _hist(res, "pts-dtype", case["dtype"])
        else:
            _hist(res, "seg-dtype", case["dtype"])
            _hist(res, "seg-iou-requested", case["iou"])
        res.count("consecutive-pairs:boundary-exact(at-most)", ref["boundary_exact"])
        res.count("consecutive-pairs:boundary-float-rule(sqrt)", ref["boundary_float"])
        if ref["boundary_exact"]:
            res.count("cases-with-exact-boundary-pair")
        if ref["boundary_float"]:
            res.count("cases-with-float-rule-boundary-pair")
        res.count("expected-edges", len(ref["edges"]))
        res.count("iou-edges-overlapping", sum(1 for i, _u in ref["iou"].values() if i > 0))
        res.count("iou-edges-disjoint", sum(1 for i, _u in ref["iou"].values() if i == 0))
        res.count(f"real:{real['status']}" + (":" + real["exc"] if real["status"] == "err" else ""))
        if ref["refuse"]:
            res.count("refusal:duplicate-label")
        dets = ref["dets"]
        ncons = sum(1 for u in dets for v in dets if dets[v]["time"] == dets[u]["time"] + 1)
        if ncons or ref["refuse"]:
            res.nontrivial.add(h(case))
        if len(res.samples) < 3 and ncons and rng.random() < 0.05:
            res.samples.append(case)
        # oracle
        if real["status"] == "hang":
            res.failures.append(Failure("hang", PROP, "C18|compute_graph|hang", "watchdog expired",
                                        {"case": case}))
            continue
        fails = oracle(case, real, ref)
        for sig, what in fails:
            res.count("oracle-fail:" + sig)
            oracle_seen[sig] = oracle_seen.get(sig, 0) + 1
            if oracle_seen[sig] <= 2:  # shrink the first two of each kind per shard
                small = shrink(case, lambda c, s=sig: any(q == s for q, _ in _oracle_sigs(c)))
                w2 = [w for q, w in _oracle_sigs(small) if q == sig]
                res.failures.append(Failure("oracle", PROP, sig, (w2[0] if w2 else what), {"case": small}))
        if fails:
            res.count("cases-failing-oracle")
        # model
        line = model_line(case, ref)
        if line is None:
            res.count("model:outside-input-language")
            continue
        lines.append(line)
        pend.append((case, real, ref, canon_real(case, real, ref)))
    # correspondence (batch)
    try:
        drv = Driver()
        outs = drv.run(lines)
    except Exception as e:  # noqa: BLE001
        res.notes.append(f"driver failure: {e}")
        res.failures.append(Failure("divergence", PROP, "C18|driver|unavailable", str(e)[:300], {}))
        return res
    ndiv = 0
    for (case, _real, _ref, creal), mout in zip(pend, outs):
        res.compared_steps += 1
        if creal != mout:
            ndiv += 1
            res.count("divergent-cases")
            if ndiv <= 2:
                small = shrink(case, lambda c: _diverges(c, drv)[0], budget=150)
                _, r, m = _diverges(small, drv)
                res.failures.append(Failure(
                    "divergence", PROP, "C18|model-vs-code|" + _div_kind(r, m),
                    f"real: {r[:300]} | model: {m[:300]}", {"case": small}))
    return res


def _div_kind(r: str, m: str) -> str:
    if r.split(" ")[0] != m.split(" ")[0]:
        return "status"

    def sec(s: str, name: str) -> str:
        t = s.split(" ")
        if name not in t:
            return ""
        i = t.index(name)
        rest = t[i + 1:]
        for stop in ("dict", "edges", "iou"):
            if stop in rest and stop != name:
                rest = rest[:rest.index(stop)]
        return " ".join(rest)

    for name in ("nodes", "dict", "edges", "iou"):
        if sec(r, name) != sec(m, name):
            return name
    return "other"


# ----------------------------------------------------------------------------------------
# entry points

FIXED_CASES = [
    # D7 probe of DESIGN.md: detections in frames 0,1,3,4
    {"kind": "pts", "ndim": 3, "rows": [[0, 0, 0], [1, 0, 0], [3, 0, 0], [4, 0, 0]], "dtype": "int",
     "scale": None, "iou": False, "max": 5.0, "max_kind": "plain", "max_as_int": False},
    {"kind": "pts", "ndim": 3, "rows": [[1, 0, 0], [3, 0, 0], [4, 0, 0]], "dtype": "int",
     "scale": None, "iou": False, "max": 5.0, "max_kind": "plain", "max_as_int": False},
    # no detection at all
    {"kind": "pts", "ndim": 3, "rows": [], "dtype": "int", "scale": None, "iou": False,
     "max": 1.0, "max_kind": "plain", "max_as_int": False},
    # exact boundary 3-4-5
    {"kind": "pts", "ndim": 3, "rows": [[0, 0, 0], [1, 3, 4], [1, 3, 5]], "dtype": "float",
     "scale": None, "iou": False, "max": 5.0, "max_kind": "boundary-exact", "max_as_int": True},
]


def _fixed(res: Result) -> None:
    drv = Driver()
    for case in FIXED_CASES:
        ref = reference(case)
        real = run_real(case)
        res.evaluations += 1
        res.count("stream:fixed-corpus")
        for sig, what in oracle(case, real, ref):
            res.count("oracle-fail:" + sig)
            res.failures.append(Failure("oracle", PROP, sig, what, {"case": strip(case)}))
        line = model_line(case, ref)
        if line is not None:
            m = drv.run([line])[0]
            r = canon_real(case, real, ref)
            res.compared_steps += 1
            if m != r:
                res.failures.append(Failure("divergence", PROP, "C18|model-vs-code|" + _div_kind(r, m),
                                            f"real: {r[:300]} | model: {m[:300]}", {"case": strip(case)}))


def run(prop: str, tier: str, seed: int, intensify: bool = False) -> Result:
    assert prop == PROP
    t0 = _time.time()
    total = {"quick": 6000, "thorough": 80000}.get(tier, 6000)
    if intensify:
        total = int(total * 1.5)
    n = ncores()
    per = max(1, total // n)
    res = Result(rule=RULE)
    _fixed(res)
    args = [(s, per, intensify) for s in shard_seeds(seed * 1000003 + (17 if intensify else 0), n)]
    with Pool(n) as pool:
        for r in pool.imap_unordered(_shard, args):
            res.merge(r)
    # keep the failure list small and the smallest replay per signature first
    res.failures.sort(key=lambda f: (f.kind != "oracle", f.signature, len(str(f.replay))))
    ev = max(1, res.evaluations)
    res.notes.append(f"cases failing the oracle: {res.distribution.get('cases-failing-oracle', 0)}/{ev}; "
                     f"divergent cases: {res.distribution.get('divergent-cases', 0)}/{res.compared_steps}; "
                     f"wall {(_time.time() - t0):.1f}s")
    res.notes.append("points with scale[0] != 1 are read as written: node time = row time * scale[0], "
                     "'next frame' = time + 1 (8% of anisotropic point cases)")
    return res


def replay(prop: str, replay_obj: dict) -> int:
    obj = replay_obj.get("replay", replay_obj)
    cases = [obj["case"]] if "case" in obj else [d["case"] for d in obj.get("divergences", []) if "case" in d]
    rc = 0
    for case in cases:
        ref = reference(case)
        real = run_real(case)
        print("input      :", {k: v for k, v in case.items()})
        print("real       :", canon_real(case, real, ref))
        if ref["refuse"]:
            print("expected   : refusal (ValueError) — a label occurs in two frames")
        else:
            print("expected   : nodes", sorted((n, int(d["time"])) for n, d in ref["dets"].items()),
                  "edges", sorted(ref["edges"]),
                  "iou", {k: v for k, v in sorted(ref["iou"].items())} if case.get("iou") else "-")
        fails = oracle(case, real, ref)
        for sig, what in fails:
            print(f"ORACLE FAIL: {sig}: {what}")
            rc = 1
        line = model_line(case, ref)
        if line is not None:
            drv = Driver()
            m = drv.run([line])[0]
            mo = drv.run([model_line(case, ref, "orig")])[0]
            print("model      :", m)
            print("model(orig):", mo, " (the unrepaired loop of add_cand_edges, for comparison)")
            if m != canon_real(case, real, ref):
                print("DIVERGENCE: model (repaired loop) and real code differ")
                rc = 1
        if not fails:
            print("oracle     : holds")
    return rc
