"""Family `import` — property C12 (importing a node table / GEFF store with a key mapping
reproduces the source faithfully; malformed sources are rejected with ValueError).

Per generated case
  1. real code:  `tracks_from_df(df, node_name_map=nm)`                                  (kind df)
                 `CSVTracksBuilder().read_header(path); .node_name_map = nm; .build(path)` (kind csv)
                 `import_from_geff(store, node_name_map=nm)`                              (kind geff)
  2. oracle:     independent reading of the statement on the SOURCE (the DataFrame as given; for a
                 CSV file the frame `pd.read_csv` yields — parsing is a trusted carrier, its floats
                 are checked to be within 1 ulp of what was written; for GEFF the graph / arrays
                 that were written):
                   malformed  (duplicate id | parent naming no row | self-link | required key not
                              mapped | mapped column absent)  ⇒  ValueError, no result
                   otherwise  nodes = source ids (non-integer id column: row i ↦ i+1),
                              edges = exactly the source (parent, child) links,
                              every mapped property of every node = source cell (floats by repr,
                              integral floats = ints, NaN/None = missing), list-mapped columns
                              stacked in mapped order
  3. model:      Lean driver (`IM csv fixed …` / `IM geff …`), compared on the canonical string
                 (nodes with all attributes except the track/lineage ids SolutionTracks adds,
                 sorted edges, or the error kind derived from the ValueError text).

A share of the well-formed sources carries `track_id` / `lineage_id` columns (also renamed) with
VALID, NON-CANONICAL ids (track id constant exactly on each maximal unbranched segment, lineage id
constant exactly on each weakly connected component, distinct across them, random non-contiguous
values, forests with divisions and skip edges); they are mapped properties like any other and must
arrive unchanged (`C12|<kind>|mapped-lineage-id-differs`, `…|mapped-track-id-differs`).  The model
carries them as ordinary columns; the validity check of the real code (geff.validate) is opaque,
so only valid ids are generated and sources whose ids are invalid by the harness's own reading
(possible while shrinking) are outside the claim and the model's input language.

"No parent" is -1, an empty string, "-1" or a missing value (NaN/None/NA); ids never take these
values (documented sentinel).  Cells are homogeneous per column (numpy coerces mixed columns);
missing values only in float columns (a missing cell of a `str` column arrives as the string
'nan' under pandas 3 — observed, outside the claim).
"""
from __future__ import annotations

import json
import math
import os
import random
import re
import shutil
import signal
import tempfile
import time as _time
from multiprocessing import Pool
from pathlib import Path
from typing import Any

os.environ.setdefault("TQDM_DISABLE", "1")

import numpy as np  # noqa: E402
import pandas as pd  # noqa: E402

from .common import Driver, Failure, Result, h, hexs, ncores, shard_seeds  # noqa: E402

PROP = "C12"
RULE = ("a case is non-trivial if the source has at least one parent-child link or at least one "
        "list-mapped / renamed property and is imported, or if it is malformed (duplicate id, "
        "unknown parent, self-link, missing key / column) and must be refused; distinct = distinct "
        "hash of the literal case (columns, cells, dtypes, name map, kind)")

RESERVED = {"track_id", "lineage_id", "tracklet_id"}
_FT: dict[str, Any] = {}


def _ft():
    if not _FT:
        import logging
        import warnings

        warnings.filterwarnings("ignore")
        logging.disable(logging.CRITICAL)
        import geff
        from geff.core_io import write_arrays
        from geff_spec import GeffMetadata
        from geff_spec.utils import (
            add_or_update_props_metadata,
            create_or_update_metadata,
            create_props_metadata,
        )

        from funtracks.import_export import CSVTracksBuilder, import_from_geff, tracks_from_df
        from funtracks.import_export._utils import get_default_key_to_feature_mapping

        feats = get_default_key_to_feature_mapping(3, display_name=False)
        spatial = sorted(k for k, f in feats.items() if isinstance(f, dict) and f.get("spatial_dims"))
        _FT.update(geff=geff, write_arrays=write_arrays, GeffMetadata=GeffMetadata,
                   aup=add_or_update_props_metadata, cum=create_or_update_metadata,
                   cpm=create_props_metadata, CSVTracksBuilder=CSVTracksBuilder,
                   import_from_geff=import_from_geff, tracks_from_df=tracks_from_df,
                   spatial=spatial, feature_keys=sorted(feats))
    return _FT


# ----------------------------------------------------------------------------------------
# tokens


def _plain(v):
    if isinstance(v, np.generic):
        v = v.item()
    return v


def _isna(v) -> bool:
    if v is None or v is pd.NA:
        return True
    return isinstance(v, float) and math.isnan(v)


def idtok(v) -> str | None:
    """token of an id / parent cell (None = missing); equal tokens <=> Python-equal values"""
    v = _plain(v)
    if _isna(v):
        return None
    if isinstance(v, bool):
        return "s" + str(v)
    if isinstance(v, int):
        return str(v)
    if isinstance(v, float):
        if v.is_integer() and abs(v) < 2 ** 53:
            return str(int(v))
        return "f" + repr(v)
    if isinstance(v, str):
        return "s" + v
    return "s?" + repr(v)


def valtok(v) -> str:
    """token of a carried value: floats by repr, integral numbers alike, missing = 'na'"""
    v = _plain(v)
    if _isna(v):
        return "na"
    if isinstance(v, bool):
        return "b%d" % v
    if isinstance(v, int):
        return "n%d" % v
    if isinstance(v, float):
        if v.is_integer() and abs(v) < 2 ** 53:
            return "n%d" % int(v)
        return "f" + repr(v)
    if isinstance(v, str):
        return "s" + v
    return "?" + repr(v)


def val_of(v):
    """('s', tok) | ('v', [tok…])"""
    if isinstance(v, (list, tuple, np.ndarray)):
        return ("v", [valtok(x) for x in list(v)])
    return ("s", valtok(v))


NO_PARENT = {"-1", "s", "s-1"}

# ----------------------------------------------------------------------------------------
# case -> source


def build_df(case) -> pd.DataFrame:
    data = {}
    for c, dt, vals in zip(case["cols"], case["dtypes"], case["values"]):
        if dt == "object-nan":
            data[c] = pd.Series([float("nan") if v is None else v for v in vals], dtype=object)
        else:
            data[c] = pd.Series(list(vals), dtype=dt)
    df = pd.DataFrame(data, columns=list(case["cols"]))
    ix = case.get("index")
    if ix is not None and len(ix) == len(df):
        # a table that is the result of a selection / sort / concat keeps its old row labels
        df.index = pd.Index(list(ix))
    return df


def eff_nm(case) -> dict:
    """the key map as the importer reads it: entries whose value is None / "None" are ignored"""
    return {k: v for k, v in case["nm"].items() if v is not None and v != "None"}


def _nm_cols(nm) -> list[str]:
    out = []
    for v in nm.values():
        if v is None or v == "None":
            continue
        out += v if isinstance(v, list) else [v]
    return out


def source_of_df(df: pd.DataFrame, nm: dict) -> dict:
    header = [str(c) for c in df.columns]
    idc, pc = nm.get("id"), nm.get("parent_id")
    n = len(df)
    cols = {c: df[c].tolist() for c in header}
    have_id = isinstance(idc, str) and idc in cols
    have_p = isinstance(pc, str) and pc in cols
    int_ids = bool(have_id and pd.api.types.is_integer_dtype(df[idc]))
    rows = []
    for i in range(n):
        it = idtok(cols[idc][i]) if have_id else str(i)
        pt = idtok(cols[pc][i]) if have_p else None
        rows.append({"id": it, "parent": pt, "cells": {c: val_of(cols[c][i]) for c in header}})
    return {"kind": "table", "header": header, "int_ids": int_ids, "rows": rows,
            "have_id": have_id, "have_parent": have_p}


def source_of_geff(case) -> dict:
    header = list(case["props"])
    nodes = []
    for i, nid in enumerate(case["node_ids"]):
        cells = {}
        for p in header:
            v = case["prop_values"][p][i]
            if v is None and p in case.get("optional", []):
                continue  # property missing on this node
            cells[p] = val_of(v)
        nodes.append({"id": int(nid), "cells": cells})
    return {"kind": "graph", "header": header, "nodes": nodes,
            "edges": [(int(u), int(v)) for u, v in case["edges"]]}


# ----------------------------------------------------------------------------------------
# real code


class _Hang(Exception):
    pass


def _alarm(signum, frame):  # pragma: no cover
    raise _Hang()


def _write_geff(case, path: Path) -> None:
    ft = _ft()
    ids = np.array(case["node_ids"], dtype=np.int64)
    edges = np.array(case["edges"], dtype=np.int64).reshape(-1, 2)
    props = {}
    for p in case["props"]:
        vals = case["prop_values"][p]
        missing = None
        if p in case.get("optional", []):
            missing = np.array([v is None for v in vals], dtype=bool)
            fill = next((v for v in vals if v is not None), 0.0)
            vals = [fill if v is None else v for v in vals]
            if not missing.any():
                missing = None
        kind = case["prop_kinds"][p]
        if kind == "int":
            arr = np.array(vals, dtype=np.int64)
        elif kind == "float":
            arr = np.array(vals, dtype=np.float64)
        elif kind == "str":
            arr = np.array(vals, dtype=str)
        else:  # "vec"
            arr = np.array(vals, dtype=np.float64).reshape(len(vals), -1)
        props[p] = {"values": arr, "missing": missing}
    eprops = {}
    for pname, d in (case.get("eprops") or {}).items():
        vals = d["values"]
        missing = None
        if any(v is None for v in vals):
            missing = np.array([v is None for v in vals], dtype=bool)
            fill = next((v for v in vals if v is not None), 0.0)
            vals = [fill if v is None else v for v in vals]
        eprops[pname] = {"values": np.array(vals, dtype=np.int64 if d["kind"] == "int" else np.float64), "missing": missing}
    md = ft["cum"](metadata=None, is_directed=True)
    md = ft["aup"](md, [ft["cpm"](identifier=k, prop_data=v) for k, v in props.items()], c_type="node")
    if eprops:
        md = ft["aup"](md, [ft["cpm"](identifier=k, prop_data=v) for k, v in eprops.items()], c_type="edge")
    ft["write_arrays"](path, ids, props, edges, eprops, md, structure_validation=False)


def run_real(case, timeout: float = 30.0) -> dict[str, Any]:
    """runs the import; returns status + the source the importer was given"""
    ft = _ft()
    nm = {k: (list(v) if isinstance(v, list) else v) for k, v in case["nm"].items()}
    tmp = None
    old = signal.signal(signal.SIGALRM, _alarm)
    signal.setitimer(signal.ITIMER_REAL, timeout)
    try:
        try:
            if case["kind"] == "df":
                df = build_df(case)
                src = source_of_df(df, nm)
                if case.get("deprecated_param"):
                    tracks = ft["tracks_from_df"](df.copy(), name_map=nm)   # deprecated spelling, still supported
                else:
                    tracks = ft["tracks_from_df"](df.copy(), node_name_map=nm)
            elif case["kind"] == "csv":
                tmp = tempfile.mkdtemp(prefix="ft_im_", dir="/tmp")
                path = Path(tmp) / "table.csv"
                written = build_df(case)
                written.to_csv(path, index=False)
                reread = pd.read_csv(path)
                src = source_of_df(reread, nm)
                src["ulp_bad"] = _ulp_check(written, reread)
                b = ft["CSVTracksBuilder"]()
                b.read_header(path)
                b.node_name_map = nm
                if case.get("reused_builder"):
                    # batch import: the same builder (header read once, key map set once) has built
                    # ANOTHER file with the same columns before
                    decoy = Path(tmp) / "earlier.csv"
                    written.iloc[:max(1, len(written) // 2)].to_csv(decoy, index=False)
                    try:
                        b.build(decoy)
                    except Exception:  # noqa: BLE001  (the earlier file need not be importable)
                        pass
                    b.node_name_map = {k: (list(v) if isinstance(v, list) else v) for k, v in nm.items()}
                tracks = b.build(path)
            else:
                tmp = tempfile.mkdtemp(prefix="ft_im_", dir="/tmp")
                path = Path(tmp) / "g.zarr"
                src = source_of_geff(case)
                _write_geff(case, path)
                kw = {"edge_name_map": dict(case["enm"])} if case.get("enm") else {}
                tracks = ft["import_from_geff"](path, node_name_map=nm, **kw)
        except _Hang:
            return {"status": "hang", "src": locals().get("src")}
        except Exception as e:  # noqa: BLE001
            return {"status": "err", "exc": type(e).__name__, "msg": str(e)[:300],
                    "src": locals().get("src")}
        g = tracks.graph

        def _nid(x):
            x = _plain(x)
            return x if isinstance(x, int) and not isinstance(x, bool) else "?" + repr(x)

        nodes = {_nid(n): dict(g.nodes[n]) for n in g.nodes}
        bad_ids = [k for k in nodes if not isinstance(k, int)]
        return {"status": "ok", "nodes": nodes, "edges": sorted(((_nid(u), _nid(v)) for u, v in g.edges),
                                key=lambda e: tuple((isinstance(x, str), x) for x in e)),
                "eattrs": {(_nid(u), _nid(v)): dict(d) for u, v, d in g.edges(data=True)},
                "bad_ids": bad_ids, "src": src}
    finally:
        signal.setitimer(signal.ITIMER_REAL, 0)
        signal.signal(signal.SIGALRM, old)
        if tmp is not None:
            shutil.rmtree(tmp, ignore_errors=True)


def _ulp_check(written: pd.DataFrame, reread: pd.DataFrame) -> int:
    bad = 0
    for c in written.columns:
        if c not in reread.columns or not pd.api.types.is_float_dtype(written[c]):
            continue
        if not pd.api.types.is_numeric_dtype(reread[c]):
            continue
        for a, b in zip(written[c].tolist(), reread[c].tolist()):
            if _isna(a) or _isna(b):
                continue
            if a != b and abs(a - b) > math.ulp(a):
                bad += 1
    return bad


ERR_PATTERNS = [
    (r"node_name_map must be set", "nmEmpty"),
    (r"cannot contain None values", "missingRequired"),
    (r"must contain 'pos' mapping", "posMissing"),
    (r"at least 2 coordinate columns", "posShort"),
    (r"non-existent properties", "unknownColumn"),
    (r"spatial dimensions\. Mapping:", "spatialDims"),
    (r"expected \d+ spatial dimensions\.", "dimsMismatch"),
    (r"'id' column must contain unique values", "dupId"),
    (r"parent ids do not refer to any node id", "unknownParent"),
    (r"invalid literal for int\(\)", "badInt"),
    (r"node ids are not unique", "dupNode"),
    (r"edges are missing nodes", "edgeUnknown"),
    (r"Self edges found", "selfEdge"),
    (r"Repeated edges found", "repeatedEdge"),
]


def err_kind(real) -> str:
    if real["exc"] != "ValueError":
        return "err:" + real["exc"]
    for pat, kind in ERR_PATTERNS:
        if re.search(pat, real["msg"]):
            return "err:" + kind
    return "err:ValueError?" + real["msg"][:40]


# ----------------------------------------------------------------------------------------
# oracle (independent reading of the property on the source)


def classify(case, src) -> dict:
    """what the property demands for this source: {'expect': 'refuse', 'why': […]} or
    {'expect': 'import', nodes, edges, attrs} or {'expect': 'none'} (outside the claim)"""
    nm = eff_nm(case)
    csvlike = src["kind"] == "table"
    why = []
    required = ["time", "id", "parent_id"] if csvlike else ["time"]
    for k in required + ["pos"]:
        if k not in nm:
            why.append("missing-key:" + k)
    for c in _nm_cols(nm):
        if c not in src["header"]:
            why.append("missing-column")
            break
    if why:
        return {"expect": "refuse", "why": why}
    if csvlike:
        rows = src["rows"]
        ids = [r["id"] for r in rows]
        if any(i is None or i in NO_PARENT for i in ids):
            return {"expect": "none", "why": ["sentinel-or-missing-id"]}
        idset = set(ids)
        if len(idset) != len(ids):
            why.append("duplicate-id")
        links = []
        for r in rows:
            p = r["parent"]
            if p is None or p in NO_PARENT:
                continue
            if p == r["id"]:
                why.append("self-link")
            elif p not in idset:
                why.append("unknown-parent")
            links.append((p, r["id"]))
        if why:
            return {"expect": "refuse", "why": sorted(set(why))}
        if src["int_ids"]:
            rho = {t: int(t) for t in ids}
        else:
            rho = {t: i + 1 for i, t in enumerate(ids)}
        nodes = [rho[t] for t in ids]
        edges = sorted((rho[p], rho[c]) for p, c in links)
        cells = [r["cells"] for r in rows]
    else:
        ids = [n["id"] for n in src["nodes"]]
        idset = set(ids)
        if len(idset) != len(ids):
            why.append("duplicate-id")
        for u, v in src["edges"]:
            if u == v:
                why.append("self-link")
            elif u not in idset or v not in idset:
                why.append("unknown-parent")
        if len(set(src["edges"])) != len(src["edges"]):
            return {"expect": "none", "why": ["repeated-edge"]}
        if why:
            return {"expect": "refuse", "why": sorted(set(why))}
        nodes = ids
        edges = sorted(src["edges"])
        cells = [n["cells"] for n in src["nodes"]]
    attrs = {}
    for nid, cl in zip(nodes, cells):
        a = {}
        for k, v in nm.items():
            if csvlike and k in ("id", "parent_id"):
                continue
            if isinstance(v, list):
                flat: list[str] = []
                for c in v:
                    kind, t = cl[c]
                    flat += t if kind == "v" else [t]
                a[k] = ("v", flat)
            elif v in cl:
                a[k] = cl[v]
        attrs[nid] = a
    return {"expect": "import", "nodes": nodes, "edges": edges, "attrs": attrs,
            "ids_valid": ids_valid(nodes, edges, attrs)}


def _idkind(src) -> str:
    if src["kind"] != "table":
        return "integer-ids"
    if src["int_ids"]:
        return "integer-ids"
    toks = [r["id"] for r in src["rows"] if r["id"] is not None]
    if toks and all(t.startswith("s") for t in toks):
        return "string-ids"
    if toks and all(not t.startswith("s") for t in toks):
        return "float-ids"
    return "mixed-ids"


def _reject_tag(case, src, real) -> str:
    nm = eff_nm(case)
    if real["exc"] != "ValueError":
        return real["exc"]
    if src["kind"] == "table":
        if not src["int_ids"] and (nm.get("id") != "id" or nm.get("parent_id") != "parent_id"):
            return "renamed-id-column|" + _idkind(src)
        if src["int_ids"] and any(r["parent"] in ("s", "s-1") for r in src["rows"]):
            return "empty-string-parent|integer-ids"
    return err_kind(real).replace("err:", "")


def oracle(case, real) -> list[tuple[str, str]]:
    kind = case["kind"]
    if real["status"] == "hang":
        return [(f"C12|{kind}|hang", "the import did not return within the watchdog")]
    src = real.get("src")
    if src is None:
        return [(f"C12|{kind}|harness-could-not-build-source", real.get("msg", ""))]
    exp = classify(case, src)
    out: list[tuple[str, str]] = []
    if kind == "csv" and src.get("ulp_bad"):
        out.append(("C12|csv|parser-beyond-1ulp", f"{src['ulp_bad']} float cells differ by more than 1 ulp after to_csv/read_csv"))
    if exp["expect"] == "none":
        return out
    if exp["expect"] == "refuse":
        if real["status"] == "err" and real["exc"] == "ValueError":
            return out
        why = exp["why"][0]
        label = {"duplicate-id": "duplicate-id-not-rejected", "unknown-parent": "unknown-parent-not-rejected",
                 "self-link": "self-link-not-rejected", "missing-column": "missing-column-not-rejected"}.get(
            why, "missing-required-key-not-rejected")
        if real["status"] == "err":
            return out + [(f"C12|{kind}|malformed-raises-{real['exc']}|{why}",
                           f"malformed source ({', '.join(exp['why'])}) raised {real['exc']}: {real['msg'][:120]} instead of ValueError")]
        sig = f"C12|{kind}|{label}"
        if why == "unknown-parent":
            sig += "|" + _idkind(src)
        return out + [(sig, f"malformed source ({', '.join(exp['why'])}) was imported: nodes {sorted(real['nodes'], key=str)[:8]} "
                            f"edges {real['edges'][:8]}")]
    # well-formed
    if real["status"] == "err":
        return out + [(f"C12|{kind}|wellformed-rejected|{_reject_tag(case, src, real)}",
                       f"well-formed source refused with {real['exc']}: {real['msg'][:160]}")]
    if real["bad_ids"]:
        out.append((f"C12|{kind}|node-id-not-integer", f"node ids {real['bad_ids'][:4]}"))
    if sorted(real["nodes"], key=str) != sorted(exp["nodes"], key=str):
        out.append((f"C12|{kind}|node-set-differs",
                    f"nodes {sorted(real['nodes'], key=str)[:10]} expected {sorted(exp['nodes'])[:10]}"))
        return out
    re_, ee = set(real["edges"]), set(exp["edges"])
    if ee - re_:
        out.append((f"C12|{kind}|edge-lost", f"source links {sorted(ee - re_)[:5]} are not edges of the result"))
    if re_ - ee:
        out.append((f"C12|{kind}|edge-extra", f"result edges {sorted(re_ - ee)[:5]} are not links of the source"))
    for nid in exp["nodes"]:
        got = real["nodes"][nid]
        for k, ev in exp["attrs"][nid].items():
            special = {"track_id": "mapped-track-id", "lineage_id": "mapped-lineage-id"}.get(k)
            if special and not exp["ids_valid"]:
                continue  # invalid ids are documented to be dropped and recomputed: no claim
            if k not in got:
                if ev == ("s", "na"):
                    continue
                out.append((f"C12|{kind}|{special}-missing" if special else f"C12|{kind}|attr-missing",
                            f"node {nid} has no attribute '{k}' (source {ev})"))
                return out
            gv = val_of(got[k])
            if gv != ev:
                out.append((f"C12|{kind}|{special}-differs" if special else f"C12|{kind}|attr-differs",
                            f"node {nid} attribute '{k}': {gv} expected {ev} (source column "
                            f"'{case['nm'][k]}' holds valid ids)" if special else
                            f"node {nid} attribute '{k}': {gv} expected {ev}"))
                return out
    # edge properties (GEFF stores): every mapped property on every edge, under the standard key
    if case.get("enm") and "eattrs" in real:
        for key, pname in case["enm"].items():
            if pname is None or pname == "None":
                continue
            vals = case["eprops"][pname]["values"]
            for (u, v), sv in zip(case["edges"], vals):
                got = real["eattrs"].get((int(u), int(v)))
                if got is None:
                    continue  # reported above as edge-lost
                if sv is None:
                    if got.get(key) is not None and not _isna(got.get(key)):
                        out.append((f"C12|{kind}|edge-attr-invented", f"edge {(u, v)} has '{key}' = {got.get(key)!r}; the source has no value there"))
                        return out
                    continue
                if key not in got or got[key] is None:
                    out.append((f"C12|{kind}|edge-attr-missing", f"edge {(u, v)} has no attribute '{key}' (source property '{pname}' = {sv})"))
                    return out
                if val_of(got[key]) != val_of(sv):
                    out.append((f"C12|{kind}|edge-attr-differs", f"edge {(u, v)} attribute '{key}': {val_of(got[key])} expected {val_of(sv)}"))
                    return out
    return out


# ----------------------------------------------------------------------------------------
# model line / canonical strings


def _hx_val(v) -> list[str]:
    kind, t = v
    if kind == "s":
        return ["s", hexs(t)]
    return ["v", str(len(t))] + [hexs(x) for x in t]


def _hx_cells(cells: dict, order: list[str]) -> list[str]:
    ks = [c for c in order if c in cells]
    toks = [str(len(ks))]
    for c in ks:
        toks += [hexs(c)] + _hx_val(cells[c])
    return toks


def model_line(case, src, mode: str = "fixed") -> str | None:
    """None when the case is outside the model's input language"""
    ft = _ft()
    nm = eff_nm(case)
    if "track_id" in nm or "lineage_id" in nm:
        # the model carries these columns like any other; the real code carries them only when
        # they are valid (validity check = geff.validate, opaque) — generators produce valid ids
        exp = classify(case, src)
        if exp["expect"] == "import" and not exp["ids_valid"]:
            return None
    toks = [str(len(ft["spatial"]))] + [hexs(k) for k in ft["spatial"]]
    toks.append(str(len(nm)))
    for k, v in nm.items():
        if isinstance(v, list):
            if not v:
                return None
            toks += [hexs(k), "1", str(len(v))] + [hexs(c) for c in v]
        elif isinstance(v, str):
            toks += [hexs(k), "0", hexs(v)]
        else:
            return None
    toks += [str(len(src["header"]))] + [hexs(c) for c in src["header"]]
    if src["kind"] == "table":
        rows = src["rows"]
        if src["int_ids"]:
            for r in rows:
                if r["id"] is None or not re.fullmatch(r"-?\d+", r["id"]):
                    return None
                if r["parent"] is not None and not (re.fullmatch(r"-?\d+", r["parent"]) or r["parent"] in NO_PARENT):
                    return None
        elif any(r["id"] is None for r in rows) and src["have_id"]:
            return None
        head = ["IM", "csv", mode]
        toks += ["1" if src["int_ids"] else "0", str(len(rows))]
        for r in rows:
            toks.append(hexs(r["id"] if r["id"] is not None else "0"))
            toks.append("~" if r["parent"] is None else hexs(r["parent"]))
            toks += _hx_cells(r["cells"], src["header"])
    else:
        head = ["IM", "geff"]
        toks.append(str(len(src["nodes"])))
        for n in src["nodes"]:
            toks.append(str(n["id"]))
            toks += _hx_cells(n["cells"], src["header"])
        toks.append(str(len(src["edges"])))
        for u, v in src["edges"]:
            toks += [str(u), str(v)]
    return " ".join(head + toks)


def _hx_rmap(m: dict) -> list[str] | None:
    toks = [str(len(m))]
    for k, v in m.items():
        if v is None:
            toks += [hexs(k), "2"]
        elif isinstance(v, list):
            toks += [hexs(k), "1", str(len(v))] + [hexs(c) for c in v]
        elif isinstance(v, str):
            toks += [hexs(k), "0", hexs(v)]
        else:
            return None
    return toks


def model_line_x(case, src) -> str | None:
    """the extended import model (FtModel/ImportExt.lean, family IMX, package R8I): GEFF stores that are
    imported with an edge key map and / or blank (None) entries in the node key map, through
    `import_from_geff` (entry `w`)"""
    if src is None or src.get("kind") != "graph" or not case.get("enm"):
        return None
    ft = _ft()
    nm = eff_nm(case)
    if "track_id" in nm or "lineage_id" in nm:
        exp = classify(case, src)
        if exp["expect"] == "import" and not exp["ids_valid"]:
            return None
    rm, em = _hx_rmap(case["nm"]), _hx_rmap(case["enm"])
    if rm is None or em is None:
        return None
    toks = ["IMX", "geff", "w", str(len(ft["spatial"]))] + [hexs(k) for k in ft["spatial"]]
    toks += rm + [str(len(src["header"]))] + [hexs(c) for c in src["header"]]
    eh = list(case.get("eprops") or {})
    toks += em + [str(len(eh))] + [hexs(c) for c in eh]
    toks.append(str(len(src["nodes"])))
    for n in src["nodes"]:
        toks.append(str(n["id"]))
        toks += _hx_cells(n["cells"], src["header"])
    toks.append(str(len(src["edges"])))
    for i, (u, v) in enumerate(src["edges"]):
        cells = {pn: val_of(d["values"][i]) for pn, d in (case.get("eprops") or {}).items() if d["values"][i] is not None}
        toks += [str(u), str(v)] + _hx_cells(cells, eh)
    return " ".join(toks)


def canon_real_x(case, real) -> str:
    if real["status"] == "hang":
        return "hang"
    if real["status"] == "err":
        if real["exc"] == "GroupNotFoundError":
            return "err:GroupNotFoundError"
        if real["exc"] == "ValueError":
            if re.search(r"edge_name_map contains mappings to non-existent", real["msg"]):
                return "err:edgeUnknownColumn"
            if re.search(r"cannot be shared between nodes and edges", real["msg"]):
                return "err:keyCollision"
        return err_kind(real)
    base = canon_real(case, real).split(" ")
    i = base.index("edges")
    toks = base[:i] + ["edges", str(len(real["edges"]))]
    for u, v in real["edges"]:
        a = real["eattrs"].get((u, v), {})
        es = sorted((hexs(k), _hx_val(val_of(x))) for k, x in a.items() if x is not None and not _isna(x))
        toks += [str(u), str(v), str(len(es))]
        for k, x in es:
            toks += [k] + x
    return " ".join(toks)


def canon_real(case, real) -> str:
    if real["status"] == "hang":
        return "hang"
    if real["status"] == "err":
        return err_kind(real)
    nm = eff_nm(case)
    toks = ["ok", "nodes", str(len(real["nodes"]))]
    for nid in sorted(real["nodes"], key=lambda x: (isinstance(x, str), x)):
        a = {k: v for k, v in real["nodes"][nid].items() if not (k in ("track_id", "lineage_id") and k not in nm)}
        es = sorted((hexs(k), _hx_val(val_of(v))) for k, v in a.items())
        toks += [str(nid), str(len(es))]
        for k, v in es:
            toks += [k] + v
    toks += ["edges", str(len(real["edges"]))]
    for u, v in real["edges"]:
        toks += [str(u), str(v)]
    return " ".join(toks)


# ----------------------------------------------------------------------------------------
# generators

TIME_NAMES = ["time", "t", "frame", "T"]
AXIS_NAMES = [["z", "y", "x"], ["Z", "Y", "X"], ["pz", "py", "px"], ["c0", "c1", "c2"], ["depth", "row", "col"]]
ID_NAMES = ["id", "node", "ID", "cell"]
PARENT_NAMES = ["parent_id", "par", "mother", "parent"]
CUSTOM_KEYS = ["score", "intensity", "cls", "quality", "marker", "note"]
LIST_KEYS = ["vec", "feat2", "axes", "moments"]
EXTRA_COLS = ["extra", "unused", "comment", "w0"]


TRACK_COLS = ["track_id", "trk", "tracklet", "TrackID"]
LINEAGE_COLS = ["lineage_id", "lin", "clone", "LineageID"]


def _components(n: int, pairs) -> list[int]:
    """union-find: component representative per index"""
    rep = list(range(n))

    def find(a):
        while rep[a] != a:
            rep[a] = rep[rep[a]]
            a = rep[a]
        return a

    for a, b in pairs:
        ra, rb = find(a), find(b)
        if ra != rb:
            rep[ra] = rb
    return [find(i) for i in range(n)]


def segments_and_lineages(n: int, links) -> tuple[list[int], list[int]]:
    """links = (parent index, child index).  Tracklet = maximal unbranched segment (out-edges of
    dividing nodes removed); lineage = weakly connected component."""
    outdeg = [0] * n
    for p_, _c in links:
        outdeg[p_] += 1
    seg = _components(n, [(p_, c) for p_, c in links if outdeg[p_] == 1])
    lin = _components(n, links)
    return seg, lin


def gen_track_lineage(rng: random.Random, parent: list) -> tuple[list[int], list[int], bool]:
    """VALID, NON-CANONICAL ids: random non-contiguous values, constant exactly on each segment /
    component, distinct across them, not the assignment 1..k"""
    n = len(parent)
    links = [(p_, i) for i, p_ in enumerate(parent) if p_ is not None]
    seg, lin = segments_and_lineages(n, links)

    def label(comp):
        reps = sorted(set(comp))
        k = len(reps)
        vals = rng.sample(range(1, 6 * k + 40), k)
        if k and max(vals) <= k:
            vals[rng.randrange(k)] = k + rng.randint(1, 30)
        m = dict(zip(reps, vals))
        return [m[c] for c in comp]

    outdeg = [0] * n
    for p_, _c in links:
        outdeg[p_] += 1
    return label(seg), label(lin), any(d >= 2 for d in outdeg)


def ids_valid(nodes: list, edges: list, attrs: dict) -> bool:
    """are the mapped track_id / lineage_id values of the source valid (the property only speaks
    about them then; invalid ids are documented to be dropped with a warning and recomputed)"""
    idx = {nid: i for i, nid in enumerate(nodes)}
    links = [(idx[u], idx[v]) for u, v in edges]
    seg, lin = segments_and_lineages(len(nodes), links)
    for key, comp in (("track_id", seg), ("lineage_id", lin)):
        if not nodes or key not in attrs[nodes[0]]:
            continue
        vals = []
        for nid in nodes:
            v = attrs[nid].get(key)
            if v is None or v[0] != "s" or not re.fullmatch(r"n-?\d+", v[1]):
                return False
            vals.append(v[1])
        by_comp: dict[int, str] = {}
        for c, v in zip(comp, vals):
            if by_comp.setdefault(c, v) != v:
                return False
        if len(set(by_comp.values())) != len(by_comp):
            return False
    return True


def gen_forest(rng: random.Random, n: int) -> tuple[list[int | None], list[int]]:
    """parent index per node (None = root), time per node; any forest shape"""
    parent: list[int | None] = []
    times: list[int] = []
    p_root = rng.choice([0.15, 0.3, 0.6])
    for i in range(n):
        if i == 0 or rng.random() < p_root:
            parent.append(None)
            times.append(rng.randint(0, 3))
        else:
            p = rng.randrange(i)
            parent.append(p)
            times.append(times[p] + rng.choice([1, 1, 1, 2]))
    return parent, times


def gen_ids(rng: random.Random, n: int, kind: str) -> list:
    if kind == "int":
        pool = rng.choice([range(0, 3 * n + 4), range(1, n + 1), range(5, 10 ** 6)])
        ids = rng.sample(pool, n)
        return ids
    if kind == "float-integral":
        return [float(x) for x in rng.sample(range(0, 3 * n + 4), n)]
    if kind == "float":
        return [x + rng.choice([0.5, 0.25, 0.125]) for x in rng.sample(range(0, 3 * n + 4), n)]
    if kind == "str-int":
        return [str(x) for x in rng.sample(range(0, 3 * n + 4), n)]
    pref = rng.choice(["c", "cell_", "n", ""])
    if pref == "":
        names = rng.sample(["a", "b", "c", "d", "e", "f", "g", "h", "k", "m", "p", "q"], n)
        return names
    return [f"{pref}{x}" for x in rng.sample(range(0, 3 * n + 4), n)]


def _float(rng: random.Random) -> float:
    x = rng.random()
    if x < 0.3:
        return float(rng.randint(0, 20))
    if x < 0.6:
        return rng.randint(0, 400) / 8.0
    if x < 0.9:
        return round(rng.uniform(0, 100), rng.choice([1, 3, 6]))
    return rng.choice([1 / 3, 0.1, 1e-7, 123456.789, 2.5e10])


def gen_table(rng: random.Random, kind: str, intensify: bool = False) -> dict:
    """a well-formed table + valid name map"""
    n = rng.choice([0, 1, 2, 2, 3, 3, 4, 5, 6, 8]) if not intensify else rng.choice([2, 3, 4, 5])
    parent, times = gen_forest(rng, n)
    id_kind = rng.choice(["int", "int", "int", "str", "str", "str-int", "float", "float-integral"])
    if intensify:
        id_kind = rng.choice(["str", "str-int", "float", "float-integral", "int"])
    ids = gen_ids(rng, n, id_kind)
    renamed_ids = rng.random() < 0.35
    idc = rng.choice(ID_NAMES[1:]) if renamed_ids else "id"
    pc = rng.choice(PARENT_NAMES[1:]) if (renamed_ids and rng.random() < 0.8) else "parent_id"
    tc = rng.choice(TIME_NAMES)
    nd = rng.choice([2, 2, 3])
    axes = rng.choice(AXIS_NAMES)[-nd:]
    # parent column
    if id_kind == "int":
        enc = rng.choice(["-1", "-1", "nan", "none-obj", "empty-obj", "NA"])
        if kind == "df" and enc in ("-1", "empty-obj") and n and rng.random() < 0.15:
            # ids beyond 2**53 (hash-like / packed ids): exact in an int64 or object column, not in
            # a float64 one — so only with the root encodings that keep the parent column exact
            base = 2 ** 53 + rng.randrange(0, 1000)
            ids = [base + k for k in rng.sample(range(0, 3 * n + 4), n)]
    elif id_kind in ("str", "str-int"):
        enc = rng.choice(["empty", "empty", "none", "-1str", "-1obj", "nan-obj"])
    else:
        enc = rng.choice(["nan", "nan", "-1", "empty-obj", "none-obj"])
    pvals: list = []
    for i in range(n):
        pvals.append(None if parent[i] is None else ids[parent[i]])
    pdtype = "object"
    root: Any = None
    if enc == "-1":
        root = -1 if id_kind == "int" else -1.0
        pdtype = "int64" if id_kind == "int" else "float64"
    elif enc == "nan":
        root, pdtype = None, "float64"
        pvals = [None if v is None else float(v) for v in pvals]
    elif enc == "NA":
        root, pdtype = None, "Int64"
    elif enc == "none-obj":
        root, pdtype = None, "object"
    elif enc == "nan-obj":
        root, pdtype = None, "object-nan"
    elif enc == "empty-obj":
        root, pdtype = "", "object"
    elif enc == "empty":
        root, pdtype = "", "str"
    elif enc == "none":
        root, pdtype = None, "str"
    elif enc == "-1str":
        root, pdtype = "-1", "str"
    elif enc == "-1obj":
        root, pdtype = -1, "object"
    pvals = [root if v is None else v for v in pvals]
    if n == 0:
        pdtype = rng.choice(["int64", "float64", "object"])
    id_dtype = {"int": rng.choice(["int64", "int64", "int32", "uint16"]), "float": "float64",
                "float-integral": "float64", "str": "str", "str-int": "str"}[id_kind]
    if id_kind == "int" and (min(ids, default=0) < 0 or max(ids, default=0) > 60000):
        id_dtype = "int64"
    cols: list[tuple[str, str, list]] = [
        (tc, "int64", list(times)),
    ]
    for a in axes:
        cols.append((a, "float64", [_float(rng) for _ in range(n)]))
    cols.append((idc, id_dtype, list(ids)))
    cols.append((pc, pdtype, pvals))
    nm: dict[str, Any] = {"time": tc, "pos": list(axes), "id": idc, "parent_id": pc}
    # custom scalar properties
    for key in rng.sample(CUSTOM_KEYS, rng.choice([0, 1, 1, 2, 3])):
        cname = key if rng.random() < 0.4 else key + "_col"
        t = rng.choice(["float", "float-nan", "int", "str"])
        if t == "float":
            vals, dt = [_float(rng) for _ in range(n)], "float64"
        elif t == "float-nan":
            vals, dt = [None if rng.random() < 0.3 else _float(rng) for _ in range(n)], "float64"
            if n and all(v is None for v in vals):
                vals[rng.randrange(n)] = _float(rng)  # an entirely empty column is outside the claim
        elif t == "int":
            vals, dt = [rng.randint(-5, 500) for _ in range(n)], "int64"
        else:
            vals, dt = [rng.choice(["a", "b", "wt", "mut", "x y", "7", "#ff00aa", "clone #1"]) for _ in range(n)], "str"
        cols.append((cname, dt, vals))
        nm[key] = cname
    # list-mapped custom properties
    for key in rng.sample(LIST_KEYS, rng.choice([0, 0, 1, 1, 2])):
        k = rng.choice([2, 2, 3, 1])
        names = [f"{key}_{j}" for j in range(k)]
        for nme in names:
            t = rng.choice(["float", "float", "int"])
            vals = [_float(rng) for _ in range(n)] if t == "float" else [rng.randint(0, 50) for _ in range(n)]
            cols.append((nme, "float64" if t == "float" else "int64", vals))
        if k >= 2 and rng.random() < 0.1:
            names = names + [names[0]]  # a column used twice inside one list (allowed by the tests)
        nm[key] = names
    # valid, non-canonical track / lineage ids (also under renamed column names)
    tl = "none"
    has_div = False
    if rng.random() < (0.45 if not intensify else 0.7):
        tids, lids, has_div = gen_track_lineage(rng, parent)
        tl = rng.choice(["both", "both", "both", "both", "track-only", "lineage-only"])
        if tl != "lineage-only":
            cname = rng.choice(TRACK_COLS)
            cols.append((cname, "int64", tids))
            nm["track_id"] = cname
        if tl != "track-only":
            cname = rng.choice(LINEAGE_COLS)
            cols.append((cname, "int64", lids))
            nm["lineage_id"] = cname
    # two keys, one column / seg_id
    if rng.random() < 0.15 and len(nm) > 4:
        srckey = rng.choice([k for k in nm if k not in ("id", "parent_id", "pos", "time") and isinstance(nm[k], str)] or ["time"])
        nm["copy_of_" + srckey] = nm[srckey]
    if rng.random() < 0.2:
        if id_kind == "int" and rng.random() < 0.5:
            nm["seg_id"] = idc
        else:
            cols.append(("label", "int64", rng.sample(range(1, 5 * n + 5), n)))
            nm["seg_id"] = "label"
    if rng.random() < 0.15 and nd == 2:
        # a composite column is also imported on its own under another key
        nm["row_copy"] = axes[0]
    # unmapped extra columns
    for c in rng.sample(EXTRA_COLS, rng.choice([0, 0, 1, 2])):
        cols.append((c, "float64", [_float(rng) for _ in range(n)]))
    order = list(range(len(cols)))
    if rng.random() < 0.5:
        rng.shuffle(order)
    cols = [cols[i] for i in order]
    keys = list(nm)
    if rng.random() < 0.6:
        rng.shuffle(keys)
    nm = {k: nm[k] for k in keys}
    # row order
    perm = list(range(n))
    if rng.random() < 0.5:
        rng.shuffle(perm)
    case = {"kind": kind, "cols": [c for c, _, _ in cols], "dtypes": [d for _, d, _ in cols],
            "values": [[vals[i] for i in perm] for _, _, vals in cols], "nm": nm}
    # row labels of the DataFrame: default RangeIndex, or what a boolean-mask selection, a sort or
    # a concat leaves behind (gaps, a permutation, an offset, repeated labels)
    r = rng.random()
    if n and r < 0.35:
        style = rng.choice(["gaps", "perm", "offset", "repeat"])
        if style == "gaps":
            case["index"] = sorted(rng.sample(range(3 * n + 2), n))
        elif style == "perm":
            case["index"] = rng.sample(range(n), n)
        elif style == "offset":
            o = rng.randint(1, 50)
            case["index"] = list(range(o, o + n))
        else:
            case["index"] = [rng.randrange(max(1, n // 2)) for _ in range(n)]
    if kind == "df" and rng.random() < 0.1:
        case["deprecated_param"] = True
    if kind == "csv" and n >= 2 and rng.random() < 0.3:
        case["reused_builder"] = True
    case["_tags"] = {"ids": id_kind, "enc": enc, "renamed_ids": renamed_ids, "nd": nd, "n": n,
                     "index": "default" if "index" not in case else "custom",
                     "links": sum(1 for p in parent if p is not None),
                     "list_keys": sum(1 for v in nm.values() if isinstance(v, list)) - 1,
                     "malformation": "none", "tl": tl, "division": has_div}
    return case


def _col(case, name):
    return case["cols"].index(name)


def inject(rng: random.Random, case: dict) -> dict | None:
    """one malformation at a random row / key; None when not applicable"""
    nm = case["nm"]
    n = len(case["values"][0]) if case["values"] else 0
    tags = case["_tags"]
    kinds = ["dup", "unknown", "self", "drop-column", "drop-key", "nm-unknown"]
    m = rng.choice(kinds)
    ic, pcn = _col(case, nm["id"]), _col(case, nm["parent_id"])
    ids, par = case["values"][ic], case["values"][pcn]
    if m == "dup":
        if n < 2:
            return None
        i, j = rng.sample(range(n), 2)
        ids[j] = ids[i]
    elif m == "unknown":
        if n < 1:
            return None
        i = rng.randrange(n)
        k = tags["ids"]
        if k == "int":
            v: Any = max(ids) + rng.randint(1, 9)
            if case["dtypes"][pcn] in ("float64",):
                v = float(v)
        elif k in ("float", "float-integral"):
            v = max(ids) + rng.choice([1.0, 0.75, 3.0])
        elif k == "str-int":
            v = str(max(int(x) for x in ids) + rng.randint(1, 9))
            if rng.random() < 0.5:
                pool = [c for c in ["1", "-", "0", "-2", "1-", "--1", "-11", "11"] if c not in {str(x) for x in ids}]
                v = rng.choice(pool)
        else:
            # besides arbitrary names: texts that LOOK like a "no parent" marker or like part of one
            # (a substring / prefix test instead of an equality test would accept them), and proper
            # substrings of real ids
            pool = ["zzz", "ghost", "cell_x", "nobody", "1", "-", "0", "-2", "1-", "--1", "-1-", "-11", "x"]
            real = [str(x) for x in ids if len(str(x)) > 1]
            if real:
                r_ = rng.choice(real)
                pool += [r_[:-1], r_[1:], r_ + "_"]
            pool = [c for c in pool if c not in {str(x) for x in ids} and c not in ("", "-1")]
            v = rng.choice(pool)
        if case["dtypes"][pcn] == "int64" and not isinstance(v, int):
            return None
        par[i] = v
    elif m == "self":
        if n < 1:
            return None
        i = rng.randrange(n)
        v = ids[i]
        if case["dtypes"][pcn] == "float64":
            v = float(v)
        par[i] = v
    elif m == "drop-column":
        victims = sorted(set(_nm_cols(nm)))
        c = rng.choice(victims)
        i = _col(case, c)
        for key in ("cols", "dtypes", "values"):
            del case[key][i]
        tags["dropped"] = c
    elif m == "drop-key":
        k = rng.choice(["time", "id", "parent_id", "pos"])
        del nm[k]
        tags["dropped"] = k
    else:
        k = rng.choice(list(nm))
        if isinstance(nm[k], list):
            j = rng.randrange(len(nm[k]))
            nm[k] = nm[k][:j] + ["no_such_column"] + nm[k][j + 1:]
        else:
            nm[k] = "no_such_column"
    tags["malformation"] = m
    return case


def gen_geff(rng: random.Random, intensify: bool = False) -> dict:
    n = rng.choice([1, 2, 3, 3, 4, 5, 6, 8])
    parent, times = gen_forest(rng, n)
    ids = rng.sample(rng.choice([range(0, 3 * n + 4), range(1, n + 1), range(5, 10 ** 6)]), n)
    tc = rng.choice(TIME_NAMES)
    nd = rng.choice([2, 2, 3])
    props: list[str] = [tc]
    kinds = {tc: "int"}
    values: dict[str, list] = {tc: list(times)}
    nm: dict[str, Any] = {"time": tc}
    optional: list[str] = []
    if rng.random() < 0.3:
        pname = rng.choice(["pos", "position", "centroid"])
        props.append(pname)
        kinds[pname] = "vec"
        values[pname] = [[_float(rng) for _ in range(nd)] for _ in range(n)]
        nm["pos"] = pname
        posmode = "single-key"
    else:
        axes = rng.choice(AXIS_NAMES)[-nd:]
        for a in axes:
            props.append(a)
            kinds[a] = "float"
            values[a] = [_float(rng) for _ in range(n)]
        nm["pos"] = list(axes)
        posmode = "list"
    for key in rng.sample(CUSTOM_KEYS, rng.choice([0, 1, 2, 3])):
        cname = key if rng.random() < 0.4 else key + "_prop"
        t = rng.choice(["float", "int", "str", "float-opt"])
        props.append(cname)
        if t == "float":
            kinds[cname], values[cname] = "float", [_float(rng) for _ in range(n)]
        elif t == "float-opt":
            kinds[cname] = "float"
            values[cname] = [None if rng.random() < 0.4 else _float(rng) for _ in range(n)]
            if all(v is None for v in values[cname]):
                values[cname][rng.randrange(n)] = _float(rng)
            optional.append(cname)
        elif t == "int":
            kinds[cname], values[cname] = "int", [rng.randint(-5, 500) for _ in range(n)]
        else:
            kinds[cname], values[cname] = "str", [rng.choice(["a", "b", "wt", "mut", "xy"]) for _ in range(n)]
        nm[key] = cname
    for key in rng.sample(LIST_KEYS, rng.choice([0, 0, 1, 2])):
        names = [f"{key}_{j}" for j in range(rng.choice([2, 2, 3]))]
        for nme in names:
            props.append(nme)
            kinds[nme], values[nme] = "float", [_float(rng) for _ in range(n)]
        nm[key] = names
    if rng.random() < 0.2:
        props.append("label")
        kinds["label"], values["label"] = "int", rng.sample(range(1, 5 * n + 5), n)
        nm["seg_id"] = "label"
    tl = "none"
    has_div = False
    if rng.random() < (0.45 if not intensify else 0.7):
        tids, lids, has_div = gen_track_lineage(rng, parent)
        tl = rng.choice(["both", "both", "both", "both", "track-only", "lineage-only"])
        if tl != "lineage-only":
            cname = rng.choice(TRACK_COLS)
            props.append(cname)
            kinds[cname], values[cname] = "int", tids
            nm["track_id"] = cname
        if tl != "track-only":
            cname = rng.choice(LINEAGE_COLS)
            props.append(cname)
            kinds[cname], values[cname] = "int", lids
            nm["lineage_id"] = cname
    for c in rng.sample(EXTRA_COLS, rng.choice([0, 0, 1])):
        props.append(c)
        kinds[c], values[c] = "float", [_float(rng) for _ in range(n)]
    edges = [[ids[p], ids[i]] for i, p in enumerate(parent) if p is not None]
    rng.shuffle(edges)
    keys = list(nm)
    if rng.random() < 0.6:
        rng.shuffle(keys)
    nm = {k: nm[k] for k in keys}
    perm = list(range(n))
    rng.shuffle(perm)
    case = {"kind": "geff", "node_ids": [ids[i] for i in perm], "edges": edges, "props": props,
            "prop_kinds": kinds, "prop_values": {p: [values[p][i] for i in perm] for p in props},
            "optional": optional, "nm": nm}
    # edge properties with their own key map (renamed / same name / partly missing values)
    if edges and rng.random() < 0.5:
        eprops: dict[str, Any] = {}
        enm: dict[str, str] = {}
        for key in rng.sample(["w", "iou", "conf"], rng.randint(1, 2)):
            pname = key if rng.random() < 0.4 else key + "_e"
            kind = rng.choice(["float", "int", "float-opt"])
            if kind == "int":
                vals: list = [rng.randint(-3, 90) for _ in edges]
            else:
                vals = [_float(rng) for _ in edges]
            if kind == "float-opt" and len(edges) > 1:
                for j in rng.sample(range(len(edges)), rng.randint(1, len(edges) - 1)):
                    vals[j] = None
            eprops[pname] = {"kind": "int" if kind == "int" else "float", "values": vals}
            enm[key] = pname
        if rng.random() < 0.3:
            eprops["unmapped_e"] = {"kind": "float", "values": [_float(rng) for _ in edges]}
        if rng.random() < 0.3:
            # two standard keys read from ONE stored property (allowed for nodes and for edges)
            k0 = next(iter(enm))
            enm["copy_of_" + k0] = enm[k0]
        case["eprops"], case["enm"] = eprops, enm
    if rng.random() < 0.2:
        # entries whose value is None / "None" ("this standard key is not in the source"): ignored
        for k_ in rng.sample(["lineage_id", "track_id", "seg_id", "circularity"], rng.randint(1, 2)):
            if k_ not in case["nm"]:
                case["nm"][k_] = rng.choice([None, "None"])
        if case.get("enm") is not None and rng.random() < 0.5:
            case["enm"]["iou_unused"] = rng.choice([None, "None"])
    case["_tags"] = {"ids": "int", "enc": "geff", "renamed_ids": False, "nd": nd, "n": n,
                     "edge_props": len(case.get("eprops", {})),
                     "links": len(edges), "list_keys": sum(1 for v in nm.values() if isinstance(v, list)) - (posmode == "list"),
                     "malformation": "none", "posmode": posmode, "tl": tl, "division": has_div}
    return case


def inject_geff(rng: random.Random, case: dict) -> dict | None:
    case.pop("eprops", None)
    case.pop("enm", None)
    case["nm"] = eff_nm(case)
    nm = case["nm"]
    ids = case["node_ids"]
    n = len(ids)
    m = rng.choice(["dup", "unknown", "self", "drop-key", "nm-unknown", "drop-column"])
    if m == "dup":
        if n < 2:
            return None
        i, j = rng.sample(range(n), 2)
        old = ids[j]
        ids[j] = ids[i]
        case["edges"] = [[ids[i] if u == old else u, ids[i] if v == old else v] for u, v in case["edges"]]
        case["edges"] = [e for e in case["edges"] if e[0] != e[1]]
        seen = []
        for e in case["edges"]:
            if e not in seen:
                seen.append(e)
        case["edges"] = seen
    elif m == "unknown":
        ghost = max(ids) + rng.randint(1, 9)
        if rng.random() < 0.5:
            case["edges"].append([ghost, rng.choice(ids)])
        else:
            case["edges"].append([rng.choice(ids), ghost])
    elif m == "self":
        v = rng.choice(ids)
        case["edges"].append([v, v])
    elif m == "drop-key":
        k = rng.choice(["time", "pos"])
        del nm[k]
    elif m == "drop-column":
        c = rng.choice(sorted(set(_nm_cols(nm))))
        case["props"].remove(c)
        case["prop_kinds"].pop(c)
        case["prop_values"].pop(c)
        if c in case["optional"]:
            case["optional"].remove(c)
    else:
        k = rng.choice(list(nm))
        if isinstance(nm[k], list):
            j = rng.randrange(len(nm[k]))
            nm[k] = nm[k][:j] + ["no_such_prop"] + nm[k][j + 1:]
        else:
            nm[k] = "no_such_prop"
    case["_tags"]["malformation"] = m
    return case


def gen_case(rng: random.Random, intensify: bool = False) -> dict:
    x = rng.random()
    if x < 0.25:
        case = gen_geff(rng, intensify)
        if rng.random() < 0.35:
            c2 = inject_geff(rng, case)
            case = c2 if c2 is not None else case
        return case
    kind = "csv" if rng.random() < 0.3 else "df"
    case = gen_table(rng, kind, intensify)
    if rng.random() < (0.4 if not intensify else 0.6):
        c2 = inject(rng, case)
        case = c2 if c2 is not None else case
    return case


def strip(case: dict) -> dict:
    return {k: v for k, v in case.items() if not k.startswith("_")}


# ----------------------------------------------------------------------------------------
# shrinking


def _variants(case: dict):
    nm = case["nm"]
    if case["kind"] == "geff":
        n = len(case["node_ids"])
        for i in range(n if n > 1 else 0):  # keep one node (an empty store cannot be written)
            c = json.loads(json.dumps(case))
            nid = c["node_ids"].pop(i)
            for p in c["props"]:
                c["prop_values"][p].pop(i)
            # keep dangling edges only if they were dangling before
            yield c
            c2 = json.loads(json.dumps(c))
            c2["edges"] = [e for e in c2["edges"] if nid not in e]
            yield c2
        for j in range(len(case["edges"])):
            c = json.loads(json.dumps(case))
            c["edges"].pop(j)
            yield c
        mapped = set(_nm_cols(nm))
        for p in case["props"]:
            if p not in mapped:
                c = json.loads(json.dumps(case))
                c["props"].remove(p)
                c["prop_kinds"].pop(p)
                c["prop_values"].pop(p)
                if p in c["optional"]:
                    c["optional"].remove(p)
                yield c
    else:
        n = len(case["values"][0]) if case["values"] else 0
        for i in range(n):
            c = json.loads(json.dumps(case))
            for col in c["values"]:
                col.pop(i)
            yield c
        mapped = set(_nm_cols(nm))
        for j, cname in enumerate(case["cols"]):
            if cname not in mapped:
                c = json.loads(json.dumps(case))
                for key in ("cols", "dtypes", "values"):
                    del c[key][j]
                yield c
        if case["kind"] == "csv":
            c = json.loads(json.dumps(case))
            c["kind"] = "df"
            yield c
    for k in list(nm):
        if k not in ("time", "pos", "id", "parent_id"):
            c = json.loads(json.dumps(case))
            del c["nm"][k]
            yield c


def shrink(case: dict, pred, budget: int = 250) -> dict:
    cur = strip(case)
    progress = True
    n = 0
    import time as _t
    t0_ = _t.time()   # wall-clock limit: a change that makes every evaluation slow must not stall the check
    while progress and n < budget and _t.time() - t0_ < 60:
        progress = False
        for cand in _variants(cur):
            n += 1
            if n >= budget or _t.time() - t0_ >= 60:
                break
            try:
                if pred(cand):
                    cur = cand
                    progress = True
                    break
            except Exception:  # noqa: BLE001
                continue
    return cur


def _oracle_sigs(case) -> list[tuple[str, str]]:
    return oracle(case, run_real(case))


def _diverges(case, drv: Driver) -> tuple[bool, str, str]:
    real = run_real(case)
    if real.get("src") is None:
        return False, "", ""
    line = model_line(case, real["src"])
    if line is None:
        return False, "", ""
    m = drv.run([line])[0]
    r = canon_real(case, real)
    return m != r, r, m


def _div_kind(r: str, m: str) -> str:
    if r.split(" ")[0] != m.split(" ")[0] or r.startswith("err") or m.startswith("err"):
        return "status"
    if r.split(" edges ")[0] != m.split(" edges ")[0]:
        rn, mn = r.split(" edges ")[0].split(" "), m.split(" edges ")[0].split(" ")
        return "nodes" if rn[:3] != mn[:3] else "attributes"
    return "edges"


# ----------------------------------------------------------------------------------------
# shard worker


def _shard(args) -> Result:
    seed, n_cases, intensify = args
    rng = random.Random(seed)
    res = Result(rule=RULE)
    lines: list[str] = []
    pend: list[tuple[dict, str]] = []
    xlines: list[str] = []
    xpend: list[tuple[dict, str]] = []
    oracle_seen: dict[str, int] = {}
    for _i in range(n_cases):
        case = gen_case(rng, intensify)
        tags = case.pop("_tags")
        real = run_real(case)
        res.evaluations += 1
        src = real.get("src")
        res.count(f"kind:{case['kind']}")
        res.count(f"ids:{tags['ids']}")
        res.count(f"parent-encoding:{tags['enc']}")
        res.count(f"rows:{min(tags['n'], 8)}")
        res.count(f"spatial-dims:{tags['nd']}")
        res.count(f"malformation:{tags['malformation']}")
        res.count(f"list-mapped-custom-keys:{tags['list_keys']}")
        if tags.get("renamed_ids"):
            res.count("id-columns-renamed")
        if tags.get("posmode"):
            res.count(f"geff-pos:{tags['posmode']}")
        res.count("links", tags["links"])
        if case.get("eprops") and tags["malformation"] == "none":
            res.count(f"geff-edge-properties:{len(case['eprops'])}")
        if case.get("index") is not None:
            res.count("dataframe-index:custom")
        res.count(f"track-lineage-columns:{tags.get('tl', 'none')}")
        if tags.get("division"):
            res.count("cases-with-division")
        res.count("real:" + (real["status"] if real["status"] != "err" else err_kind(real)))
        if src is not None:
            exp = classify(case, src)
            res.count("expect:" + exp["expect"] + ("" if exp["expect"] != "refuse" else ":" + exp["why"][0]))
            if exp["expect"] == "refuse" or (exp["expect"] == "import" and (exp["edges"] or tags["list_keys"])):
                res.nontrivial.add(h(case))
            if exp["expect"] == "import" and tags.get("tl", "none") != "none":
                res.count("imported-with-valid-track/lineage-ids" if exp["ids_valid"] else "imported-with-INVALID-track/lineage-ids")
                if tags.get("tl") == "both" and tags.get("division"):
                    res.count("imported-with-both-ids-and-a-division")
        if len(res.samples) < 3 and tags["links"] and rng.random() < 0.03:
            res.samples.append(case)
        if real["status"] == "hang":
            res.failures.append(Failure("hang", PROP, f"C12|{case['kind']}|hang", "watchdog expired", {"case": case}))
            continue
        fails = oracle(case, real)
        for sig, what in fails:
            res.count("oracle-fail:" + sig)
            oracle_seen[sig] = oracle_seen.get(sig, 0) + 1
            if oracle_seen[sig] <= 1:
                small = shrink(case, lambda c, s=sig: any(q == s for q, _ in _oracle_sigs(c)))
                w2 = [w for q, w in _oracle_sigs(small) if q == sig]
                res.failures.append(Failure("oracle", PROP, sig, (w2[0] if w2 else what), {"case": small}))
        if fails:
            res.count("cases-failing-oracle")
        if src is None:
            continue
        line = model_line(case, src)
        if line is None:
            res.count("model:outside-input-language")
            continue
        lines.append(line)
        pend.append((case, canon_real(case, real)))
        xl = model_line_x(case, src)
        if xl is not None:
            xlines.append(xl)
            xpend.append((case, canon_real_x(case, real)))
    try:
        drv = Driver()
        outs = drv.run(lines)
        xouts = drv.run(xlines) if xlines else []
    except Exception as e:  # noqa: BLE001
        res.notes.append(f"driver failure: {e}")
        res.failures.append(Failure("divergence", PROP, "C12|driver|unavailable", str(e)[:300], {}))
        return res
    nx_ = 0
    for (case, creal), mout in zip(xpend, xouts):
        res.compared_steps += 1
        res.count("imx:" + creal.split(" ")[0])
        if mout == "bad-op":
            res.count("imx:model-bad-op")
            continue
        if creal != mout:
            nx_ += 1
            res.count("imx:divergent-cases")
            if nx_ <= 2:
                res.failures.append(Failure("divergence", PROP, f"C12|imx-model-vs-code|geff|" + _div_kind(creal, mout),
                                            f"extended import model (edge properties / blank entries): real: {creal[:300]} | model: {mout[:300]}",
                                            {"case": case}))
    ndiv = 0
    for (case, creal), mout in zip(pend, outs):
        res.compared_steps += 1
        if mout == "bad-op":
            res.count("model:bad-op")
        if creal != mout:
            ndiv += 1
            res.count("divergent-cases")
            if ndiv <= 2:
                head = (creal.split(" ")[0], mout.split(" ")[0])

                def _same_div(c, head=head):
                    d, r0, m0 = _diverges(c, drv)
                    return d and (r0.split(" ")[0], m0.split(" ")[0]) == head

                small = shrink(case, _same_div, budget=120)
                _, r, m = _diverges(small, drv)
                res.failures.append(Failure(
                    "divergence", PROP, f"C12|model-vs-code|{case['kind']}|" + _div_kind(r, m),
                    f"real: {r[:300]} | model: {m[:300]}", {"case": small}))
    return res


# ----------------------------------------------------------------------------------------
# entry points

_NM = {"id": "id", "parent_id": "parent_id", "time": "time", "pos": ["y", "x"]}


def _tbl(ids, parents, id_dt, p_dt, nm=None, idc="id", pc="parent_id", kind="df"):
    n = len(ids)
    nm = dict(nm or {**_NM, "id": idc, "parent_id": pc})
    return {"kind": kind, "cols": ["time", "y", "x", idc, pc], "dtypes": ["int64", "float64", "float64", id_dt, p_dt],
            "values": [list(range(n)), [float(i) for i in range(n)], [i + 0.5 for i in range(n)], list(ids), list(parents)],
            "nm": nm}


FIXED_CASES = [
    # D9 probe of DESIGN.md: string ids, a parent naming no row (witness of C12_counterexample_unfixed)
    _tbl(["a", "b", "c"], ["", "a", "zzz"], "str", "str"),
    # the same through a CSV file, and with float ids
    _tbl(["a", "b", "c"], ["", "a", "zzz"], "str", "str", kind="csv"),
    _tbl([1.5, 2.5, 3.5], [None, 1.5, 9.5], "float64", "float64"),
    # every "no parent" encoding with string ids must stay accepted
    _tbl(["a", "b", "c"], [-1, "a", "b"], "str", "object"),
    _tbl(["a", "b", "c"], ["-1", "a", "b"], "str", "str"),
    _tbl(["a", "b", "c"], [None, "a", "b"], "str", "str"),
    # renamed id columns with non-integer ids (D9b), empty-string parent with integer ids (D9c)
    _tbl(["a", "b", "c"], ["", "a", "b"], "str", "str", idc="node", pc="mother"),
    _tbl([1, 2, 3], ["", 1, 2], "int64", "object"),
    # integer ids: unknown parent / duplicate / self-link
    _tbl([1, 2, 3], [-1, 1, 99], "int64", "int64"),
    _tbl([1, 2, 1], [-1, 1, 2], "int64", "int64"),
    _tbl([1, 2, 3], [-1, 1, 3], "int64", "int64"),
]


def _fixed(res: Result) -> None:
    drv = Driver()
    for case in FIXED_CASES:
        real = run_real(case)
        res.evaluations += 1
        res.count("kind:fixed-corpus")
        for sig, what in oracle(case, real):
            res.count("oracle-fail:" + sig)
            res.failures.append(Failure("oracle", PROP, sig, what, {"case": strip(case)}))
        if real.get("src") is None:
            continue
        line = model_line(case, real["src"])
        if line is not None:
            m = drv.run([line])[0]
            r = canon_real(case, real)
            res.compared_steps += 1
            if m != r:
                res.failures.append(Failure("divergence", PROP, f"C12|model-vs-code|{case['kind']}|" + _div_kind(r, m),
                                            f"real: {r[:300]} | model: {m[:300]}", {"case": strip(case)}))


def run(prop: str, tier: str, seed: int, intensify: bool = False) -> Result:
    assert prop == PROP
    t0 = _time.time()
    total = {"quick": 4000, "thorough": 40000}.get(tier, 4000)
    if intensify:
        total = int(total * 1.5)
    n = ncores()
    per = max(1, total // n)
    res = Result(rule=RULE)
    _ft()
    _fixed(res)
    args = [(s, per, intensify) for s in shard_seeds(seed * 1000003 + (23 if intensify else 0), n)]
    with Pool(n) as pool:
        for r in pool.imap_unordered(_shard, args):
            res.merge(r)
    res.failures.sort(key=lambda f: (f.kind != "oracle", f.signature, len(str(f.replay))))
    # one failure per signature (smallest replay)
    seen: set[tuple[str, str]] = set()
    uniq = []
    for f in res.failures:
        if (f.kind, f.signature) not in seen:
            seen.add((f.kind, f.signature))
            uniq.append(f)
    res.failures = uniq
    ev = max(1, res.evaluations)
    res.notes.append(f"cases failing the oracle: {res.distribution.get('cases-failing-oracle', 0)}/{ev}; "
                     f"divergent cases: {res.distribution.get('divergent-cases', 0)}/{res.compared_steps}; "
                     f"wall {(_time.time() - t0):.1f}s")
    res.notes.append("spatial feature keys read from the live feature table: " + ",".join(_ft()["spatial"]))
    return res


def replay(prop: str, replay_obj: dict) -> int:
    obj = replay_obj.get("replay", replay_obj)
    cases = [obj["case"]] if "case" in obj else [d["case"] for d in obj.get("divergences", []) if "case" in d]
    rc = 0
    for case in cases:
        real = run_real(case)
        print("input      :", json.dumps(strip(case), default=str))
        if case["kind"] != "geff":
            print("table      :\n" + build_df(case).to_string())
        print("real       :", canon_real(case, real) + ("   [" + real["msg"][:150] + "]" if real["status"] == "err" else ""))
        src = real.get("src")
        if src is not None:
            exp = classify(case, src)
            if exp["expect"] == "import":
                print("expected   : nodes", exp["nodes"], "edges", exp["edges"])
            else:
                print("expected   :", exp["expect"], exp.get("why"))
        fails = oracle(case, real)
        for sig, what in fails:
            print(f"ORACLE FAIL: {sig}: {what}")
            rc = 1
        if src is not None:
            line = model_line(case, src)
            if line is not None:
                drv = Driver()
                m = drv.run([line])[0]
                print("model      :", m)
                if src["kind"] == "table":
                    print("model(orig):", drv.run([model_line(case, src, "orig")])[0],
                          " (the unrepaired id remapping of _ensure_integer_ids, for comparison)")
                if m != canon_real(case, real):
                    print("DIVERGENCE: model (repaired pipeline) and real code differ")
                    rc = 1
        if not fails:
            print("oracle     : holds")
    return rc
