"""Shared infrastructure of the correspondence harness.

* `Driver`     – talks to the compiled Lean model (`lean/.lake/build/bin/ftdriver`) over the
                 one-line-in / one-line-out protocol (batch or interactive).
* `Result`     – what a family run returns to `check`: measured coverage + failures.
* `Failure`    – one oracle failure (real code breaks the property: has a replay), one
                 divergence (model and code disagree) or one hang.
"""
from __future__ import annotations

import hashlib
import json
import os
import subprocess
from dataclasses import dataclass, field
from pathlib import Path
from typing import Any

VERIF = Path(__file__).resolve().parent.parent
LEAN_DIR = VERIF / "lean"
DRIVER = LEAN_DIR / ".lake" / "build" / "bin" / "ftdriver"
VALID_DRIVER = LEAN_DIR / ".lake" / "build" / "bin" / "ftvalid"


class Driver:
    """Batch use: `run(lines) -> outputs` (one output line per input line)."""

    def __init__(self, exe: Path | None = None) -> None:
        self.exe = exe or DRIVER
        # `check` builds the driver before any family runs; if the binary is missing here it is
        # being re-linked by a concurrent build of the same tree: wait for it instead of reporting
        # a broken correspondence
        import time as _t
        t0 = _t.time()
        while not self.exe.exists() and _t.time() - t0 < 180:
            _t.sleep(1.0)
        if not self.exe.exists():
            raise RuntimeError(f"model driver not built: {self.exe}")

    def run(self, lines: list[str], timeout: float = 600.0) -> list[str]:
        if not lines:
            return []
        data = "\n".join(lines) + "\n"
        import time as _t
        for attempt in range(60):
            try:
                p = subprocess.run(
                    [str(self.exe)], input=data, capture_output=True, text=True, timeout=timeout
                )
                break
            except (FileNotFoundError, PermissionError, OSError):
                # binary replaced by a concurrent re-link
                if attempt == 59:
                    raise
                _t.sleep(2.0)
        if p.returncode != 0:
            raise RuntimeError(f"model driver failed rc={p.returncode}: {p.stderr[:500]}")
        out = p.stdout.split("\n")
        if out and out[-1] == "":
            out.pop()
        if len(out) != len(lines):
            raise RuntimeError(
                f"model driver answered {len(out)} lines for {len(lines)} inputs"
            )
        return out


@dataclass
class Failure:
    kind: str  # 'oracle' | 'divergence' | 'hang'
    prop: str
    signature: str  # stable identification of *what* fails (used by known_findings.json)
    what: str  # human readable
    replay: dict[str, Any]  # literal reproduction recipe


@dataclass
class Result:
    evaluations: int = 0
    nontrivial: set = field(default_factory=set)  # hashes of distinct non-trivial cases
    rule: str = ""
    samples: list = field(default_factory=list)
    distribution: dict = field(default_factory=dict)
    failures: list[Failure] = field(default_factory=list)
    compared_steps: int = 0  # steps compared model vs implementation
    notes: list[str] = field(default_factory=list)

    def count(self, key: str, n: int = 1) -> None:
        self.distribution[key] = self.distribution.get(key, 0) + n

    def merge(self, other: "Result") -> None:
        self.evaluations += other.evaluations
        self.nontrivial |= other.nontrivial
        self.compared_steps += other.compared_steps
        for k, v in other.distribution.items():
            self.distribution[k] = self.distribution.get(k, 0) + v
        for s in other.samples:
            if len(self.samples) < 6:
                self.samples.append(s)
        self.failures.extend(other.failures)
        self.notes.extend(other.notes)
        if other.rule and not self.rule:
            self.rule = other.rule


def h(obj: Any) -> str:
    return hashlib.sha1(json.dumps(obj, sort_keys=True, default=str).encode()).hexdigest()[:16]


def hexs(s: str) -> str:
    """strings travel hex-encoded over the line protocol ('-' = empty)"""
    return s.encode().hex() or "-"


def unhexs(t: str) -> str:
    return "" if t == "-" else bytes.fromhex(t).decode()


def shard_seeds(seed: int, n: int) -> list[int]:
    return [int(hashlib.sha1(f"{seed}:{i}".encode()).hexdigest()[:8], 16) for i in range(n)]


def ncores() -> int:
    return max(1, min(16, os.cpu_count() or 1))
