"""Family NameMap — property C17 (inferred column mappings lose no column and prefer exact
names).  Code under test: funtracks/import_export/_name_mapping.py (`infer_node_name_map`,
`infer_edge_name_map`) called directly and through `TracksBuilder.infer_*_name_map`.

For every generated case (mode, column list, required keys, feature table):
  1. real code, with `difflib.get_close_matches` wrapped by a recorder (query, candidates,
     first answer) — the transcript is what the Lean model gets as its fuzzy matcher;
  2. oracle: the property statement read literally on the returned dict
        every column occurs exactly once among the values / list elements,
        no value that is not a column, no column twice (under two keys or twice in a list),
        a column named like a required key or "seg_id" is the value of exactly that key
        (node mode only: the edge variant has no required keys);
  3. the same case through the Lean driver (tag NM), canonical strings compared.
Column names are ASCII (the model's `lower` is ASCII lower-casing); non-ASCII names are not
generated.  A separate malformed stream (duplicate column names, empty names) is compared
model-vs-code only: the property quantifies over duplicate-free lists.
"""
from __future__ import annotations

import difflib
import multiprocessing as mp
import os
import random
import signal
import string
import time
from typing import Any

from . import common
from .common import Driver, Failure, Result, h, hexs, ncores, shard_seeds

RULE = ("non-trivial = duplicate-free list of >= 2 columns whose inferred mapping is not the "
        "identity (some column is the value of a differently named key or sits in a "
        "multi-column value); distinct by (mode, columns, required keys, feature table)")

MODEL_SUFFIX = "-orig" if os.environ.get("NM_MODEL", "") == "orig" else ""

# --------------------------------------------------------------------------------------
# live configuration
# --------------------------------------------------------------------------------------

_FEATS_CACHE: dict = {}


def live_features(ndim: int | None) -> dict:
    """exactly what TracksBuilder.__init__ / build() put into available_computed_features"""
    if ndim not in _FEATS_CACHE:
        from funtracks.import_export._utils import get_default_key_to_feature_mapping

        _FEATS_CACHE[ndim] = {
            k: dict(v)
            for k, v in get_default_key_to_feature_mapping(ndim, display_name=False).items()
        }
    return {k: dict(v) for k, v in _FEATS_CACHE[ndim].items()}


def feat_rows(feats: dict | None) -> list[tuple]:
    """feature table as the model sees it: (key, feature_type, num_values, display|None, names)"""
    rows = []
    for k, v in (feats or {}).items():
        ft = v.get("feature_type")
        dn = v.get("display_name")
        rows.append((
            k,
            ft if isinstance(ft, str) else "",
            int(v.get("num_values", 1)),
            dn if isinstance(dn, str) else None,
            list(v.get("value_names", [])),
        ))
    return rows


# --------------------------------------------------------------------------------------
# generators
# --------------------------------------------------------------------------------------

STD_KEYS = ["time", "seg_id", "id", "parent_id", "track_id", "pos"]
CSV_WORDS = ["t", "T", "frame", "Frame", "x", "y", "z", "X", "Y", "Z", "xx", "yy", "x_pos",
             "y_pos", "pos_x", "label", "Label", "track", "parent", "ID", "Parent_ID",
             "parentid", "segid", "seg", "node_id", "vol", "Vol", "circ", "perim", "radius",
             "iou", "IOU", "Iou", "overlap", "dist", "distance", "score", "custom"]


def variants(rng: random.Random, s: str) -> list[str]:
    out = {s.lower(), s.upper(), s.title(), s.capitalize(), s.swapcase(),
           s.replace("_", " "), s.replace("_", ""), s.replace("_", "-"),
           s.replace(" ", "_"), s.replace(" ", ""), s + "s", s + "_1", "my_" + s,
           s[:max(1, len(s) // 2)], s[: max(1, len(s) - 1)]}
    if len(s) >= 2:
        i = rng.randrange(len(s))
        out.add(s[:i] + s[i + 1:])                      # deletion
        out.add(s[:i] + s[i] + s[i:])                   # doubled character
        j = rng.randrange(len(s) - 1)
        out.add(s[:j] + s[j + 1] + s[j] + s[j + 2:])    # transposition
        out.add("".join(c for c in s if c.lower() not in "aeiou") or s)
    return sorted(o for o in out if o.isascii())   # sorted: set order is hash-seed dependent


def build_pool(rng: random.Random, feats: dict) -> dict[str, list[str]]:
    keys = list(feats.keys())
    disp = [v["display_name"] for v in feats.values() if isinstance(v.get("display_name"), str)]
    vnames = [n for v in feats.values() for n in v.get("value_names", [])]
    base = keys + disp + vnames + STD_KEYS
    var: list[str] = []
    for s in base:
        var.extend(variants(rng, s))
    words = ["".join(rng.choice(string.ascii_lowercase) for _ in range(rng.randint(1, 8)))
             for _ in range(12)]
    return {"key": keys, "display": disp, "value": vnames, "std": STD_KEYS,
            "variant": var, "csv": CSV_WORDS, "random": words}


REQ_CHOICES = [["time"], ["time", "id", "parent_id"], ["time", "pos"],
               ["time", "id", "parent_id", "pos"], [], ["time", "seg_id"],
               ["time", "track_id"], ["time", "area"], ["time", "id", "parent_id", "iou"]]


def mutate_table(rng: random.Random, feats: dict, pool: dict) -> dict:
    """synthetic feature tables (widen the model-vs-code comparison beyond the live table)"""
    out: dict = {}
    items = list(feats.items())
    rng.shuffle(items)
    for k, v in items:
        if rng.random() < 0.2:
            continue
        v = dict(v)
        r = rng.random()
        if r < 0.15:
            v["display_name"] = rng.choice(pool["key"] + pool["display"] + pool["csv"])
        elif r < 0.22:
            v.pop("display_name", None)
        elif r < 0.27:
            v["display_name"] = ["a", "b"]          # not a str -> skipped by the code
        r = rng.random()
        if r < 0.12:
            v["feature_type"] = rng.choice(["node", "edge", "other"])
        elif r < 0.15:
            v.pop("feature_type", None)
        r = rng.random()
        if r < 0.1:
            v.pop("num_values", None)
        elif r < 0.2:
            v["num_values"] = rng.choice([0, 1, 2, 3])
        if rng.random() < 0.15:
            v["value_names"] = rng.sample(pool["value"] + pool["csv"] + pool["display"],
                                          rng.randint(0, 3))
        if rng.random() < 0.1:
            k = rng.choice(STD_KEYS + pool["value"])
        out[k] = v
    return out


def gen_columns(rng: random.Random, pool: dict, intensify: bool) -> list[str]:
    n = rng.choice([0, 1, 2, 3, 3, 4, 4, 5, 5, 6, 6, 7, 8, 9, 10, 12] + ([14, 16] if intensify else []))
    cols: list[str] = []
    r = rng.random()
    if r < 0.3:
        cols += rng.choice([["t", "y", "x"], ["time", "y", "x"], ["t", "z", "y", "x"],
                            ["t", "id", "parent_id", "y", "x"], ["T", "Y", "X"],
                            ["time", "id", "parent_id", "z", "y", "x"]])
    weights = [("key", 4), ("display", 4), ("value", 4), ("std", 3), ("variant", 8),
               ("csv", 4), ("random", 2)]
    kinds = [k for k, w in weights for _ in range(w)]
    tries = 0
    while len(cols) < n and tries < 100:
        tries += 1
        src = pool[rng.choice(kinds)]
        if not src:
            continue
        c = rng.choice(src)
        if rng.random() < (0.45 if intensify else 0.3) and cols:
            # a name similar to / colliding with one already present
            c = rng.choice(variants(rng, rng.choice(cols)) or [c])
        if c not in cols:
            cols.append(c)
    rng.shuffle(cols)
    return cols


def gen_case(rng: random.Random, intensify: bool) -> dict:
    ndim = rng.choice([None, 3, 3, 4, 4])
    feats = live_features(ndim)
    pool = build_pool(rng, feats)
    mode = "node" if rng.random() < 0.7 else "edge"
    r = rng.random()
    via = "direct"
    table: dict | None = feats
    required = list(rng.choice(REQ_CHOICES))
    if r < 0.2:
        via = rng.choice(["csv-builder", "geff-builder"])
        required = ["time", "id", "parent_id"] if via == "csv-builder" else ["time"]
    elif r < 0.4:
        table = mutate_table(rng, feats, pool)
        if rng.random() < 0.3:
            required = rng.sample(STD_KEYS + list(table.keys()), rng.randint(0, 4))
    elif r < 0.45 and mode == "edge":
        table = None
    cols = gen_columns(rng, pool, intensify)
    malformed = False
    if rng.random() < 0.04 and cols:
        malformed = True
        if rng.random() < 0.7:
            cols.insert(rng.randrange(len(cols) + 1), rng.choice(cols))   # duplicate
        else:
            cols.insert(rng.randrange(len(cols) + 1), "")
            if rng.random() < 0.5:
                cols.append("")
    case = {"mode": mode, "via": via, "ndim": ndim, "cols": cols, "required": required,
            "feats": table, "malformed": malformed}
    if via != "direct" and ndim is not None and rng.random() < 0.4:
        case["late_ndim"] = True
    if via == "csv-builder" and mode == "node" and rng.random() < 0.6:
        # through the public `prepare(table)`; half of these on a builder that has been prepared
        # for ANOTHER table before (the map is inferred afresh for each source)
        case["via_prepare"] = True
        r_ = rng.random()
        if r_ < 0.4:
            case["prev_cols"] = gen_columns(rng, build_pool(rng, feats), intensify)
        elif r_ < 0.7:
            case["prev_same_header_edited"] = True
    return case


# --------------------------------------------------------------------------------------
# real code, recorder, watchdog
# --------------------------------------------------------------------------------------

class _Hang(Exception):
    pass


def _alarm(_s, _f):
    raise _Hang()


class Recorder:
    def __init__(self) -> None:
        self.calls: list[tuple[str, tuple[str, ...], str | None]] = []
        self._orig = None

    def __enter__(self):
        self._orig = difflib.get_close_matches
        orig = self._orig

        def rec(word, possibilities, n=3, cutoff=0.6):
            poss = list(possibilities)
            res = orig(word, poss, n=n, cutoff=cutoff)
            self.calls.append((word, tuple(poss), res[0] if res else None))
            return res

        difflib.get_close_matches = rec
        return self

    def __exit__(self, *a):
        difflib.get_close_matches = self._orig


def run_real(case: dict) -> tuple[str, Any, list]:
    """-> (status 'ok'|'raises'|'hang', mapping or message, transcript)"""
    from funtracks.import_export import _name_mapping as nm

    cols = list(case["cols"])
    req = list(case["required"])
    feats = None if case["feats"] is None else {k: dict(v) for k, v in case["feats"].items()}
    use_alarm = hasattr(signal, "SIGALRM")
    if use_alarm:
        old = signal.signal(signal.SIGALRM, _alarm)
        signal.setitimer(signal.ITIMER_REAL, 10.0)
    try:
        with Recorder() as rec:
            if case["via"] == "direct":
                if case["mode"] == "node":
                    out = nm.infer_node_name_map(cols, req, feats if feats is not None else {})
                else:
                    out = nm.infer_edge_name_map(cols, feats)
            else:
                if case["via"] == "csv-builder":
                    from funtracks.import_export.csv._import import CSVTracksBuilder as B
                else:
                    from funtracks.import_export.geff._import import GeffTracksBuilder as B
                from funtracks.import_export._utils import get_default_key_to_feature_mapping

                b = B()
                b.ndim = case["ndim"]
                if not case.get("late_ndim"):
                    b.available_computed_features = get_default_key_to_feature_mapping(
                        case["ndim"], display_name=False)
                # late_ndim: what `prepare(source, segmentation=…)` does — the dimensionality becomes
                # known after the builder (and its default feature table) was created
                if case["mode"] == "node" and case.get("via_prepare"):
                    import pandas as pd
                    if case.get("prev_cols") is not None:
                        try:
                            b.prepare(pd.DataFrame(columns=list(case["prev_cols"])))
                        except Exception:  # noqa: BLE001  (the earlier table may be one it refuses)
                            pass
                    if case.get("prev_same_header_edited"):
                        # another builder inferred the map for the SAME header before and its owner edited
                        # that map in place (as the docstring of prepare() invites)
                        b1 = B()
                        b1.ndim = b.ndim
                        b1.available_computed_features = b.available_computed_features
                        try:
                            b1.prepare(pd.DataFrame(columns=cols))
                            m1 = b1.node_name_map
                            for k_ in list(m1)[::2]:
                                del m1[k_]
                            m1["edited_by_owner"] = "no_such_column"
                        except Exception:  # noqa: BLE001
                            pass
                    b.prepare(pd.DataFrame(columns=cols))
                    out = b.node_name_map
                elif case["mode"] == "node":
                    b.importable_node_props = cols
                    out = b.infer_node_name_map()
                else:
                    b.importable_edge_props = cols
                    out = b.infer_edge_name_map()
        return "ok", out, rec.calls
    except _Hang:
        return "hang", "no answer within 10 s", []
    except Exception as e:  # noqa: BLE001
        return "raises", f"{type(e).__name__}: {e}", []
    finally:
        if use_alarm:
            signal.setitimer(signal.ITIMER_REAL, 0)
            signal.signal(signal.SIGALRM, old)


def effective_required(case: dict) -> list[str]:
    return list(case["required"])


def effective_feats(case: dict) -> dict | None:
    if case["via"] == "direct":
        return case["feats"]
    return live_features(None if case.get("late_ndim") else case["ndim"])


# --------------------------------------------------------------------------------------
# oracle (independent reading of the property on the real result)
# --------------------------------------------------------------------------------------

def oracle(case: dict, mapping: Any) -> list[tuple[str, str]]:
    """-> list of (signature-suffix, explanation); empty = property holds on this case"""
    cols = case["cols"]
    bad: list[tuple[str, str]] = []
    if not isinstance(mapping, dict):
        return [("not-a-dict", f"returned {type(mapping).__name__}")]
    used: list[tuple[str, str]] = []          # (column, key it sits under)
    for k, v in mapping.items():
        if isinstance(v, str):
            used.append((v, k))
        elif isinstance(v, list) and all(isinstance(x, str) for x in v):
            used.extend((x, k) for x in v)
        else:
            bad.append(("bad-value-type", f"key {k!r} has value {v!r}"))
    for c in cols:
        where = [k for (x, k) in used if x == c]
        if len(where) == 0:
            bad.append(("column-lost", f"column {c!r} is used nowhere in {mapping!r}"))
        elif len(where) > 1:
            bad.append(("column-twice", f"column {c!r} is used under keys {where!r}"))
    for x, k in used:
        if x not in cols:
            bad.append(("value-not-a-column", f"key {k!r} uses {x!r} which is not a column"))
    if case["mode"] == "node":
        for c in cols:
            if c in effective_required(case) or c == "seg_id":
                if mapping.get(c) != c:
                    bad.append(("exact-name-not-mapped",
                                f"column {c!r} is spelled like a required/seg-id key but "
                                f"mapping[{c!r}] = {mapping.get(c)!r}"))
    # one entry per kind
    seen, out = set(), []
    for s, w in bad:
        if s not in seen:
            seen.add(s)
            out.append((s, w))
    return out


# --------------------------------------------------------------------------------------
# model side
# --------------------------------------------------------------------------------------

def _lst(xs) -> str:
    xs = list(xs)
    return " ".join([str(len(xs))] + [hexs(x) for x in xs])


def model_line(case: dict, transcript: list) -> str:
    feats = effective_feats(case)
    rows = feat_rows(feats)
    parts = ["NM", case["mode"] + MODEL_SUFFIX, _lst(case["cols"]), _lst(effective_required(case)),
             str(len(rows))]
    for key, ft, nv, dn, vns in rows:
        parts += [hexs(key), hexs(ft), str(nv), "1" if dn is not None else "0",
                  hexs(dn or ""), _lst(vns)]
    seen, recs = set(), []
    for q, cands, ans in transcript:
        if (q, cands) in seen:
            continue
        seen.add((q, cands))
        recs.append((q, cands, ans))
    parts.append(str(len(recs)))
    for q, cands, ans in recs:
        parts += [hexs(q), _lst(cands), "1" if ans is not None else "0", hexs(ans or "")]
    return " ".join(parts)


def canon(mapping: dict) -> str:
    es = []
    for k, v in mapping.items():
        if isinstance(v, str):
            es.append((hexs(k), f"0 {hexs(v)}"))
        else:
            es.append((hexs(k), " ".join(["1", str(len(v))] + [hexs(x) for x in v])))
    es.sort(key=lambda e: e[0])
    return " ".join(["ok", str(len(es))] + [f"{a} {b}" for a, b in es])


def decode_canon(s: str) -> Any:
    t = s.split(" ")
    if not t or t[0] != "ok":
        return s
    out, i = {}, 2
    try:
        for _ in range(int(t[1])):
            k = common.unhexs(t[i])
            if t[i + 1] == "0":
                out[k] = common.unhexs(t[i + 2])
                i += 3
            else:
                n = int(t[i + 2])
                out[k] = [common.unhexs(x) for x in t[i + 3:i + 3 + n]]
                i += 3 + n
    except Exception:  # noqa: BLE001
        return s
    return out


# --------------------------------------------------------------------------------------
# shrinking
# --------------------------------------------------------------------------------------

def literal(case: dict) -> dict:
    """self-contained replay: the feature table is stored literally"""
    return {"mode": case["mode"], "via": case["via"], "ndim": case["ndim"],
            "cols": list(case["cols"]), "required": list(case["required"]),
            "feats": effective_feats(case) if case["via"] == "direct" else None,
            "late_ndim": bool(case.get("late_ndim"))}


def shrink(case: dict, still_fails) -> dict:
    """delta debugging over the column list, then the required keys, then the feature table"""
    cur = dict(case)

    def ddmin(seq: list, rebuild) -> list:
        n = 2
        seq = list(seq)
        while len(seq) >= 1:
            chunk = max(1, len(seq) // n)
            reduced = False
            for i in range(0, len(seq), chunk):
                cand = seq[:i] + seq[i + chunk:]
                if still_fails(rebuild(cand)):
                    seq = cand
                    n = max(n - 1, 2)
                    reduced = True
                    break
            if not reduced:
                if chunk == 1:
                    break
                n = min(len(seq), n * 2)
        return seq

    cur["cols"] = ddmin(cur["cols"], lambda c: {**cur, "cols": c})
    if cur["via"] == "direct":
        cur["required"] = ddmin(cur["required"], lambda r: {**cur, "required": r})
        if cur["feats"]:
            ks = ddmin(list(cur["feats"].keys()),
                       lambda ks: {**cur, "feats": {k: cur["feats"][k] for k in ks}})
            cur["feats"] = {k: cur["feats"][k] for k in ks}
    return cur


# --------------------------------------------------------------------------------------
# one shard
# --------------------------------------------------------------------------------------

def _is_nontrivial(case: dict, mapping: dict) -> bool:
    if case["malformed"] or len(case["cols"]) < 2:
        return False
    return any(not (isinstance(v, str) and v == k) for k, v in mapping.items())


def _shard(args) -> Result:
    prop, n_cases, seed, intensify = args
    rng = random.Random(seed)
    res = Result(rule=RULE)
    cases, reals, lines, idx = [], [], [], []
    per_sig: dict[str, int] = {}
    for _ in range(n_cases):
        case = gen_case(rng, intensify)
        status, out, tr = run_real(case)
        res.evaluations += 1
        fn = "infer_node" if case["mode"] == "node" else "infer_edge"
        res.count(f"mode:{case['mode']}")
        res.count(f"via:{case['via']}")
        res.count(f"ncols:{min(len(case['cols']), 12):02d}")
        res.count("table:" + ("none" if case["feats"] is None else
                              "live" if case["feats"] == live_features(case["ndim"]) else "synthetic"))
        res.count(f"ndim:{case['ndim']}")
        if case["malformed"]:
            res.count("stream:malformed")
        if status == "hang":
            res.failures.append(Failure("hang", prop, f"{prop}|{fn}|hang", out, literal(case)))
            continue
        if status == "raises":
            res.count("real:raises")
            if not case["malformed"]:
                per_sig[f"{prop}|{fn}|raises"] = per_sig.get(f"{prop}|{fn}|raises", 0) + 1
                if per_sig[f"{prop}|{fn}|raises"] <= 2:
                    res.failures.append(Failure("oracle", prop, f"{prop}|{fn}|raises",
                                                f"{fn} raised {out} on {case['cols']!r}",
                                                literal(case)))
            continue
        res.count(f"fuzzy_calls:{min(len(tr), 12):02d}")
        res.count("fuzzy_answered", sum(1 for c in tr if c[2] is not None))
        if any(isinstance(v, list) for v in out.values()):
            res.count("result:has-multi-value")
        if any(isinstance(v, str) and v != k for k, v in out.items()):
            res.count("result:has-renamed-column")
        if _is_nontrivial(case, out):
            res.nontrivial.add(h([case["mode"], case["cols"], effective_required(case),
                                  feat_rows(effective_feats(case))]))
        if len(res.samples) < 3 and _is_nontrivial(case, out):
            res.samples.append({"mode": case["mode"], "via": case["via"], "ndim": case["ndim"],
                                "cols": case["cols"], "required": effective_required(case),
                                "result": out})
        # ---- oracle
        if not case["malformed"]:
            verdict = oracle(case, out)
            if verdict:
                res.count("oracle:lists-failing")
            for suffix, why in verdict:
                sig = f"{prop}|{fn}|{suffix}"
                res.count("oracle_fail:" + sig)
                per_sig[sig] = per_sig.get(sig, 0) + 1
                if per_sig[sig] > 2:
                    continue

                def still(c, suffix=suffix):
                    if len(set(c["cols"])) != len(c["cols"]):
                        return False
                    st, o, _ = run_real(c)
                    return st == "ok" and any(s == suffix for s, _ in oracle(c, o))

                small = shrink(case, still)
                st, o, _ = run_real(small)
                why2 = next((w for s, w in oracle(small, o) if s == suffix), why)
                res.failures.append(Failure(
                    "oracle", prop, sig,
                    f"{fn}(columns={small['cols']!r}, required={effective_required(small)!r}): {why2}",
                    literal(small)))
        # ---- model
        cases.append(case)
        reals.append(canon(out))
        lines.append(model_line(case, tr))
    lines.append("NM node 1")                      # malformed line: must be refused
    outs = Driver().run(lines)
    if outs[-1] != "bad-op":
        res.failures.append(Failure("divergence", prop, f"{prop}|driver|malformed-accepted",
                                    f"driver answered {outs[-1]!r} to a malformed line", {}))
    ndiv = 0
    for case, real, mod in zip(cases, reals, outs[:-1]):
        res.compared_steps += 1
        if real != mod:
            res.count("divergence")
            ndiv += 1
            if ndiv <= 2:
                fn = "infer_node" if case["mode"] == "node" else "infer_edge"

                def still(c):
                    st, o, tr = run_real(c)
                    if st != "ok":
                        return False
                    return Driver().run([model_line(c, tr)])[0] != canon(o)

                small = shrink(case, still)
                st, o, tr = run_real(small)
                m = Driver().run([model_line(small, tr)])[0]
                res.failures.append(Failure(
                    "divergence", prop, f"{prop}|{fn}|model-differs",
                    f"{fn}(columns={small['cols']!r}, required={effective_required(small)!r}): "
                    f"code={o!r} model={decode_canon(m)!r}", literal(small)))
    return res


def run(prop: str, tier: str, seed: int, intensify: bool = False) -> Result:
    t0 = time.time()
    total = 3000 if tier == "quick" else 50000
    if intensify:
        total *= 3
    nsh = min(ncores(), 8 if tier == "quick" else 16)
    seeds = shard_seeds(seed * 1000003 + (17 if intensify else 0), nsh)
    per = [total // nsh + (1 if i < total % nsh else 0) for i in range(nsh)]
    jobs = [(prop, per[i], seeds[i], intensify) for i in range(nsh)]
    res = Result(rule=RULE)
    if nsh == 1:
        parts = [_shard(jobs[0])]
    else:
        ctx = mp.get_context("fork")
        with ctx.Pool(nsh) as pool:
            parts = pool.map(_shard, jobs)
    for p in parts:
        res.merge(p)
    # corpus: the three D6 probes of DESIGN.md run on every check
    for cols in (["t", "id", "parent_id", "y", "x", "area", "Area"],
                 ["t", "id", "parent_id", "y", "x", "xx"],
                 ["t", "id", "parent_id", "y", "x", "pos"]):
        case = {"mode": "node", "via": "direct", "ndim": 3, "cols": cols,
                "required": ["time", "id", "parent_id"], "feats": live_features(3),
                "malformed": False}
        st, out, tr = run_real(case)
        res.evaluations += 1
        if st != "ok":
            continue
        have = {f.signature for f in res.failures}
        for suffix, why in oracle(case, out):
            sig = f"{prop}|infer_node|{suffix}"
            res.count("oracle_fail:" + sig)
            if sig not in have:
                res.failures.append(Failure("oracle", prop, sig,
                                            f"infer_node(columns={cols!r}): {why}", literal(case)))
        m = Driver().run([model_line(case, tr)])[0]
        res.compared_steps += 1
        if m != canon(out):
            res.failures.append(Failure("divergence", prop, f"{prop}|infer_node|model-differs",
                                        f"corpus {cols!r}: code={out!r} model={decode_canon(m)!r}",
                                        literal(case)))
    nfail = res.distribution.get("oracle:lists-failing", 0)
    res.notes.append(f"lists on which the oracle failed: {nfail} of {res.evaluations} "
                     f"({100.0 * nfail / max(1, res.evaluations):.2f} %)")
    res.notes.append(f"wall {time.time() - t0:.1f}s, shards {nsh}, model mode 'node{MODEL_SUFFIX}'")
    return res


def replay(prop: str, replay_obj: dict) -> int:
    """re-execute a replay file on the real code and on the model; print both traces"""
    rp = replay_obj.get("replay", replay_obj)
    if "divergences" in rp:                      # an 'unchecked' replay written by ./check
        rc = 0
        for sub in rp["divergences"]:
            rc |= replay(prop, {"replay": sub})
        for p in rp.get("proof_problems", []):
            print("proof problem:", p)
            rc = 1
        return rc
    if not rp:
        print("empty replay")
        return 2
    case = {"mode": rp["mode"], "via": rp.get("via", "direct"), "ndim": rp.get("ndim"),
            "cols": list(rp["cols"]), "required": list(rp.get("required", [])),
            "feats": rp.get("feats"), "malformed": len(set(rp["cols"])) != len(rp["cols"]),
            "late_ndim": bool(rp.get("late_ndim"))}
    if case["via"] != "direct":
        case["feats"] = effective_feats(case)
    st, out, tr = run_real(case)
    print(f"case: mode={case['mode']} via={case['via']} columns={case['cols']!r} "
          f"required={effective_required(case)!r}")
    print(f"real : {st} {out!r}")
    for q, cands, ans in tr:
        print(f"   difflib({q!r}, {list(cands)!r}) -> {ans!r}")
    if st != "ok":
        return 1
    verdict = [] if case["malformed"] else oracle(case, out)
    for s, w in verdict:
        print(f"oracle: FAIL {s}: {w}")
    if not verdict:
        print("oracle: property holds on this input")
    m = Driver().run([model_line(case, tr)])[0]
    print(f"model: {decode_canon(m)!r}")
    same = m == canon(out)
    print("model == real:", same)
    return 1 if (verdict or not same) else 0
