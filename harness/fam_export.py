"""Family `export` — properties C14 (export ∘ import = identity), C15 (subset export is
ancestor-closed and nothing else), C16 (exports, saves and queries never modify the tracks).

Per generated case (a real `SolutionTracks` built by `gen_session.gen_case` — cfg 'pos' / 'axes'
/ 'seg', 2D+t and 3D+t — for half of the cases followed by a random editing session of 6–10
operations incl. undo/redo on the real object):

  C14  export → re-import with the EXPLICIT key map matching what the exporter wrote
         csv       export_to_csv            → tracks_from_df(pd.read_csv(file), node_name_map=…)
         geff      export_to_geff           → import_from_geff(store, node_name_map=…, edge_name_map=…)
         internal  save_tracks              → load_tracks(dir, solution=True)
       oracle: canonical state before == canonical state after (nodes, edges, time, position,
       track id; lineage id / loaded features / segmentation for geff+internal; scale + registry
       for internal).  Floats exact (repr) except values re-imported from CSV: pandas' default
       float parser is not last-bit exact (observed: up to 2 ulp); tolerance CSV_ULPS = 4 ulp,
       every use is counted.  The CSV FILE itself is compared exactly with the model's encode.
       correspondence: (a) the FILE the exporter wrote, read back with csv / zarr / json+numpy,
       vs the Lean model's `encode`; (b) the re-imported object vs the model's `decode ∘ encode`.
  C15  random selections (empty, roots, leaves below divisions, several lineages, all, random),
       CSV and GEFF, with/without segmentation.  oracle: brute-force ancestors closure with
       networkx on a copy; exported rows / ids / edges / arrays.  correspondence: files vs model.
       For most C15 cases (and a quarter of the C14/C16 cases) the SAME object is then edited again
       (short session rich in count-preserving re-linkings: delete-edge + add-edge to another
       parent, swap predecessors, undo/redo) and exported again — same selections and fresh ones —
       with oracle (closure on the CURRENT graph) and correspondence after every export; an export
       that writes the closure of the graph as it was BEFORE the edit is reported as
       `C15|<fmt>|stale-ancestors-after-edit`.
  C16  deep snapshot before/after every read-only operation (exports full+subset, save, every
       public getter).  correspondence: model `runRO` output and post-state vs the real call.

Values are sent to the model as opaque tokens (interned canonical strings); numbers are
canonicalised by VALUE (4 and 4.0 are the same token), so no float ever crosses the protocol.
Set FTDRIVER=<path> to use a driver binary other than lean/.lake/build/bin/ftdriver.
"""
from __future__ import annotations

import copy
import csv as _csv
import hashlib
import json
import math
import os
import random
import shutil
import signal
import tempfile
import time as _time
import warnings
from multiprocessing import get_context
from pathlib import Path
from typing import Any

os.environ.setdefault("TQDM_DISABLE", "1")
warnings.simplefilter("ignore")

import networkx as nx  # noqa: E402
import numpy as np  # noqa: E402

from . import common as _C  # noqa: E402
from . import exd as X  # noqa: E402
from . import ftstate as F  # noqa: E402
from . import gen_session as G  # noqa: E402
from .common import Failure, Result, h, ncores, shard_seeds  # noqa: E402
from .fam_session import Hang, Session, partition_problems, segments  # noqa: E402

PROPS = ("C14", "C15", "C16")
CALL_TIMEOUT = 60
RULES = {
    "C14": ("a case = one real tracks object (random forest of 0-8 nodes, optional label array, optional "
            "editing session) x one format; non-trivial if the tracks has at least one node; distinct = "
            "distinct hash of (canonical tracks state, format, variant)"),
    "C15": ("a case = (tracks, selection, format, with/without segmentation); non-trivial if the selection "
            "is a proper non-empty subset of the nodes or has ancestors outside itself; distinct = distinct "
            "hash of (canonical graph, selection, format, seg flag)"),
    "C16": ("a case = (tracks, read-only operation with arguments); non-trivial if the tracks has at least one "
            "node; distinct = distinct hash of (canonical tracks state, operation, arguments)"),
}

TIME_KEY, TID_KEY, LIN_KEY = "time", "track_id", "lineage_id"


def _driver():
    p = os.environ.get("FTDRIVER")
    if p:
        _C.DRIVER = Path(p)
    return _C.Driver()


# ------------------------------------------------------------------------------------------------
# watchdog
# ------------------------------------------------------------------------------------------------
class _Timeout(Exception):
    pass


def _alarm(signum, frame):  # pragma: no cover
    raise _Timeout()


def guarded(fn, *a, **k):
    """run a call of the real code under a watchdog; returns ('ok', value) | ('err', exc) | ('hang', None)"""
    old = signal.signal(signal.SIGALRM, _alarm)
    signal.alarm(CALL_TIMEOUT)
    try:
        return "ok", fn(*a, **k)
    except _Timeout:
        return "hang", None
    except Exception as e:  # noqa: BLE001
        return "err", e
    finally:
        signal.alarm(0)
        signal.signal(signal.SIGALRM, old)


# ------------------------------------------------------------------------------------------------
# building the real object
# ------------------------------------------------------------------------------------------------
EDIT_KINDS = ["addedge", "deledge", "addnode", "addnode", "delnode", "swap", "updattrs", "undo", "redo"]


def gen_ops(rng: random.Random, ses: Session, nops: int) -> list[dict]:
    """random editing session against the live state (ops are applied while generated)"""
    kinds = EDIT_KINDS + (["paint", "paint"] if ses.case.cfg == "seg" else [])
    ops: list[dict] = []
    tries = 0
    while len(ops) < nops and tries < 5 * nops:
        tries += 1
        op = G.gen_op(rng, ses.case, ses.tracks, kinds)
        if op["op"] == "addedge":  # only forward-in-time links (the solution-graph domain)
            g = ses.tracks.graph
            if op["u"] in g and op["v"] in g and g.nodes[op["u"]]["time"] >= g.nodes[op["v"]]["time"]:
                continue
        ses.apply(op)  # may raise Hang
        ops.append({k: v for k, v in op.items() if k != "groups"})
    return ops


def gen_relink_ops(rng: random.Random, ses: Session, n: int) -> list[dict]:
    """short editing session on a live object, biased to edits that change ancestry while keeping
    the node and edge COUNTS: move a node to another parent (delete-edge + add-edge), swap
    predecessors, undo/redo; ops are applied while generated"""
    ops: list[dict] = []
    for _ in range(n):
        g = ses.tracks.graph
        r = rng.random()
        cand: list[dict] = []
        if r < 0.45:
            edges = list(g.edges)
            rng.shuffle(edges)
            for p, c in edges:
                tc = g.nodes[c]["time"]
                alts = [q for q in g.nodes if q != p and q != c and g.nodes[q]["time"] < tc and g.out_degree(q) < 2]
                if alts:
                    q = rng.choice(alts)
                    cand = [{"op": "deledge", "u": int(p), "v": int(c)},
                            {"op": "addedge", "u": int(q), "v": int(c), "force": 0}]
                    break
        elif r < 0.6:
            withp = [x for x in g.nodes if g.in_degree(x) == 1]
            if len(withp) >= 2:
                a, b = rng.sample(withp, 2)
                cand = [{"op": "swap", "a": int(a), "b": int(b)}]
        elif r < 0.8:
            cand = [{"op": "undo"}]
        elif r < 0.9:
            cand = [{"op": "redo"}]
        if not cand:
            op = G.gen_op(rng, ses.case, ses.tracks, ["addedge", "deledge", "addnode", "delnode", "undo"])
            if op["op"] == "addedge" and op["u"] in g and op["v"] in g and \
                    g.nodes[op["u"]]["time"] >= g.nodes[op["v"]]["time"]:
                continue
            cand = [{k: v for k, v in op.items() if k != "groups"}]
        for op in cand:
            ses.apply(copy.deepcopy(op))  # may raise Hang
            ops.append(op)
    return ops


def build(spec: dict, ops: list[dict]) -> Session:
    ses = Session(spec)
    if spec.get("mixed_pos"):
        mix_pos(ses, spec)
    if spec.get("orphan_px") is not None:
        add_orphan(ses, spec)
    if spec.get("disable_first"):
        ses.tracks.disable_features(list(spec["disable_first"]))
    if spec.get("vel"):
        add_vel(ses, spec)
    for op in ops:
        ses.apply(copy.deepcopy(op))
    return ses


def state_valid(tracks) -> str | None:
    """the property domain: a forward-in-time forest with consistent ids (a state spoilt by a
    defect of the EDITING code is not this family's business; it is counted and skipped)"""
    g = tracks.graph
    for n, d in g.nodes(data=True):
        if not isinstance(d.get(TIME_KEY), (int, np.integer)) or d[TIME_KEY] < 0:
            return "time-not-natural"
        if d.get(TID_KEY) is None or d.get(LIN_KEY) is None:
            return "ids-missing"
    for u, v in g.edges:
        if g.nodes[u][TIME_KEY] >= g.nodes[v][TIME_KEY]:
            return "edge-not-forward"
    if any(g.in_degree(n) > 1 for n in g.nodes):
        return "merge"
    tid = {n: g.nodes[n][TID_KEY] for n in g.nodes}
    lin = {n: g.nodes[n][LIN_KEY] for n in g.nodes}
    if partition_problems(g, segments(g), tid, "track id"):
        return "track-ids-inconsistent"
    if partition_problems(g, list(nx.weakly_connected_components(g)), lin, "lineage id"):
        return "lineage-ids-inconsistent"
    if tracks.segmentation is not None:
        seg = tracks.segmentation
        labels = set(int(x) for x in np.unique(seg)) - {0} - set(getattr(tracks, "_verif_orphans", ()))
        if labels != set(int(n) for n in g.nodes):
            return "labels-vs-nodes"
    return None


# ------------------------------------------------------------------------------------------------
# canonical values / canonical table of a tracks object
# ------------------------------------------------------------------------------------------------
def cnum(x) -> str:
    if isinstance(x, (bool, np.bool_)):
        return f"b:{int(bool(x))}"
    if isinstance(x, (int, np.integer)):
        return f"n:{int(x)}"
    if isinstance(x, (float, np.floating)):
        f = float(x)
        if math.isfinite(f) and f.is_integer() and abs(f) < 2 ** 53:
            return f"n:{int(f)}"
        return "f:" + repr(f)
    if isinstance(x, str):
        return "s:" + x.replace(" ", "_")
    if x is None:
        return "none"
    return "?:" + repr(x).replace(" ", "_")


def cvals(v) -> list[str]:
    if isinstance(v, np.ndarray):
        v = v.tolist()
    if isinstance(v, (list, tuple)):
        return [cnum(e) if not isinstance(e, (list, tuple, np.ndarray)) else "?:nested" for e in v]
    return [cnum(v)]


def axis_names(ndim: int) -> list[str]:
    return ["z", "y", "x"] if ndim == 4 else ["y", "x"]


def table(tracks) -> dict:
    """canonical, JSON-able description of everything C14 talks about"""
    g = tracks.graph
    fd = tracks.features
    pk = fd.position_key
    per_axis = isinstance(pk, list)
    poskeys = list(pk) if per_axis else [pk]
    core = {fd.time_key, fd.tracklet_key, fd.lineage_key, *poskeys}
    nodes = []
    for n, d in g.nodes(data=True):
        if per_axis:
            pos = [d.get(k) for k in pk]
        else:
            pv = d.get(pk)
            pos = list(pv) if pv is not None else []
        nodes.append({
            "id": int(n), "time": int(d[fd.time_key]),
            "tid": None if d.get(fd.tracklet_key) is None else int(d[fd.tracklet_key]),
            "lin": None if d.get(fd.lineage_key) is None else int(d[fd.lineage_key]),
            "pos": [cnum(p) for p in pos],
            "feats": {k: cvals(v) for k, v in d.items() if k not in core and v is not None},
        })
    edges = [{"u": int(u), "v": int(v), "feats": {k: cvals(x) for k, x in d.items() if x is not None}}
             for u, v, d in g.edges(data=True)]
    seg = None
    if tracks.segmentation is not None:
        s = np.asarray(tracks.segmentation)
        seg = {"shape": [int(x) for x in s.shape], "flat": [int(x) for x in s.reshape(-1)]}
    return {
        "ndim": int(tracks.ndim), "per_axis": per_axis, "poskeys": poskeys,
        "nodes": nodes, "edges": edges, "seg": seg,
        "scale": None if tracks.scale is None else [cnum(x) for x in tracks.scale],
        "registry": list(fd.keys()),
        "special": [fd.time_key, pk if not per_axis else list(pk), fd.tracklet_key, fd.lineage_key],
    }


def registry_json(tracks) -> dict:
    """the feature registry as JSON would carry it (tuples ≙ lists)"""
    return json.loads(json.dumps(tracks.features.dump_json(), default=str))


class Intern:
    """canonical strings / key names ↦ small naturals (the model's opaque tokens)"""

    def __init__(self) -> None:
        self.v: dict[str, int] = {}
        self.k: dict[str, int] = {}
        self.one = self.val("n:1")

    def val(self, c: str) -> int:
        return self.v.setdefault(c, len(self.v))

    def fval(self, c: str) -> str:  # a value met in a file: must be one of the tracks' values
        t = self.v.get(c)
        return str(t) if t is not None else "?" + c

    def key(self, name: str) -> int:
        return self.k.setdefault(name, len(self.k))

    def fkey(self, name: str) -> str:
        t = self.k.get(name)
        return str(t) if t is not None else "?" + name.replace(" ", "_")


def enc_feats(fs: dict, I: Intern) -> list[str]:
    out = [str(len(fs))]
    for k, vs in fs.items():
        out += [str(I.key(k)), str(len(vs))] + [str(I.val(v)) for v in vs]
    return out


def enc_tracks(T: dict, I: Intern) -> list[str] | None:
    """the `tracks` part of a model line; None when outside the model's input language"""
    toks = [str(T["ndim"]), "1" if T["per_axis"] else "0", str(len(T["nodes"]))]
    for n in T["nodes"]:
        if n["tid"] is None or n["lin"] is None or n["tid"] < 0 or n["lin"] < 0 or n["time"] < 0 or n["id"] < 0:
            return None
        toks += [str(n["id"]), str(n["time"]), str(n["tid"]), str(n["lin"]), str(len(n["pos"]))]
        toks += [str(I.val(p)) for p in n["pos"]]
        toks += enc_feats(n["feats"], I)
    toks.append(str(len(T["edges"])))
    for e in T["edges"]:
        toks += [str(e["u"]), str(e["v"])] + enc_feats(e["feats"], I)
    if T["seg"] is None:
        toks.append("0")
    else:
        sh = T["seg"]["shape"]
        if any(x < 0 for x in T["seg"]["flat"]):
            return None
        toks += ["1", str(sh[0]), str(int(np.prod(sh[1:])))] + [str(x) for x in T["seg"]["flat"]]
    if T["scale"] is None:
        toks.append("0")
    else:
        toks += ["1", str(len(T["scale"]))] + [str(I.val(x)) for x in T["scale"]]
    toks += [str(len(T["registry"]))] + [str(I.key(k)) for k in T["registry"]]
    return toks


def enc_sel(sel) -> list[str]:
    if sel is None:
        return ["0"]
    sel = list(sel)
    return ["1", str(len(sel))] + [str(int(x)) for x in sel]


def r_seg(arr) -> list[str]:
    if arr is None:
        return ["seg", "0"]
    a = np.asarray(arr)
    return ["seg", "1", str(a.shape[0]), str(int(np.prod(a.shape[1:])))] + [str(int(x)) for x in a.reshape(-1)]


def col_of(name: str, T: dict, I: Intern) -> str:
    ax = axis_names(T["ndim"])
    if name in ("t", TIME_KEY):
        return "t"
    if T["per_axis"] and name in T["poskeys"]:
        return f"a{T['poskeys'].index(name)}"
    if name in ax:
        return f"a{ax.index(name)}"
    if name == "pos" and not T["per_axis"]:
        return "pos"
    return {"id": "id", "parent_id": "pid", TID_KEY: "tid", LIN_KEY: "lin",
            "source": "src", "target": "dst"}.get(name) or ("f" + I.fkey(name))


def cell_of(col: str, value, I: Intern) -> list[str]:
    """rendering of one stored value under column `col` (as the driver prints cells)"""
    if col in ("t", "id", "pid", "tid", "lin", "src", "dst"):
        try:
            f = float(value)
            if f.is_integer() and f >= 0:
                return [f"n{int(f)}"]
        except Exception:  # noqa: BLE001
            pass
        return ["?" + repr(value).replace(" ", "_")]
    if col.startswith("a"):
        return ["v" + I.fval(cnum(value))]
    vs = cvals(value)
    return ["L", str(len(vs))] + [I.fval(v) for v in vs]


def r_dict(items: list[tuple[str, list[str]]]) -> list[str]:
    out = [str(len(items))]
    for c, cell in sorted(items, key=lambda p: p[0]):
        out += [c] + cell
    return out


# ------------------------------------------------------------------------------------------------
# the files the real exporters wrote  →  the driver's canonical rendering
# ------------------------------------------------------------------------------------------------
def read_csv_file(path: Path) -> tuple[list[str], list[list[str]]]:
    with open(path, newline="") as f:
        rows = list(_csv.reader(f))
    return (rows[0], rows[1:]) if rows else ([], [])


def str_csv_file(path: Path, T: dict, I: Intern, sel_given: bool, seg=None, with_seg: bool = False) -> str:
    header, rows = read_csv_file(path)
    cols = [col_of(hd, T, I) for hd in header]
    if sel_given and "id" in cols:
        i = cols.index("id")
        rows = sorted(rows, key=lambda r: int(r[i]))
    out = ["ok", "hdr", str(len(cols))] + cols + ["rows", str(len(rows))]
    for r in rows:
        for c, txt in zip(cols, r):
            if txt == "":
                out.append("e")
            elif c.startswith("a"):
                out += cell_of(c, float(txt), I)
            else:
                out += cell_of(c, txt, I)
    if with_seg:
        out += r_seg(seg)
    return " ".join(out)


def _zarr_open(p: Path):
    import zarr
    return zarr.open(str(p), mode="r")


def read_geff_store(directory: Path) -> dict:
    """stdlib-level reading of the GEFF store (zarr arrays + attrs), no geff reader involved"""
    z = _zarr_open(directory / "tracks")
    meta = dict(z.attrs)["geff"]
    ids = [int(x) for x in z["nodes/ids"][:]]
    nprops: dict[str, Any] = {}
    if "props" in z["nodes"]:
        for name in z["nodes/props"].keys():
            grp = z["nodes/props"][name]
            nprops[name] = (np.asarray(grp["values"][:]),
                            np.asarray(grp["missing"][:]) if "missing" in grp else None,
                            [k for k in grp.keys() if k not in ("values", "missing")])
    eids = np.asarray(z["edges/ids"][:]).reshape(-1, 2) if "ids" in z["edges"] else np.zeros((0, 2))
    eprops: dict[str, Any] = {}
    if "props" in z["edges"]:
        for name in z["edges/props"].keys():
            grp = z["edges/props"][name]
            eprops[name] = (np.asarray(grp["values"][:]),
                            np.asarray(grp["missing"][:]) if "missing" in grp else None,
                            [k for k in grp.keys() if k not in ("values", "missing")])
    seg = None
    if (directory / "segmentation").exists():
        seg = np.asarray(_zarr_open(directory / "segmentation")[:])
    return {"meta": meta, "ids": ids, "nprops": nprops, "eids": [(int(a), int(b)) for a, b in eids],
            "eprops": eprops, "seg": seg}


def _prop_items(props: dict, i: int, T: dict, I: Intern) -> list[tuple[str, list[str]]]:
    items = []
    for name, (vals, missing, extra) in props.items():
        if missing is not None and bool(missing[i]):
            continue
        c = col_of(name, T, I)
        if extra:  # variable-length layout: not produced by the generators; make it visible
            items.append((c, ["?varlength"]))
            continue
        items.append((c, cell_of(c, vals[i], I)))
    return items


def str_geff_store(S: dict, T: dict, I: Intern) -> str:
    axes = S["meta"].get("axes") or []
    out = ["ok", "axes", str(len(axes))] + [col_of(a["name"], T, I) for a in axes]
    out += ["scale", str(len(axes))] + [I.fval(cnum(a["scale"])) for a in axes]
    order = sorted(range(len(S["ids"])), key=lambda i: S["ids"][i])
    out += ["nodes", str(len(order))]
    for i in order:
        out += [str(S["ids"][i])] + r_dict(_prop_items(S["nprops"], i, T, I))
    eorder = sorted(range(len(S["eids"])), key=lambda i: S["eids"][i])
    out += ["edges", str(len(eorder))]
    for i in eorder:
        out += [str(S["eids"][i][0]), str(S["eids"][i][1])] + r_dict(_prop_items(S["eprops"], i, T, I))
    out += r_seg(S["seg"])
    return " ".join(out)


def read_internal_dir(directory: Path) -> dict:
    with open(directory / "graph.json") as f:
        graph = json.load(f)
    with open(directory / "attrs.json") as f:
        attrs = json.load(f)
    seg = np.load(directory / "seg.npy") if (directory / "seg.npy").is_file() else None
    return {"graph": graph, "attrs": attrs, "seg": seg}


def str_internal_dir(D: dict, T: dict, I: Intern) -> str:
    attrs = D["attrs"]
    fdj = attrs.get("features", {}).get("FeatureDict", {})
    pk = fdj.get("position_key")
    out = ["ok", str(attrs.get("ndim")), "1" if isinstance(pk, list) else "0", "scale"]
    sc = attrs.get("scale")
    out += ["0"] if sc is None else ["1", str(len(sc))] + [I.fval(cnum(x)) for x in sc]
    reg = list(fdj.get("features", {}).keys())
    out += ["reg", str(len(reg))] + [I.fkey(k) for k in reg]
    nodes = D["graph"].get("nodes", [])
    out += ["nodes", str(len(nodes))]
    for d in nodes:
        out += r_dict([(col_of(k, T, I), cell_of(col_of(k, T, I), v, I)) for k, v in d.items() if v is not None])
    links = D["graph"].get("links", [])
    out += ["links", str(len(links))]
    for d in links:
        out += r_dict([(col_of(k, T, I), cell_of(col_of(k, T, I), v, I)) for k, v in d.items() if v is not None])
    out += r_seg(D["seg"])
    return " ".join(out)


# ------------------------------------------------------------------------------------------------
# re-imported objects  →  the driver's rendering of decode ∘ encode
# ------------------------------------------------------------------------------------------------
def _r_feats(fs: dict, keys, I: Intern) -> list[str]:
    items = [(I.key(k), fs[k]) for k in fs if keys is None or k in keys]
    out = [str(len(items))]
    for k, vs in sorted(items):
        out += [str(k), str(len(vs))] + [I.fval(v) for v in vs]
    return out


CSV_ULPS = 4  # pandas' default float parser is not last-bit exact (observed: up to 2 ulp)


def ulp_close(a: float, b: float) -> bool:
    return a == b or (math.isfinite(a) and math.isfinite(b)
                      and abs(a - b) <= CSV_ULPS * math.ulp(max(abs(a), abs(b))))


def _num(c: str) -> float | None:
    if c.startswith("n:"):
        return float(int(c[2:]))
    if c.startswith("f:"):
        return float(c[2:])
    return None


def snap_pos(T2: dict, T: dict) -> int:
    """CSV only: positions of the re-imported table that are within CSV_ULPS of the original are
    replaced by the original canonical value (documented tolerance); returns how many differed"""
    orig = {n["id"]: n for n in T["nodes"]}
    moved = 0
    for n in T2["nodes"]:
        o = orig.get(n["id"])
        if o is None or len(o["pos"]) != len(n["pos"]):
            continue
        for i, (a, b) in enumerate(zip(n["pos"], o["pos"])):
            if a != b:
                fa, fb = _num(a), _num(b)
                if fa is not None and fb is not None and ulp_close(fa, fb):
                    n["pos"][i] = b
                    moved += 1
    return moved


def str_csvrt(T2: dict, I: Intern) -> str:
    ns = sorted(T2["nodes"], key=lambda n: n["id"])
    out = ["ok", "nodes", str(len(ns))]
    for n in ns:
        out += [str(n["id"]), str(n["time"]), str(n["tid"]), str(len(n["pos"]))] + [I.fval(p) for p in n["pos"]]
    es = sorted((e["u"], e["v"]) for e in T2["edges"])
    out += ["edges", str(len(es))]
    for u, v in es:
        out += [str(u), str(v)]
    return " ".join(out)


def _r_node(n: dict, keys, I: Intern) -> list[str]:
    return ([str(n["id"]), str(n["time"]), str(n["tid"]), str(n["lin"]), str(len(n["pos"]))]
            + [I.fval(p) for p in n["pos"]] + _r_feats(n["feats"], keys, I))


def str_geffrt(T3: dict, ks: list[str], eks: list[str], I: Intern) -> str:
    ns = sorted(T3["nodes"], key=lambda n: n["id"])
    out = ["ok", "nodes", str(len(ns))]
    for n in ns:
        out += _r_node(n, set(ks), I)
    es = sorted(T3["edges"], key=lambda e: (e["u"], e["v"]))
    out += ["edges", str(len(es))]
    for e in es:
        out += [str(e["u"]), str(e["v"])] + _r_feats(e["feats"], set(eks), I)
    if T3["seg"] is None:
        out += ["seg", "0"]
    else:
        sh = T3["seg"]["shape"]
        out += ["seg", "1", str(sh[0]), str(int(np.prod(sh[1:])))] + [str(x) for x in T3["seg"]["flat"]]
    return " ".join(out)


def str_intrt(T4: dict, I: Intern) -> str:
    out = ["ok", str(T4["ndim"]), "1" if T4["per_axis"] else "0", "nodes", str(len(T4["nodes"]))]
    for n in T4["nodes"]:
        out += _r_node(n, None, I)
    out += ["edges", str(len(T4["edges"]))]
    for e in T4["edges"]:
        out += [str(e["u"]), str(e["v"])] + _r_feats(e["feats"], None, I)
    if T4["seg"] is None:
        out += ["seg", "0"]
    else:
        sh = T4["seg"]["shape"]
        out += ["seg", "1", str(sh[0]), str(int(np.prod(sh[1:])))] + [str(x) for x in T4["seg"]["flat"]]
    out += ["scale"] + (["0"] if T4["scale"] is None else ["1", str(len(T4["scale"]))] + [I.fval(x) for x in T4["scale"]])
    out += ["reg", str(len(T4["registry"]))] + [I.fkey(k) for k in T4["registry"]]
    return " ".join(out)


# ------------------------------------------------------------------------------------------------
# real exporters / importers
# ------------------------------------------------------------------------------------------------
def _ft():
    from funtracks.import_export import (export_to_csv, export_to_geff, import_from_geff, load_tracks,
                                         save_tracks, tracks_from_df)
    return export_to_csv, export_to_geff, import_from_geff, load_tracks, save_tracks, tracks_from_df


def tmpdir() -> Path:
    return Path(tempfile.mkdtemp(prefix="ftx_", dir="/tmp"))


def feature_keys(T: dict) -> tuple[list[str], list[str]]:
    ks: list[str] = []
    for n in T["nodes"]:
        for k in n["feats"]:
            if k not in ks:
                ks.append(k)
    eks: list[str] = []
    for e in T["edges"]:
        for k in e["feats"]:
            if k not in eks:
                eks.append(k)
    if T.get("seg") is not None:
        # a core measurement that is switched off (not in the registry) while stray values of it sit on
        # some nodes: the importers recompute it from the array, it is not a "loaded" feature
        ks = [k for k in ks if not (k in ("area", "pos") and k not in T.get("registry", [k]))]
    return ks, eks


def display_columns(key: str, feat: dict):
    """column name(s) of a feature in display-name mode, read off the feature's own description"""
    nv = feat.get("num_values", 1)
    if nv > 1:
        vn = feat.get("value_names")
        if vn is not None:
            return list(vn)
        base = feat.get("display_name", key)
        if isinstance(base, (list, tuple)) and len(base) == nv:
            return list(base)
        return [f"{base}_{i}" for i in range(nv)]
    return feat.get("display_name", key)


def centroid_outside_mask(tracks, scale) -> bool:
    """the importer's documented seg check (value of the label array at a node's position) cannot
    hold for a node whose position lies outside its own mask (non-convex masks)"""
    seg = tracks.segmentation
    if seg is None:
        return False
    sc = [1.0] * tracks.ndim if scale is None else list(scale)
    for n in tracks.graph.nodes:
        pos = tracks.get_position(n)
        coord = [int(tracks.get_time(n))] + [int(p / s) for p, s in zip(pos, sc[1:])]
        try:
            if int(seg[tuple(coord)]) != int(n):
                return True
        except IndexError:
            return True
    return False


def diff_tables(fmt: str, T: dict, T2: dict, ks, eks, extra: dict | None = None) -> list[tuple[str, str]]:
    """independent reading of C14 on two canonical tables (before export / after re-import)"""
    out: list[tuple[str, str]] = []
    a = {n["id"]: n for n in T["nodes"]}
    b = {n["id"]: n for n in T2["nodes"]}
    if set(a) != set(b):
        out.append((f"C14|{fmt}|nodes-differ", f"node ids before {sorted(a)} after {sorted(b)}"))
    ea = {(e["u"], e["v"]): e for e in T["edges"]}
    eb = {(e["u"], e["v"]): e for e in T2["edges"]}
    if set(ea) != set(eb):
        out.append((f"C14|{fmt}|edges-differ", f"edges before {sorted(ea)} after {sorted(eb)}"))
    fields = [("time", "time-differs"), ("pos", "position-differs"), ("tid", "track-id-differs")]
    if fmt != "csv" and fmt != "csv-display-nolin":
        fields.append(("lin", "lineage-id-differs"))
    for n in sorted(set(a) & set(b)):
        for fld, tag in fields:
            if a[n][fld] != b[n][fld]:
                out.append((f"C14|{fmt}|{tag}", f"node {n}: {fld} before {a[n][fld]} after {b[n][fld]}"))
        keys = ks if ks is not None else sorted(set(a[n]["feats"]) | set(b[n]["feats"]))
        for k in keys:
            if (fmt != "internal" and T.get("seg") is not None and k in ("area", "pos")
                    and k not in T.get("registry", [k])):
                # a core measurement that was SWITCHED OFF when the file was written (its stored values
                # may be missing or stale: C10 freezes them): the importer's constructor computes the
                # core measurements of every node from the array, so what comes back is recomputed,
                # not loaded — outside C14's "loaded rather than recomputed"
                continue
            if a[n]["feats"].get(k) != b[n]["feats"].get(k):
                out.append((f"C14|{fmt}|feature-differs",
                            f"node {n}: loaded feature {k!r} before {a[n]['feats'].get(k)} after {b[n]['feats'].get(k)}"))
    if fmt in ("geff", "internal"):
        for e in sorted(set(ea) & set(eb)):
            keys = eks if eks is not None else sorted(set(ea[e]["feats"]) | set(eb[e]["feats"]))
            for k in keys:
                if ea[e]["feats"].get(k) != eb[e]["feats"].get(k):
                    out.append((f"C14|{fmt}|edge-feature-differs",
                                f"edge {e}: {k!r} before {ea[e]['feats'].get(k)} after {eb[e]['feats'].get(k)}"))
        if T["seg"] != T2["seg"]:
            out.append((f"C14|{fmt}|segmentation-differs", "label arrays differ"))
    if fmt == "internal":
        if T["scale"] != T2["scale"]:
            out.append((f"C14|{fmt}|scale-differs", f"scale before {T['scale']} after {T2['scale']}"))
        if T["registry"] != T2["registry"] or T["special"] != T2["special"] or \
                (extra or {}).get("reg_before") != (extra or {}).get("reg_after"):
            out.append((f"C14|{fmt}|registry-differs",
                        f"registry before {T['registry']} {T['special']} after {T2['registry']} {T2['special']}"))
        if T["ndim"] != T2["ndim"]:
            out.append((f"C14|{fmt}|ndim-differs", f"{T['ndim']} -> {T2['ndim']}"))
    seen: set[str] = set()
    res = []
    for s, w in out:
        if s not in seen:
            seen.add(s)
            res.append((s, w))
    return res


class CaseOut:
    """what one check on one tracks object produced"""

    def __init__(self) -> None:
        self.fails: list[tuple[str, str, str]] = []      # (kind, signature, what)
        self.lines: list[str] = []                        # model input lines
        self.expect: list[tuple[str, str]] = []           # (label, rendering of the real side)
        self.counts: dict[str, int] = {}
        self.evals = 0
        self.nontrivial: list[str] = []
        self.aux: dict[int, str] = {}                     # line index -> line for the unrepaired model

    def fail(self, sig: str, what: str, kind: str = "oracle") -> None:
        self.fails.append((kind, sig, what))

    def count(self, k: str, n: int = 1) -> None:
        self.counts[k] = self.counts.get(k, 0) + n

    def model(self, label: str, line: str, real: str) -> None:
        self.lines.append(line)
        self.expect.append((label, real))


def _exc(e: Exception) -> str:
    return f"{type(e).__name__}: {str(e)[:160]}"


def idv_hook(tracks, co: CaseOut) -> None:
    """the importer's id validators (geff.validate.tracks, called by validate_in_memory_geff) on the ids
    of this state and on perturbed labellings, against their Lean model (FtModel/IdValidate.lean, family
    IDV, package R8V: `C14_reached_ids_validate` proves the verdict `true true` for every reached state)"""
    try:
        from geff.validate.tracks import validate_lineages, validate_tracklets
    except Exception:  # noqa: BLE001
        return
    g = tracks.graph
    fd = tracks.features
    if fd.tracklet_key is None or fd.lineage_key is None or not g.number_of_nodes():
        return
    nodes = [int(n) for n in g.nodes]
    edges = [(int(u), int(v)) for u, v in g.edges]
    try:
        tids = [int(g.nodes[n][fd.tracklet_key]) for n in g.nodes]
        lins = [int(g.nodes[n][fd.lineage_key]) for n in g.nodes]
    except (KeyError, TypeError, ValueError):
        return
    if min(nodes) < 0 or min(tids) < 0 or min(lins) < 0:
        return
    h_ = int(hashlib.sha256(repr((nodes, edges, tids)).encode()).hexdigest()[:8], 16)
    variants = [("as stored", tids, lins)]
    if len(nodes) >= 2:
        # deterministic perturbations (outside the reached states): one id copied onto another node /
        # one node given a fresh id
        i, j = h_ % len(nodes), (h_ // 7) % len(nodes)
        t2 = list(tids); t2[i] = tids[j]
        l2 = list(lins); l2[i] = max(lins) + 1
        variants.append(("perturbed", t2, l2))
    for label, tt, ll in variants:
        ea = np.array(edges, dtype=np.int64).reshape(-1, 2)
        try:
            rv = (validate_tracklets(np.array(nodes), ea, np.array(tt))[0], validate_lineages(np.array(nodes), ea, np.array(ll))[0])
        except Exception as e:  # noqa: BLE001
            co.count(f"idv:real-raised:{type(e).__name__}")
            continue
        line = " ".join(["IDV", str(len(nodes))] + [str(x) for x in nodes] + [str(len(edges))]
                        + [f"{u} {v}" for u, v in edges] + [str(x) for x in tt] + [str(x) for x in ll])
        co.model(f"C14 id validators ({label})", line, " ".join("t" if b else "f" for b in rv))
        co.count(f"idv:{label}:{'t' if rv[0] else 'f'}{'t' if rv[1] else 'f'}")
        if label == "as stored" and not all(rv):
            # the ids of a reached state are accepted (theorem C14_reached_ids_validate); a refusal means the
            # importer would drop and recompute them: the re-imported ids would no longer be those written
            co.fail("C14|id-validators|reached-state-refused", f"validate_tracklets / validate_lineages on the state's own ids: {rv}")


def check_c14(tracks, co: CaseOut, fmts=("csv", "csv-display", "geff", "internal"), model: bool = True) -> None:
    import pandas as pd
    export_to_csv, export_to_geff, import_from_geff, load_tracks, save_tracks, tracks_from_df = _ft()
    T = table(tracks)
    I = Intern()
    enc = enc_tracks(T, I)
    if enc is None:
        model = False
        co.count("model:outside-input-language")
    ks, eks = feature_keys(T)
    ax = axis_names(T["ndim"])
    empty = not T["nodes"]
    scale0 = None if tracks.scale is None else list(tracks.scale)
    if model:
        idv_hook(tracks, co)
    d = tmpdir()
    try:
        # ---------------------------------------------------------------- CSV (default layout)
        if "csv" in fmts:
            co.evals += 1
            st, r = guarded(export_to_csv, tracks, d / "a.csv")
            if st == "hang":
                co.fail("C14|csv|export-hang", "export_to_csv did not return", "hang")
            elif st == "err":
                co.fail("C14|csv|" + ("empty-tracks-" if empty else "") + "export-raises-" + type(r).__name__,
                        f"export_to_csv raised {_exc(r)}")
            else:
                if model:
                    co.model("C14 csv file", " ".join(["EX", "csv", str(I.one)] + enc + enc_sel(None)),
                             str_csv_file(d / "a.csv", T, I, False))
                nm = {"time": "t", "pos": ax, "id": "id", "parent_id": "parent_id", "track_id": "track_id"}
                st, t2 = guarded(lambda: tracks_from_df(pd.read_csv(d / "a.csv"), node_name_map=dict(nm)))
                if st != "ok":
                    co.fail("C14|csv|" + ("empty-tracks-" if empty else "") + "import-raises-" +
                            (type(t2).__name__ if st == "err" else "hang"),
                            f"tracks_from_df on the exported file: {_exc(t2) if st == 'err' else 'hang'}")
                else:
                    T2 = table(t2)
                    moved = snap_pos(T2, T)
                    if moved:
                        co.count("csv:floats-within-tolerance-not-bit-equal", moved)
                    for s, w in diff_tables("csv", T, T2, [], []):
                        co.fail(s, w)
                    if model:
                        co.model("C14 csv re-import", " ".join(["EX", "csvrt", str(I.one)] + enc), str_csvrt(T2, I))
        # ---------------------------------------------------------------- CSV (display names) — oracle only
        if "csv-display" in fmts and not empty:
            co.evals += 1
            st, r = guarded(export_to_csv, tracks, d / "b.csv", use_display_names=True)
            if st != "ok":
                co.fail("C14|csv-display|export-raises-" + (type(r).__name__ if st == "err" else "hang"),
                        f"export_to_csv(use_display_names=True): {_exc(r) if st == 'err' else 'hang'}")
            else:
                if model:
                    # the file against the Lean model of the display-name layout (family EXD, R6H)
                    ln = X.line_csv(tracks, I, enc, enc_sel(None))
                    if ln is not None:
                        co.model("C14 csv-display file", ln, X.str_file(d / "b.csv", tracks, I, cnum, False))
                fd = tracks.features
                nm: dict[str, Any] = {"id": "ID", "parent_id": "Parent ID"}
                loaded: list[str] = []
                for k, feat in fd.items():
                    if feat["feature_type"] != "node":
                        continue
                    cols = display_columns(k, feat)
                    if k == fd.time_key:
                        nm["time"] = cols
                    elif k == fd.position_key:
                        nm["pos"] = cols
                    elif isinstance(fd.position_key, list) and k in fd.position_key:
                        nm.setdefault("pos", [None] * len(fd.position_key))
                        nm["pos"][fd.position_key.index(k)] = cols
                    elif k == fd.tracklet_key:
                        nm["track_id"] = cols
                    elif k == fd.lineage_key:
                        nm["lineage_id"] = cols
                    elif k in ks:  # a column without a single value carries nothing to load
                        nm[k] = cols
                        loaded.append(k)
                st, t2 = guarded(lambda: tracks_from_df(pd.read_csv(d / "b.csv"), node_name_map=copy.deepcopy(nm)))
                if st != "ok":
                    co.fail("C14|csv-display|import-raises-" + (type(t2).__name__ if st == "err" else "hang"),
                            f"tracks_from_df(display-name file, {nm}): {_exc(t2) if st == 'err' else 'hang'}")
                else:
                    T2 = table(t2)
                    moved = snap_pos(T2, T)
                    if moved:
                        co.count("csv:floats-within-tolerance-not-bit-equal", moved)
                    _snap_feats(T2, T, loaded)
                    fmt = "csv-display" if "lineage_id" in nm else "csv-display-nolin"
                    for s, w in diff_tables(fmt, T, T2, [k for k in loaded if k in ks], []):
                        co.fail(s.replace("csv-display-nolin", "csv-display"), w)
                    # the same file through the other entry point: the builder reads the PATH itself
                    def _by_path():
                        from funtracks.import_export import CSVTracksBuilder
                        b = CSVTracksBuilder()
                        b.read_header(d / "b.csv")
                        b.node_name_map = copy.deepcopy(nm)
                        return b.build(d / "b.csv")
                    st, t2p = guarded(_by_path)
                    co.evals += 1
                    if st != "ok":
                        co.fail("C14|csv-display|path-import-raises-" + (type(t2p).__name__ if st == "err" else "hang"),
                                f"CSVTracksBuilder.build(<path of the display-name file>, {nm}): {_exc(t2p) if st == 'err' else 'hang'}")
                    else:
                        T2p = table(t2p)
                        snap_pos(T2p, T)
                        _snap_feats(T2p, T, loaded)
                        for s, w in diff_tables(fmt, T, T2p, [k for k in loaded if k in ks], []):
                            co.fail(s.replace("csv-display-nolin", "csv-display").replace("C14|csv-display|", "C14|csv-display|by-path|"), w)
        # ---------------------------------------------------------------- GEFF
        if "geff" in fmts:
            co.evals += 1
            st, r = guarded(export_to_geff, tracks, d / "g")
            if st != "ok":
                co.fail("C14|geff|" + ("empty-tracks-" if empty else "") + "export-raises-" +
                        (type(r).__name__ if st == "err" else "hang"),
                        f"export_to_geff: {_exc(r) if st == 'err' else 'hang'}")
            else:
                st, S = guarded(read_geff_store, d / "g")
                if st != "ok":
                    co.fail("C14|geff|store-unreadable", f"zarr-level read of the store: {S}", "divergence")
                    S = None
                elif model:
                    co.model("C14 geff store", " ".join(["EX", "geff", str(I.one)] + enc + enc_sel(None)),
                             str_geff_store(S, T, I))
                axn = T["poskeys"] if T["per_axis"] else ax
                nm = {"time": TIME_KEY, "pos": list(axn)}
                have = set(S["nprops"]) if S else set()
                for std in (TID_KEY, LIN_KEY):
                    if std in have or not S:
                        nm[std] = std
                for k in ks:
                    nm[k] = k
                enm = {k: k for k in eks}
                segp = (d / "g" / "segmentation") if tracks.segmentation is not None else None

                def imp(name_map):
                    return import_from_geff(d / "g" / "tracks", node_name_map=dict(name_map), edge_name_map=dict(enm),
                                            segmentation_path=segp, scale=scale0)

                st, t3 = guarded(imp, nm)
                if st == "err" and isinstance(t3, ValueError) and segp is not None and not empty and \
                        centroid_outside_mask(tracks, scale0):
                    # the importer's seg check needs every loaded position inside its own mask;
                    # for non-convex masks re-import with the position recomputed from the array
                    co.count("geff:import-with-loaded-pos-refused(position-outside-own-mask)")
                    nm2 = {k: v for k, v in nm.items() if k != "pos"}
                    st, t3 = guarded(imp, nm2)
                    co.count("geff:re-import-with-recomputed-position")
                if st != "ok":
                    co.fail("C14|geff|" + ("empty-tracks-" if empty else "") + "import-raises-" +
                            (type(t3).__name__ if st == "err" else "hang"),
                            f"import_from_geff on the exported store (key map {nm}): {_exc(t3) if st == 'err' else 'hang'}")
                else:
                    T3 = table(t3)
                    for s, w in diff_tables("geff", T, T3, ks, eks):
                        co.fail(s, w)
                    if model:
                        co.model("C14 geff re-import",
                                 " ".join(["EX", "geffrt", str(I.one)] + enc + [str(len(ks))] + [str(I.key(k)) for k in ks]
                                          + [str(len(eks))] + [str(I.key(k)) for k in eks]),
                                 str_geffrt(T3, ks, eks, I))
        # ---------------------------------------------------------------- internal format
        if "internal" in fmts:
            co.evals += 1
            T = table(tracks)  # (an unrepaired export_to_geff has written tracks.scale by now)
            I2 = Intern()
            enc2 = enc_tracks(T, I2)
            regb = registry_json(tracks)
            st, r = guarded(save_tracks, tracks, d / "s")
            if st != "ok":
                co.fail("C14|internal|save-raises-" + (type(r).__name__ if st == "err" else "hang"),
                        f"save_tracks: {_exc(r) if st == 'err' else 'hang'}")
            else:
                if model and enc2 is not None:
                    co.model("C14 internal dir", " ".join(["EX", "int", str(I2.one)] + enc2),
                             str_internal_dir(read_internal_dir(d / "s"), T, I2))
                st, t4 = guarded(load_tracks, d / "s", solution=True)
                if st != "ok":
                    co.fail("C14|internal|load-raises-" + (type(t4).__name__ if st == "err" else "hang"),
                            f"load_tracks: {_exc(t4) if st == 'err' else 'hang'}")
                else:
                    T4 = table(t4)
                    for s, w in diff_tables("internal", T, T4, None, None,
                                            {"reg_before": regb, "reg_after": registry_json(t4)}):
                        co.fail(s, w)
                    if model and enc2 is not None:
                        co.model("C14 internal re-load", " ".join(["EX", "intrt", str(I2.one)] + enc2), str_intrt(T4, I2))
                    if t4.segmentation is not None and np.asarray(t4.segmentation).size:
                        # the loaded copy is edited (not saved); what is on disk is still what was written
                        try:
                            t4.segmentation[...] = 0
                        except Exception:  # noqa: BLE001
                            pass
                        st, t5 = guarded(load_tracks, d / "s", solution=True)
                        if st != "ok":
                            co.fail("C14|internal|second-load-raises", f"load_tracks (second time): {_exc(t5) if st == 'err' else 'hang'}")
                        else:
                            for s_, w in diff_tables("internal", T, table(t5), None, None,
                                                     {"reg_before": regb, "reg_after": registry_json(t5)}):
                                co.fail(s_.replace("C14|internal|", "C14|internal|second-load-after-editing-the-first|"), w)
    finally:
        shutil.rmtree(d, ignore_errors=True)


def _snap_feats(T2: dict, T: dict, keys: list[str]) -> None:
    """CSV display mode: float feature values within 1 ulp are snapped like positions; a value
    missing on a node is an empty cell, which pandas reads back as NaN: NaN ≙ missing here"""
    orig = {n["id"]: n for n in T["nodes"]}
    for n in T2["nodes"]:
        o = orig.get(n["id"])
        if o is None:
            continue
        for k in keys:
            a, b = n["feats"].get(k), o["feats"].get(k)
            if b is None and a is not None and all(x == "f:nan" for x in a):
                del n["feats"][k]  # CSV: an empty cell is read back as NaN ≙ "no value"
                continue
            if a and b and len(a) == len(b) and a != b:
                n["feats"][k] = [y if (x != y and _num(x) is not None and _num(y) is not None
                                       and ulp_close(_num(x), _num(y))) else x for x, y in zip(a, b)]


# ------------------------------------------------------------------------------------------------
# C15 — subset export
# ------------------------------------------------------------------------------------------------
def closure(g: nx.DiGraph, sel) -> set[int]:
    """selection ∪ all ancestors, by a plain fixpoint over predecessor links"""
    keep = set(int(x) for x in sel)
    frontier = list(keep)
    while frontier:
        n = frontier.pop()
        for p in g.predecessors(n):
            if p not in keep:
                keep.add(int(p))
                frontier.append(int(p))
    return keep


def sel_arg(sel, salt: int = 0):
    """the same selection in the container a caller may hold it in: a set, a list, a list with
    repeated entries (node lists of several clicks concatenated), a tuple, a numpy array"""
    sel = [int(x) for x in sel]
    k = (sum(sel) * 7 + len(sel) * 3 + salt) % 5
    if k == 0:
        return set(sel)
    if k == 1:
        return list(sel)
    if k == 2:
        return list(sel) + list(reversed(sel)) + list(sel)
    if k == 3:
        return tuple(sel)
    return np.array(sel, dtype=np.int64)


def gen_selections(rng: random.Random, g: nx.DiGraph) -> list[tuple[str, list[int]]]:
    nodes = [int(n) for n in g.nodes]
    out: list[tuple[str, list[int]]] = [("empty", [])]
    if not nodes:
        return out
    roots = [n for n in nodes if g.in_degree(n) == 0]
    leaves_div = [n for n in nodes if g.out_degree(n) == 0 and
                  any(g.out_degree(a) >= 2 for a in nx.ancestors(g, n))]
    comps = [sorted(c) for c in nx.weakly_connected_components(g)]
    out.append(("roots", rng.sample(roots, rng.randint(1, len(roots)))))
    if leaves_div:
        out.append(("leaf-below-division", rng.sample(leaves_div, rng.randint(1, min(2, len(leaves_div))))))
    if len(comps) >= 2:
        cs = rng.sample(comps, rng.randint(2, min(3, len(comps))))
        out.append(("several-lineages", [rng.choice(c) for c in cs]))
    out.append(("all", list(nodes)))
    out.append(("random", rng.sample(nodes, rng.randint(1, len(nodes)))))
    deep = [n for n in nodes if g.in_degree(n) == 1]
    if deep:
        out.append(("single-non-root", [rng.choice(deep)]))
    return out


def _nodeset_fails(fmt: str, ids: set, keep: set, sel, stale_g) -> list[tuple[str, str]]:
    """oracle for the exported node set; `stale_g` = the graph as it was before the last edits"""
    if ids == keep:
        return []
    if stale_g is not None:
        old = closure(stale_g, [n for n in sel if n in stale_g]) | set(sel)
        if ids == old:
            return [(f"C15|{fmt}|stale-ancestors-after-edit",
                     f"selection {sorted(sel)}: exported {sorted(ids)} = selection + ancestors in the graph as it was "
                     f"BEFORE the last edits; in the current graph they are {sorted(keep)}")]
    out = []
    if ids - keep:
        out.append((f"C15|{fmt}|extra-node", f"selection {sorted(sel)}: nodes {sorted(ids - keep)} are neither selected "
                    f"nor ancestors (expected {sorted(keep)})"))
    if keep - ids:
        miss = sorted(keep - ids)
        out.append((f"C15|{fmt}|" + ("missing-selected-node" if set(miss) & set(sel) else "missing-ancestor"),
                    f"selection {sorted(sel)}: nodes {miss} not exported (expected {sorted(keep)})"))
    return out


def check_c15(tracks, rng: random.Random, co: CaseOut, selections=None, model: bool = True,
              fmts=("csv", "geff"), stale_g=None, malformed: bool = True) -> None:
    export_to_csv, export_to_geff = _ft()[0], _ft()[1]
    g = tracks.graph.copy()
    T = table(tracks)
    I = Intern()
    enc = enc_tracks(T, I)
    if enc is None:
        model = False
        co.count("model:outside-input-language")
    seg0 = None if tracks.segmentation is None else np.array(tracks.segmentation, copy=True)
    tid = {int(n): int(g.nodes[n][TID_KEY]) for n in g.nodes}
    if selections is None:
        selections = gen_selections(rng, g)
    d = tmpdir()
    try:
        for i, (kind, sel) in enumerate(selections):
            keep = closure(g, sel)
            ref = set(sel)
            for n in sel:
                ref |= nx.ancestors(g, n)
            assert ref == keep
            exp_edges = {(int(u), int(v)) for u, v in g.edges if u in keep and v in keep}
            co.count(f"C15:selection:{kind}")
            nontriv = 0 < len(keep) < g.number_of_nodes() or len(keep) > len(set(sel))
            tag = h([sorted(T["nodes"], key=lambda n: n["id"]) and [(n["id"], n["time"]) for n in T["nodes"]],
                     sorted((e["u"], e["v"]) for e in T["edges"]), sorted(sel)])
            if model:
                co.model(f"C15 closure ({kind})", " ".join(["EX", "anc", str(I.one)] + enc + enc_sel(sel)),
                         " ".join(["ok", str(len(keep))] + [str(x) for x in sorted(keep)]))
            # ------------------------------------------------------------ CSV
            for with_seg in ((False, True) if seg0 is not None else (False,)):
                if "csv" not in fmts:
                    break
                co.evals += 1
                if nontriv:
                    co.nontrivial.append(h([tag, "csv", with_seg]))
                f, tif = d / f"c{i}{int(with_seg)}.csv", d / f"c{i}.tif"
                kw = dict(export_seg=True, seg_path=tif) if with_seg else {}
                st, r = guarded(export_to_csv, tracks, f, node_ids=sel_arg(sel), **kw)
                pre = "C15|csv|" + ("empty-selection-" if not sel else "")
                if st != "ok":
                    co.fail(pre + ("seg-" if with_seg else "") + "export-raises-" + (type(r).__name__ if st == "err" else "hang"),
                            f"export_to_csv(node_ids={sorted(sel)}, export_seg={with_seg}): {_exc(r) if st == 'err' else 'hang'}",
                            "hang" if st == "hang" else "oracle")
                    continue
                header, rows = read_csv_file(f)
                ix = {name: j for j, name in enumerate(header)}
                ids = [int(r_[ix["id"]]) for r_ in rows]
                if len(ids) != len(set(ids)):
                    co.fail("C15|csv|duplicate-rows", f"selection {sorted(sel)}: ids {ids}")
                nf = _nodeset_fails("csv", set(ids), keep, sel, stale_g)
                for sg, w in nf:
                    co.fail(sg, w)
                if nf and nf[0][0].endswith("stale-ancestors-after-edit"):
                    continue  # everything else in this file is a consequence
                got_edges = set()
                for r_ in rows:
                    p = r_[ix["parent_id"]]
                    n = int(r_[ix["id"]])
                    if p != "":
                        got_edges.add((int(float(p)), n))
                        if int(float(p)) not in set(ids):
                            co.fail("C15|csv|missing-parent", f"row {n} names parent {p} which is not exported")
                exp_e = {e for e in exp_edges if e[1] in set(ids) and e[0] in set(ids)}
                if got_edges - {(int(u), int(v)) for u, v in g.edges}:
                    co.fail("C15|csv|edge-extra", f"links {sorted(got_edges - set(g.edges))} are not edges of the graph")
                if exp_e - got_edges:
                    co.fail("C15|csv|edge-missing", f"edges {sorted(exp_e - got_edges)} among exported nodes are not written")
                seg_out = None
                if with_seg:
                    import tifffile
                    seg_out = np.asarray(tifffile.imread(tif))
                    lut = np.zeros(int(seg0.max()) + 1, dtype=np.int64)
                    for n in keep:
                        if n <= seg0.max():
                            lut[n] = tid[n]
                    expected = lut[seg0]
                    if seg_out.shape != seg0.shape or not np.array_equal(seg_out.astype(np.int64), expected):
                        co.fail("C15|csv|seg-differs", f"selection {sorted(sel)}: relabelled array is not "
                                f"'track id on the masks of {sorted(keep)}, background elsewhere'")
                if model:
                    co.model(f"C15 csv file ({kind}{', seg' if with_seg else ''})",
                             " ".join(["EX", "csvseg" if with_seg else "csv", str(I.one)] + enc + enc_sel(sel)),
                             str_csv_file(f, T, I, True, seg_out, with_seg))
            # ------------------------------------------------------------ CSV, display-name layout
            if "csv" in fmts:
                co.evals += 1
                fdn = d / f"cd{i}.csv"
                st, r = guarded(export_to_csv, tracks, fdn, node_ids=sel_arg(sel, 1), use_display_names=True)
                if st != "ok":
                    co.fail("C15|csv-display|" + ("empty-selection-" if not sel else "") + "export-raises-" +
                            (type(r).__name__ if st == "err" else "hang"),
                            f"export_to_csv(node_ids={sorted(sel)}, use_display_names=True): {_exc(r) if st == 'err' else 'hang'}",
                            "hang" if st == "hang" else "oracle")
                else:
                    hdr_, rows_ = read_csv_file(fdn)
                    if "ID" in hdr_:
                        j = hdr_.index("ID")
                        ids_ = [int(r_[j]) for r_ in rows_]
                        if len(ids_) != len(set(ids_)):
                            co.fail("C15|csv-display|duplicate-rows", f"selection {sorted(sel)}: ids {ids_}")
                        for sg, w in _nodeset_fails("csv-display", set(ids_), keep, sel, stale_g):
                            co.fail(sg, w)
                        if "Parent ID" in hdr_:
                            jp = hdr_.index("Parent ID")
                            for r_ in rows_:
                                if r_[jp] != "" and int(float(r_[jp])) not in set(ids_):
                                    co.fail("C15|csv-display|missing-parent", f"row {r_[j]} names parent {r_[jp]} which is not exported")
                    if model:
                        ln = X.line_csv(tracks, I, enc, enc_sel(sel))
                        if ln is not None:
                            co.model(f"C15 csv-display file ({kind})", ln, X.str_file(fdn, tracks, I, cnum, True))
            # ------------------------------------------------------------ GEFF
            if "geff" in fmts:
                co.evals += 1
                if nontriv:
                    co.nontrivial.append(h([tag, "geff", seg0 is not None]))
                st, r = guarded(export_to_geff, tracks, d / f"g{i}", node_ids=sel_arg(sel, 2))
                pre = "C15|geff|" + ("empty-selection-" if not sel else "")
                if st != "ok":
                    co.fail(pre + "export-raises-" + (type(r).__name__ if st == "err" else "hang"),
                            f"export_to_geff(node_ids={sorted(sel)}): {_exc(r) if st == 'err' else 'hang'}",
                            "hang" if st == "hang" else "oracle")
                    continue
                st, S = guarded(read_geff_store, d / f"g{i}")
                if st != "ok":
                    co.fail("C15|geff|store-unreadable", f"{S}", "divergence")
                    continue
                ids = set(S["ids"])
                nf = _nodeset_fails("geff", ids, keep, sel, stale_g)
                for sg, w in nf:
                    co.fail(sg, w)
                if nf and nf[0][0].endswith("stale-ancestors-after-edit"):
                    continue
                ge = set(S["eids"])
                if ge - exp_edges:
                    co.fail("C15|geff|edge-extra", f"edges {sorted(ge - exp_edges)}")
                if exp_edges - ge:
                    co.fail("C15|geff|edge-missing", f"edges {sorted(exp_edges - ge)} among exported nodes are not written")
                for (u, v) in ge:
                    if u not in ids or v not in ids:
                        co.fail("C15|geff|missing-parent", f"edge {(u, v)} has an endpoint that is not exported")
                if seg0 is not None:
                    expected = np.where(np.isin(seg0, sorted(keep)), seg0, 0)
                    if S["seg"] is None or S["seg"].shape != seg0.shape or not np.array_equal(S["seg"], expected):
                        co.fail("C15|geff|seg-differs", f"selection {sorted(sel)}: exported array is not the label array "
                                f"masked to {sorted(keep)}")
                elif S["seg"] is not None:
                    co.fail("C15|geff|seg-unexpected", "a segmentation was written for tracks without one")
                if model:
                    co.model(f"C15 geff store ({kind})", " ".join(["EX", "geff", str(I.one)] + enc + enc_sel(sel)),
                             str_geff_store(S, T, I))
        # ---------------------------------------------------------------- malformed stream
        # a selection naming a node that is not in the graph: networkx refuses (both exporters)
        if model and malformed and selections:
            unk = max([0] + [int(n) for n in g.nodes]) + 1 + rng.randrange(5)
            bad = [unk] + [int(n) for n in list(g.nodes)[:1]]
            for fmt, call in (("csv", lambda: export_to_csv(tracks, d / "m.csv", node_ids=set(bad))),
                              ("geff", lambda: export_to_geff(tracks, d / "mg", node_ids=set(bad)))):
                if fmt not in fmts:
                    continue
                st, r = guarded(call)
                co.count(f"C15:malformed-selection:{fmt}:" + (type(r).__name__ if st == "err" else st))
                real = "err:nx" if (st == "err" and isinstance(r, nx.NetworkXError)) else f"{st}:{type(r).__name__}"
                co.model(f"C15 unknown node in selection ({fmt})",
                         " ".join(["EX", fmt, str(I.one)] + enc + enc_sel(bad)), real)
    finally:
        shutil.rmtree(d, ignore_errors=True)


# ------------------------------------------------------------------------------------------------
# C16 — read-only operations
# ------------------------------------------------------------------------------------------------
def deep(v):
    """type-faithful canonical form (a query that turns a list into an array is a change)"""
    if isinstance(v, np.ndarray):
        return ("ndarray", str(v.dtype), tuple(deep(x) for x in v.tolist()))
    if isinstance(v, (list, tuple)):
        return (type(v).__name__, tuple(deep(x) for x in v))
    if isinstance(v, dict):
        return ("dict", tuple((str(k), deep(x)) for k, x in v.items()))
    if isinstance(v, (float, np.floating)):
        return (type(v).__name__, repr(float(v)))
    if isinstance(v, (bool, np.bool_, int, np.integer, str)) or v is None:
        return (type(v).__name__, repr(v))
    return (type(v).__name__, repr(v))


def snapshot(tracks) -> dict:
    g = tracks.graph
    ta = tracks.track_annotator
    fd = tracks.features
    seg = tracks.segmentation
    return {
        "node-order": tuple(g.nodes),
        "graph-level-attributes": deep(dict(g.graph)),
        "nodes": {int(n): tuple((k, deep(v)) for k, v in d.items()) for n, d in g.nodes(data=True)},
        "edge-order": tuple(g.edges),
        "edges": {(int(u), int(v)): tuple((k, deep(x)) for k, x in d.items()) for u, v, d in g.edges(data=True)},
        "segmentation": None if seg is None else (str(seg.dtype), tuple(seg.shape), seg.tobytes()),
        "scale": None if tracks.scale is None else deep(tracks.scale),
        "ndim": tracks.ndim,
        "registry": tuple((k, deep(dict(f))) for k, f in fd.items()),
        "special-keys": deep([fd.time_key, fd.position_key, fd.tracklet_key, fd.lineage_key]),
        "track-lookup": {int(k): tuple(sorted(int(x) for x in v)) for k, v in ta.tracklet_id_to_nodes.items()},
        "lineage-lookup": {int(k): tuple(sorted(int(x) for x in v)) for k, v in ta.lineage_id_to_nodes.items()},
        "max-ids": (ta.max_tracklet_id, ta.max_lineage_id),
        "node-id-counter": tracks.node_id_counter,
        "history": (len(tracks.action_history.undo_stack), len(tracks.action_history.redo_stack),
                    getattr(tracks.action_history, "_undo_pointer", None)),
        "annotators": tuple((type(a).__name__, tuple(sorted(a.features.keys())),
                             tuple(sorted(k for k, (_, on) in a.all_features.items() if on)))
                            for a in tracks.annotators),
    }


def snap_diff(a: dict, b: dict) -> list[tuple[str, str]]:
    out = []
    for k in a:
        if a[k] != b[k]:
            if k == "scale" and a[k] is None:
                out.append(("scale-none-overwritten", f"tracks.scale was None, is now {b[k]}"))
            elif k == "segmentation":
                out.append(("segmentation-changed", "array bytes / dtype / shape differ"))
            elif isinstance(a[k], dict):
                ks = [x for x in set(a[k]) | set(b[k]) if a[k].get(x) != b[k].get(x)]
                out.append((f"{k}-changed", "; ".join(f"{x}: {a[k].get(x)} -> {b[k].get(x)}" for x in sorted(ks, key=str)[:3])[:400]))
            else:
                out.append((f"{k}-changed", f"{str(a[k])[:150]} -> {str(b[k])[:150]}"))
    return out


def enc_book(book: dict) -> list[str]:
    out = [str(len(book))]
    for k, v in book.items():
        out += [str(int(k)), str(len(v))] + [str(int(x)) for x in v]
    return out


def enc_state(tracks, T: dict, I: Intern) -> list[str] | None:
    enc = enc_tracks(T, I)
    if enc is None:
        return None
    ta = tracks.track_annotator
    act = sorted({k for a in tracks.annotators for k in a.features})
    return (enc + enc_book(ta.tracklet_id_to_nodes) + enc_book(ta.lineage_id_to_nodes)
            + [str(ta.max_tracklet_id), str(ta.max_lineage_id), str(tracks.node_id_counter),
               str(len(tracks.action_history.undo_stack)), str(len(tracks.action_history.redo_stack))]
            + [str(len(act))] + [str(I.key(k)) for k in act])


def r_state_after(tracks, I: Intern) -> list[str]:
    sc = tracks.scale
    out = ["st", "scale"] + (["0"] if sc is None else ["1", str(len(sc))] + [I.fval(cnum(x)) for x in sc])
    book = tracks.track_annotator.tracklet_id_to_nodes
    out += ["t2n", str(len(book))]
    for k in sorted(book):
        out += [str(int(k)), str(len(book[k]))] + [str(int(x)) for x in book[k]]
    return out + ["out"]


def _opt_vals(v, I: Intern) -> list[str]:
    if v is None:
        return ["0"]
    vs = cvals(v)
    return ["1", str(len(vs))] + [I.fval(x) for x in vs]


def gen_ro_ops(rng: random.Random, tracks, d: Path) -> list[dict]:
    """(name, call on the real object, model opcode+args, rendering of the real result)"""
    export_to_csv, export_to_geff, _, _, save_tracks, _ = _ft()
    g = tracks.graph
    nodes = [int(n) for n in g.nodes]
    edges = [(int(u), int(v)) for u, v in g.edges]
    ta = tracks.track_annotator
    tids = sorted(ta.tracklet_id_to_nodes)
    has_seg = tracks.segmentation is not None
    T_max = 6
    ops: list[dict] = []

    def sub():
        return sorted(rng.sample(nodes, rng.randint(0, len(nodes)))) if nodes else []

    def add(name, call, code=None, render=None, key=None):
        ops.append({"name": name, "call": call, "code": code, "render": render, "key": key or name})

    s1, s2 = sub(), sub()
    add("export_to_csv", lambda: export_to_csv(tracks, d / "q.csv"), ["0"] + enc_sel(None), ("csv", d / "q.csv", None, False))
    add("export_to_csv(subset)", lambda: export_to_csv(tracks, d / "qs.csv", node_ids=set(s1)),
        ["0"] + enc_sel(s1), ("csv", d / "qs.csv", None, True), key=f"export_to_csv(subset) {s1}")
    add("export_to_csv(display names)", lambda: export_to_csv(tracks, d / "qd.csv", use_display_names=True))
    if has_seg:
        add("export_to_csv(export_seg)", lambda: export_to_csv(tracks, d / "qx.csv", export_seg=True, seg_path=d / "qx.tif"),
            ["1"] + enc_sel(None), ("csvseg", d / "qx.csv", d / "qx.tif", False))
    add("export_to_geff", lambda: export_to_geff(tracks, d / "qg"), ["2"] + enc_sel(None), ("geff", d / "qg"))
    add("export_to_geff(subset)", lambda: export_to_geff(tracks, d / "qgs", node_ids=set(s2)),
        ["2"] + enc_sel(s2), ("geff", d / "qgs"), key=f"export_to_geff(subset) {s2}")
    if tids:
        # one track exported by handing over the LIVE list of the track lookup (oracle only)
        tl = rng.choice(tids)
        add("export_to_csv(node_ids=track_id_to_node[tid])",
            lambda: export_to_csv(tracks, d / "ql.csv", node_ids=tracks.track_id_to_node[tl]), key=f"export_to_csv(live lookup list {tl})")
        add("export_to_geff(node_ids=track_id_to_node[tid])",
            lambda: export_to_geff(tracks, d / "qgl", node_ids=tracks.track_id_to_node[tl]), key=f"export_to_geff(live lookup list {tl})")
    add("save_tracks", lambda: save_tracks(tracks, d / "qi"), ["3"], ("int", d / "qi"))
    add("features", lambda: list(tracks.features.keys()), ["19"], ("keys",))
    add("nodes()", lambda: tracks.nodes(), ["11"], ("nats",))
    add("edges()", lambda: tracks.edges(), ["12"], ("pairs",))
    add("in_degree()", lambda: tracks.in_degree(), ["13"], ("pairs",))
    add("out_degree()", lambda: tracks.out_degree(), ["14"], ("pairs",))
    add("get_next_track_id", lambda: tracks.get_next_track_id(), ["9"], ("nat",))
    add("get_next_lineage_id", lambda: tracks.get_next_lineage_id(), ["10"], ("nat",))
    add("get_available_features", lambda: tracks.get_available_features())
    add("features.node_features/edge_features/dump_json",
        lambda: (tracks.features.node_features, tracks.features.edge_features, tracks.features.dump_json()))
    add("max_track_id/track_id_to_node", lambda: (tracks.max_track_id, dict(tracks.track_id_to_node)))
    if nodes:
        ns = rng.sample(nodes, rng.randint(1, min(4, len(nodes))))
        n1 = rng.choice(nodes)
        add("get_positions", lambda: tracks.get_positions(ns), ["4", str(len(ns))] + [str(x) for x in ns], ("poss",),
            key=f"get_positions {ns}")
        add("get_positions(incl_time)", lambda: tracks.get_positions(ns, incl_time=True))
        add("get_position", lambda: tracks.get_position(n1))
        add("get_position(incl_time)", lambda: tracks.get_position(n1, incl_time=True))
        add("get_times", lambda: tracks.get_times(ns), ["5", str(len(ns))] + [str(x) for x in ns], ("nats",),
            key=f"get_times {ns}")
        add("get_time", lambda: tracks.get_time(n1))
        add("get_pixels", lambda: tracks.get_pixels(n1), ["6", str(n1)], ("pixels",), key=f"get_pixels {n1}")
        add("in_degree(nodes)", lambda: tracks.in_degree(np.array(ns)))
        add("out_degree(nodes)", lambda: tracks.out_degree(np.array(ns)))
        add("predecessors", lambda: tracks.predecessors(n1), ["15", str(n1)], ("nats",), key=f"predecessors {n1}")
        add("successors", lambda: tracks.successors(n1), ["16", str(n1)], ("nats",), key=f"successors {n1}")
        add("get_track_id/get_lineage_id", lambda: (tracks.get_track_id(n1), tracks.get_lineage_id(n1)))
        attrs = [k for k in g.nodes[n1] if k not in (TIME_KEY, TID_KEY, LIN_KEY, "pos", "z", "y", "x")] + ["score", "no_such_key"]
        k1 = rng.choice(attrs)
        add("get_node_attr", lambda: tracks.get_node_attr(n1, k1), ("attr", n1, k1), ("vals",), key=f"get_node_attr {n1} {k1}")
        add("get_nodes_attr", lambda: tracks.get_nodes_attr(ns, k1))
        for _ in range(2):
            tid = rng.choice(tids) if tids and rng.random() < 0.85 else rng.randrange(1, 40)
            t = rng.randrange(T_max)
            add("get_track_neighbors", (lambda tid=tid, t=t: tracks.get_track_neighbors(tid, t)),
                ["7", str(tid), str(t)], ("optpair",), key=f"get_track_neighbors {tid} {t}")
            add("has_track_id_at_time", (lambda tid=tid, t=t: tracks.has_track_id_at_time(tid, t)),
                ["8", str(tid), str(t)], ("bool",), key=f"has_track_id_at_time {tid} {t}")
    if edges:
        e1 = rng.choice(edges)
        ek = rng.choice(list(g.edges[e1].keys()) + ["iou", "w"])
        add("get_edge_attr", lambda: tracks.get_edge_attr(e1, ek), ("eattr", e1, ek), ("vals",), key=f"get_edge_attr {e1} {ek}")
        add("get_edges_attr", lambda: tracks.get_edges_attr(edges, ek))
    rng.shuffle(ops)
    return ops


def render_ro(op: dict, result, tracks, T: dict, I: Intern) -> list[str] | None:
    r = op["render"]
    kind = r[0]
    if kind == "csv":
        return ["csv"] + str_csv_file(r[1], T, I, r[3]).split(" ")[1:]
    if kind == "csvseg":
        import tifffile
        return ["csvseg"] + str_csv_file(r[1], T, I, r[3], np.asarray(tifffile.imread(r[2])), True).split(" ")[1:]
    if kind == "geff":
        return ["geff"] + str_geff_store(read_geff_store(r[1]), T, I).split(" ")[1:]
    if kind == "int":
        return ["int"] + str_internal_dir(read_internal_dir(r[1]), T, I).split(" ")[1:]
    if kind == "keys":
        return ["nats", str(len(result))] + [I.fkey(k) for k in result]
    if kind == "nats":
        vals = [int(x) for x in list(result)]
        return ["nats", str(len(vals))] + [str(x) for x in vals]
    if kind == "pairs":
        arr = [tuple(int(y) for y in x) for x in np.asarray(result).reshape(-1, 2).tolist()]
        return ["pairs", str(len(arr))] + [str(y) for x in arr for y in x]
    if kind == "nat":
        return ["nat", str(int(result))]
    if kind == "bool":
        return ["bool", "1" if result else "0"]
    if kind == "optpair":
        return ["optpair"] + ["-" if x is None else str(int(x)) for x in result]
    if kind == "poss":
        rows = np.asarray(result).tolist()
        out = ["poss", str(len(rows))]
        for row in rows:
            out += ["1", str(len(row))] + [I.fval(cnum(x)) for x in row]
        return out
    if kind == "pixels":
        if result is None:
            return ["pixels", "0"]
        flat = np.ravel_multi_index(tuple(np.asarray(a) for a in result), tracks.segmentation.shape) \
            if len(result[0]) else np.zeros(0, dtype=np.int64)
        return ["pixels", "1", str(len(flat))] + [str(int(x)) for x in flat]
    if kind == "vals":
        return ["vals"] + _opt_vals(result, I)
    return None


def check_c16(tracks, rng: random.Random, co: CaseOut, model: bool = True, only: str | None = None) -> None:
    d = tmpdir()
    try:
        ops = gen_ro_ops(rng, tracks, d)
        if only is not None:
            ops = [o for o in ops if o["name"] == only]
        T = table(tracks)
        I = Intern()
        dirty = False
        for op in ops:
            if dirty:
                T = table(tracks)
                I = Intern()
                dirty = False
            before = snapshot(tracks)
            st_enc = enc_state(tracks, T, I) if (model and op["code"] is not None) else None
            code = op["code"]
            if st_enc is not None and isinstance(code, tuple):  # attribute queries: keys must be interned first
                if code[0] == "attr":
                    code = ["17", str(code[1]), str(I.key(code[2]))]
                else:
                    code = ["18", str(code[1][0]), str(code[1][1]), str(I.key(code[2]))]
            st, res = guarded(op["call"])
            co.evals += 1
            co.count("C16:op:" + op["name"])
            if T["nodes"]:
                co.nontrivial.append(h([T["nodes"], T["edges"], T["scale"], op["key"]]))
            after = snapshot(tracks)
            if st == "hang":
                co.fail(f"C16|{op['name']}|hang", "did not return", "hang")
                continue
            diffs = snap_diff(before, after)
            for tag, what in diffs:
                co.fail(f"C16|{op['name'].split('(')[0]}|{tag}", f"{op['key']}: {what}")
            if diffs:
                dirty = True
            if st == "err":
                # an exporter that raises on a valid object is C14/C15's business; the snapshot
                # comparison above still applies (a failed read-only call must not modify either)
                co.count(f"C16:raised:{op['name']}:{type(res).__name__}")
                continue
            if st_enc is not None:
                try:
                    rr = render_ro(op, res, tracks, T, I)
                except Exception as e:  # noqa: BLE001
                    rr = ["?render", type(e).__name__]
                if rr is not None:
                    real = " ".join(r_state_after(tracks, I) + rr)
                    if code[0] == "2":  # export_to_geff: the model of the code before the repair, for replays
                        co.aux[len(co.lines)] = " ".join(["EX", "roorig", str(I.one)] + st_enc + code[1:])
                    co.model(f"C16 {op['name']}", " ".join(["EX", "ro", str(I.one)] + st_enc + code), real)
    finally:
        shutil.rmtree(d, ignore_errors=True)


# ------------------------------------------------------------------------------------------------
# C16 on plain `Tracks` (no track ids, any DAG incl. merges): the exporters and queries that such
# an object offers must leave it alone too — in particular they must not "upgrade" it in place
# ------------------------------------------------------------------------------------------------
def snapshot_plain(tracks) -> dict:
    g = tracks.graph
    fd = tracks.features
    seg = tracks.segmentation
    return {
        "class": type(tracks).__name__,
        "node-order": tuple(g.nodes),
        "graph-level-attributes": deep(dict(g.graph)),
        "nodes": {int(n): tuple((k, deep(v)) for k, v in d.items()) for n, d in g.nodes(data=True)},
        "edge-order": tuple(g.edges),
        "edges": {(int(u), int(v)): tuple((k, deep(x)) for k, x in d.items()) for u, v, d in g.edges(data=True)},
        "segmentation": None if seg is None else (str(seg.dtype), tuple(seg.shape), seg.tobytes()),
        "scale": None if tracks.scale is None else deep(tracks.scale),
        "ndim": tracks.ndim,
        "registry": tuple((k, deep(dict(f))) for k, f in fd.items()),
        "special-keys": deep([fd.time_key, fd.position_key, fd.tracklet_key, fd.lineage_key]),
        "history": (len(tracks.action_history.undo_stack), len(tracks.action_history.redo_stack)),
        "annotators": tuple((type(a).__name__, tuple(sorted(a.features.keys())),
                             tuple(sorted(k for k, (_, on) in a.all_features.items() if on)))
                            for a in tracks.annotators),
    }


def plain_c16_cases(rng: random.Random, n: int, res: Result) -> None:
    from funtracks.data_model import Tracks
    export_to_csv, export_to_geff = _ft()[0], _ft()[1]
    seen: set = set()
    for _ in range(n):
        spec = G.gen_case(rng, with_ids=False)
        spec.pop("prebuilt", None)
        case = F.Case(spec)
        g = nx.DiGraph()
        nsp = case.ndim - 1
        for x in spec["nodes"]:
            a: dict = {"time": x["time"]}
            if case.cfg == "pos":
                a["pos"] = [float(x["pos"])] * nsp
            elif case.cfg == "axes":
                for ax in F.axis_names(case.ndim):
                    a[ax] = float(x["pos"])
            if "score" in x:
                a["score"] = x["score"]
            g.add_node(x["id"], **a)
        g.add_edges_from((e["u"], e["v"]) for e in spec["edges"])
        nodes = list(g.nodes)
        for v in nodes:  # merges
            if rng.random() < 0.3:
                c = [u for u in nodes if g.nodes[u]["time"] < g.nodes[v]["time"] and not g.has_edge(u, v)]
                if c:
                    g.add_edge(rng.choice(c), v)
        kw: dict = dict(scale=case.scale, ndim=case.ndim)
        if case.cfg == "seg":
            kw["segmentation"] = np.array(spec["seg"], dtype=np.dtype(spec.get("seg_dtype", "int64"))).reshape(case.shape)
        if case.cfg == "axes":
            kw["pos_attr"] = F.axis_names(case.ndim)
        no_tid = case.cfg == "pos" and rng.random() < 0.5
        try:
            if no_tid:
                # a SOLUTION whose registry has no tracklet key (an older attrs.json loads like this):
                # queries that need track ids may raise, but nothing may be computed behind the scenes
                from funtracks.data_model import SolutionTracks
                from funtracks.features import FeatureDict, Position, Time
                for i_, x_ in enumerate(g.nodes):
                    g.nodes[x_]["track_id"] = 3 + i_
                fd = FeatureDict({"time": Time(), "pos": Position(F.axis_names(case.ndim))}, time_key="time",
                                 position_key="pos", tracklet_key=None)
                t = SolutionTracks(g, features=fd, scale=case.scale, ndim=case.ndim)
            else:
                t = Tracks(g, **kw)
                t.features["score"] = {"feature_type": "node", "value_type": "int", "num_values": 1,
                                       "required": False, "default_value": None}
        except Exception as e:  # noqa: BLE001
            res.count(f"plain-tracks:construct-raised:{type(e).__name__}")
            continue
        res.count(f"plain-tracks:cfg:{case.cfg}{case.ndim - 1}d" + (":solution-without-tracklet-key" if no_tid else ""))
        d = tmpdir()
        try:
            sel = set(rng.sample(nodes, rng.randint(1, len(nodes)))) if nodes else set()
            n1 = rng.choice(nodes) if nodes else None
            calls = [
                ("export_to_csv(display names)", lambda: export_to_csv(t, d / "p.csv", use_display_names=True)),
                ("export_to_csv(display names, subset)", lambda: export_to_csv(t, d / "ps.csv", node_ids=set(sel), use_display_names=True)),
                ("export_to_geff", lambda: export_to_geff(t, d / "pg")),
                ("export_to_geff(subset)", lambda: export_to_geff(t, d / "pgs", node_ids=set(sel))),
                ("nodes()/edges()", lambda: (t.nodes(), t.edges(), t.in_degree(), t.out_degree())),
                ("get_available_features", lambda: t.get_available_features()),
                ("features views", lambda: (t.features.node_features, t.features.edge_features, t.features.dump_json())),
            ]
            if n1 is not None:
                calls += [("get_positions/get_times", lambda: (t.get_positions([n1]), t.get_times([n1]), t.get_time(n1))),
                          ("predecessors/successors", lambda: (t.predecessors(n1), t.successors(n1))),
                          ("get_node_attr", lambda: (t.get_node_attr(n1, "score"), t.get_nodes_attr([n1], "time")))]
                if case.cfg == "seg":
                    calls.append(("get_pixels", lambda: t.get_pixels(n1)))
                if no_tid:
                    calls += [("get_track_id", lambda: t.get_track_id(n1)),
                              ("get_track_neighbors", lambda: t.get_track_neighbors(3, 1)),
                              ("get_next_track_id", lambda: t.get_next_track_id())]
            if no_tid:
                calls += [("export_to_csv", lambda: export_to_csv(t, d / "q.csv")),
                          ("export_to_csv(subset)", lambda: export_to_csv(t, d / "qs.csv", node_ids=set(sel)))]
            rng.shuffle(calls)
            for name, call in calls:
                before = snapshot_plain(t)
                st, r = guarded(call)
                res.evaluations += 1
                res.count("plain-tracks:op:" + name + ("" if st == "ok" else f":{type(r).__name__ if st == 'err' else st}"))
                res.nontrivial.add(h([spec["nodes"], spec["edges"], name, sorted(sel)]))
                diffs = snap_diff(before, snapshot_plain(t))
                for tag, what in diffs:
                    sig = f"C16|plain-tracks|{name.split('(')[0]}|{tag}"
                    if sig not in seen:
                        seen.add(sig)
                        res.failures.append(Failure("oracle", "C16", sig, f"plain Tracks, {name}: {what}",
                                                    {"plain_tracks": {k: spec[k] for k in spec if k != "seg"},
                                                     "merge_edges": [list(e) for e in g.edges], "call": name, "selection": sorted(sel)}))
                if diffs:
                    break
        finally:
            shutil.rmtree(d, ignore_errors=True)


# ------------------------------------------------------------------------------------------------
# running cases, shrinking, entry points
# ------------------------------------------------------------------------------------------------
def run_check(prop: str, tracks, seed: int, extra: dict | None = None, model: bool = True,
              stale_g=None) -> CaseOut:
    extra = extra or {}
    rng = random.Random(seed)
    co = CaseOut()
    if prop == "C14":
        check_c14(tracks, co, fmts=tuple(extra.get("fmts") or ("csv", "csv-display", "geff", "internal")), model=model)
        T = table(tracks)
        if T["nodes"]:
            co.nontrivial.append(h([T["nodes"], T["edges"], T["seg"] is not None, T["scale"]]))
    elif prop == "C15":
        sels = extra.get("selections")
        check_c15(tracks, rng, co, selections=[(k, list(s)) for k, s in sels] if sels else None, model=model,
                  fmts=tuple(extra.get("fmts") or ("csv", "geff")), stale_g=stale_g, malformed=stale_g is None)
    else:
        check_c16(tracks, rng, co, model=model, only=extra.get("only"))
    return co


def run_sequence(prop: str, ses: Session, seed: int, extra: dict | None, model: bool = True) -> list[CaseOut]:
    """check → (extra['seq']: edits on the same object → check again).  One CaseOut per phase."""
    extra = extra or {}
    outs = [run_check(prop, ses.tracks, seed, {k: v for k, v in extra.items() if k != "seq"}, model)]
    seq = extra.get("seq")
    if seq:
        g0 = ses.tracks.graph.copy()
        for op in seq["mid_ops"]:
            ses.apply(copy.deepcopy(op))
        if state_valid(ses.tracks) is None:
            e2 = dict(seq.get("extra2") or {})
            if extra.get("fmts") and "fmts" not in e2:
                e2["fmts"] = extra["fmts"]
            outs.append(run_check(prop, ses.tracks, seq["seed2"], e2, model, stale_g=g0))
    return outs


def mix_pos(ses: Session, spec: dict) -> None:
    t = ses.tracks
    axes = F.axis_names(spec["ndim"])
    for x, v in zip(spec["nodes"], spec["mixed_pos"]):
        if x["id"] not in t.graph:
            continue
        if spec["cfg"] == "axes":
            for a, c in zip(axes, v):
                t.graph.nodes[x["id"]][a] = c
        else:
            t.graph.nodes[x["id"]]["pos"] = list(v)


def add_orphan(ses: Session, spec: dict) -> None:
    t = ses.tracks
    flat = t.segmentation.reshape(-1)
    p_ = spec["orphan_px"]
    if int(flat[p_]) == 0:
        flat[p_] = 151
        t._verif_orphans = (151,)


def add_vel(ses: Session, spec: dict) -> None:
    t = ses.tracks
    t.features["vel"] = {"feature_type": "node", "value_type": "float", "num_values": 2,
                         "required": False, "default_value": None}
    for x, v in zip(spec["nodes"], spec["vel"]):
        if x["id"] in t.graph:
            t.graph.nodes[x["id"]]["vel"] = list(v)


BIG_SHARE = {"C14": 0.02, "C15": 0.05, "C16": 0.02}


def make_case(rng: random.Random, intensify: bool, prop: str | None = None) -> tuple[dict, list[dict], Session] | None:
    if rng.random() < BIG_SHARE.get(prop or "", 0.0):
        # a large structure (dozens of ancestors, wide id range): no editing session before it
        spec = G.gen_big_case(rng)
        return spec, [], Session(spec)
    spec = G.gen_case(rng)
    if rng.random() < 0.3:
        # graph-level attributes (nx.DiGraph(name=…)): part of "the graph" that nothing may modify
        spec["graph_attrs"] = {"name": "embryo 7, lineage A", "source": "tracker v2", "frames": 5}
    ses = Session(spec)
    if spec["cfg"] in ("pos", "axes") and rng.random() < 0.25:
        # positions of mixed numeric types: an integer plane/row index on the first axis (a Python
        # int), sub-pixel floats on the others
        spec["mixed_pos"] = [[rng.randrange(0, 30)] + [rng.randrange(0, 40) + rng.choice([0.25, 0.5, 0.75])
                                                         for _ in range(spec["ndim"] - 2)] for _ in spec["nodes"]]
        mix_pos(ses, spec)
    if spec["cfg"] == "seg" and not spec.get("id_base") and rng.random() < 0.2:
        # a label of the array that belongs to no node (an unselected detection): exporters and the
        # save format must carry the array as it is
        spec["orphan_px"] = rng.randrange(int(np.prod(spec["shape"])))
        add_orphan(ses, spec)
    if spec["cfg"] == "seg" and rng.random() < 0.15:
        spec["disable_first"] = rng.choice([["area"], ["lineage_id"], ["area", "lineage_id"]])
    elif spec["cfg"] != "seg" and rng.random() < 0.1:
        spec["disable_first"] = ["lineage_id"]
    if spec.get("disable_first"):
        # a core feature switched off before anything is written (the registry must come back as saved)
        ses.tracks.disable_features(list(spec["disable_first"]))
    if rng.random() < 0.3:
        # a custom registered MULTI-VALUE node feature without value names / display name
        # (every built-in multi-value feature has value names)
        spec["vel"] = [[float(rng.randrange(-20, 20)) + rng.choice([0.0, 0.5]), float(rng.randrange(1, 9))]
                       for _ in spec["nodes"]]
        add_vel(ses, spec)
    ops: list[dict] = []
    if rng.random() < (0.7 if intensify else 0.5):
        ops = gen_ops(random.Random(rng.getrandbits(64)), ses, rng.randint(6, 10))
    return spec, ops, ses


def reproduces(prop: str, spec: dict, ops: list[dict], seed: int, extra: dict, sig: str) -> bool:
    try:
        ses = build(spec, ops)
        if state_valid(ses.tracks):
            return False
        cos = run_sequence(prop, ses, seed, extra, model=False)
    except Exception:  # noqa: BLE001
        return False
    return any(s == sig for co in cos for _, s, _ in co.fails)


def _get_sels(extra: dict, phase: int):
    if phase == 1:
        return extra.get("selections")
    return ((extra.get("seq") or {}).get("extra2") or {}).get("selections")


def _with_sels(extra: dict, phase: int, sels) -> dict:
    e = copy.deepcopy(extra)
    if phase == 1:
        e["selections"] = sels
    else:
        e["seq"]["extra2"]["selections"] = sels
    return e


def shrink(prop: str, spec: dict, ops: list[dict], seed: int, extra: dict, sig: str, budget_s: float = 30.0) -> dict:
    """delta debugging over: edits before the first export, edits between the exports (if any),
    the pinned selections of both phases, the nodes of the initial state"""
    t0 = _time.time()
    extra = copy.deepcopy(extra)
    fmt = sig.split("|")[1] if prop in ("C14", "C15") else None
    if (prop == "C14" and fmt in ("csv", "csv-display", "geff", "internal")) or (prop == "C15" and fmt in ("csv", "geff")):
        extra["fmts"] = [fmt]
    if not reproduces(prop, spec, ops, seed, extra, sig):
        extra.pop("fmts", None)
        if not reproduces(prop, spec, ops, seed, extra, sig):
            return {"spec": spec, "ops": ops, "check_seed": seed, "extra": extra, "note": "not minimised (did not reproduce in isolation)"}

    def left() -> bool:
        return _time.time() - t0 < budget_s

    if extra.get("seq") and reproduces(prop, spec, ops, seed, {k: v for k, v in extra.items() if k != "seq"}, sig):
        extra.pop("seq")  # the failure does not need the second phase
    if prop == "C15":  # one selection per phase first: makes every later attempt cheaper
        for phase in ((2, 1) if extra.get("seq") else (1,)):
            sels = _get_sels(extra, phase)
            if not sels:
                continue
            for k, sl in [(k, list(x)) for k, x in sels]:
                e2 = _with_sels(extra, phase, [(k, sl)])
                if left() and reproduces(prop, spec, ops, seed, e2, sig):
                    extra = e2
                    break
    changed = True
    while changed and left():
        changed = False
        for i in range(len(ops)):
            cand = ops[:i] + ops[i + 1:]
            if reproduces(prop, spec, cand, seed, extra, sig):
                ops, changed = cand, True
                break
    changed = True
    while changed and left() and extra.get("seq"):
        changed = False
        mid = extra["seq"]["mid_ops"]
        for i in range(len(mid)):
            e2 = copy.deepcopy(extra)
            e2["seq"]["mid_ops"] = mid[:i] + mid[i + 1:]
            if reproduces(prop, spec, ops, seed, e2, sig):
                extra, changed = e2, True
                break
    if prop == "C15":
        for phase in ((2, 1) if extra.get("seq") else (1,)):
            changed = True
            while changed and left() and len(_get_sels(extra, phase) or []) == 1:
                changed = False
                k, sl = _get_sels(extra, phase)[0]
                for x in list(sl):
                    e2 = _with_sels(extra, phase, [(k, [y for y in sl if y != x])])
                    if reproduces(prop, spec, ops, seed, e2, sig):
                        extra, changed = e2, True
                        break
    changed = True
    while changed and left():
        changed = False
        for x in list(spec["nodes"]):
            s2 = copy.deepcopy(spec)
            s2["nodes"] = [y for y in s2["nodes"] if y["id"] != x["id"]]
            s2["edges"] = [e for e in s2["edges"] if x["id"] not in (e["u"], e["v"])]
            if s2.get("seg"):
                s2["seg"] = [0 if v == x["id"] else v for v in s2["seg"]]
            e2 = extra
            if prop == "C15":
                for phase in (1, 2):
                    sels = _get_sels(e2, phase)
                    if sels:
                        e2 = _with_sels(e2, phase, [(k, [y for y in sl if y != x["id"]]) for k, sl in sels])
            if reproduces(prop, s2, ops, seed, e2, sig):
                spec, extra, changed = s2, e2, True
                break
    for key in ("enable",):
        if spec.get(key):
            s2 = {**spec, key: []}
            if reproduces(prop, s2, ops, seed, extra, sig):
                spec = s2
    return {"spec": spec, "ops": ops, "check_seed": seed, "extra": extra,
            "note": f"minimised by delta debugging; replay with ./check {prop} --replay <this file>"}


def _sel_extra(prop: str, tracks, seed: int) -> dict:
    """C15: pin the generated selections so that a replay does not depend on the generator"""
    if prop != "C15":
        return {}
    return {"selections": gen_selections(random.Random(seed), tracks.graph)}


def _one_case(prop: str, spec: dict, ops: list[dict], ses: Session, seed: int, res: Result,
              pend: list, seen: dict[str, int], stream: str) -> None:
    tracks = ses.tracks
    bad = state_valid(tracks)
    if bad:
        res.count(f"skipped:state-outside-domain:{bad}")
        return
    res.count(f"stream:{stream}")
    res.count(f"cfg:{spec['cfg']}{spec.get('ndim', 3) - 1}d")
    res.count("edited" if ops else "as-constructed")
    res.count(f"nodes:{tracks.graph.number_of_nodes()}")
    res.count("scale:" + ("none" if tracks.scale is None else "given"))
    g = tracks.graph
    if any(g.out_degree(n) >= 2 for n in g.nodes):
        res.count("has:division")
    if any(g.nodes[v][TIME_KEY] - g.nodes[u][TIME_KEY] > 1 for u, v in g.edges):
        res.count("has:skip-edge")
    if any(g.degree(n) == 0 for n in g.nodes):
        res.count("has:isolated-node")
    if any(v is None for _, a in g.nodes(data=True) for v in a.values()):
        res.count("has:none-valued-attribute")
    extra = _sel_extra(prop, tracks, seed)
    big = bool(spec.get("big"))
    if big:
        # large structures go to the oracle only: the table-level Lean model is executable but its
        # list-based lookups are quadratic, minutes per case at this size
        res.count("size:big(oracle-only)")
    co = run_check(prop, tracks, seed, extra, model=not big)
    if len(res.samples) < 3 and tracks.graph.number_of_nodes() >= 3 and ops:
        res.samples.append({"spec": {k: spec[k] for k in ("cfg", "ndim", "scale", "nodes", "edges") if k in spec},
                            "ops": ops[:10]})
    phases: list[tuple[CaseOut, dict]] = [(co, extra)]
    # ---- second phase on the SAME object: edit again (count-preserving re-linkings), export again
    rng2 = random.Random(seed ^ 0x5EED)
    if stream == "random" and not big and tracks.graph.number_of_edges() >= 1 and \
            rng2.random() < {"C15": 0.65, "C14": 0.25, "C16": 0.25}[prop]:
        g0 = tracks.graph.copy()
        try:
            mid = gen_relink_ops(rng2, ses, rng2.randint(1, 4))
        except Hang:
            res.count("skipped:second-phase-hang")
            mid = None
        if mid is not None:
            bad = state_valid(tracks)
            if bad:
                res.count(f"skipped:second-phase-state-outside-domain:{bad}")
            else:
                e2: dict = {}
                if prop == "C15":
                    now = set(int(n) for n in tracks.graph.nodes)
                    same = [(k, [n for n in sl if n in now]) for k, sl in extra["selections"]
                            if k in ("random", "single-non-root", "leaf-below-division", "several-lineages")]
                    fresh = [(k + "-fresh", sl) for k, sl in gen_selections(rng2, tracks.graph) if k in ("random", "single-non-root")]
                    e2 = {"selections": same[:3] + fresh[:2]}
                seed2 = rng2.getrandbits(32)
                co2 = run_check(prop, tracks, seed2, e2, stale_g=g0)
                full = {**extra, "seq": {"mid_ops": mid, "seed2": seed2, "extra2": e2}}
                phases.append((co2, full))
                res.count("second-phase:cases")
                res.count("second-phase:exports-or-calls", co2.evals)
                changed = set(g0.edges) != set(tracks.graph.edges)
                if changed and (g0.number_of_nodes(), g0.number_of_edges()) == \
                        (tracks.graph.number_of_nodes(), tracks.graph.number_of_edges()):
                    res.count("second-phase:edges-changed-with-same-node-and-edge-counts")
                elif changed:
                    res.count("second-phase:edges-changed")
                else:
                    res.count("second-phase:edges-unchanged")
                for op in mid:
                    res.count("second-phase:op:" + op["op"])
    failed = False
    for cox, ex in phases:
        res.evaluations += cox.evals
        res.nontrivial.update(cox.nontrivial)
        for k, v in cox.counts.items():
            res.count(k, v)
        for kind, sig, what in cox.fails:
            failed = True
            res.count(("oracle-fail:" if kind != "divergence" else "divergence:") + sig)
            seen[sig] = seen.get(sig, 0) + 1
            if seen[sig] <= 1:
                if kind == "oracle":
                    rp = shrink(prop, spec, ops, seed, ex, sig)
                    w2: list[str] = []
                    try:
                        cos = run_sequence(prop, build(rp["spec"], rp["ops"]), rp["check_seed"], rp["extra"], model=False)
                        w2 = [w for c in cos for _, sg, w in c.fails if sg == sig]
                    except Exception:  # noqa: BLE001
                        pass
                    res.failures.append(Failure("oracle", prop, sig, w2[0] if w2 else what, rp))
                else:
                    res.failures.append(Failure(kind, prop, sig, what,
                                                {"spec": spec, "ops": ops, "check_seed": seed, "extra": ex}))
        for line, (label, real) in zip(cox.lines, cox.expect):
            pend.append((line, label, real, {"spec": spec, "ops": ops, "check_seed": seed, "extra": ex}))
    if failed:
        res.count("cases-failing-oracle")


FIXED_CASES: list[dict] = [
    # D5 probe: scale None, one division, GEFF export
    {"spec": {"cfg": "pos", "ndim": 3, "with_ids": True, "scale": None,
              "nodes": [{"id": 1, "time": 0, "pos": 5, "tid": 1, "lin": 1}, {"id": 2, "time": 1, "pos": 6, "tid": 2, "lin": 1},
                        {"id": 3, "time": 1, "pos": 7, "tid": 3, "lin": 1}, {"id": 9, "time": 3, "pos": 8, "tid": 3, "lin": 1},
                        {"id": 4, "time": 2, "pos": 9, "tid": 5, "lin": 7, "score": 3}],
              "edges": [{"u": 1, "v": 2}, {"u": 1, "v": 3}, {"u": 3, "v": 9, "w": 4}]}, "ops": []},
    # empty tracks
    {"spec": {"cfg": "pos", "ndim": 3, "with_ids": True, "scale": None, "nodes": [], "edges": []}, "ops": []},
    {"spec": {"cfg": "seg", "ndim": 3, "with_ids": True, "scale": None, "shape": [2, 3, 3], "seg": [0] * 18,
              "enable": [], "nodes": [], "edges": []}, "ops": []},
    # attribute left as None by undo of an attribute update
    {"spec": {"cfg": "axes", "ndim": 3, "with_ids": True, "scale": [1.0, 1.0, 1.0],
              "nodes": [{"id": 4, "time": 0, "pos": 5, "tid": 1, "lin": 1}, {"id": 7, "time": 1, "pos": 6, "tid": 1, "lin": 1, "score": 8}],
              "edges": [{"u": 4, "v": 7}]},
     "ops": [{"op": "updattrs", "n": 4, "attrs": {"20": 11}}, {"op": "undo"}]},
]


def _shard(args) -> Result:
    prop, seed, ncases, intensify, fixed = args
    rng = random.Random(seed)
    res = Result(rule=RULES[prop])
    pend: list = []
    seen: dict[str, int] = {}
    if fixed:
        for fx in FIXED_CASES:
            try:
                ses = build(fx["spec"], fx["ops"])
            except Exception as e:  # noqa: BLE001
                res.notes.append(f"fixed case not buildable: {type(e).__name__}: {str(e)[:100]}")
                continue
            _one_case(prop, fx["spec"], fx["ops"], ses, 12345, res, pend, seen, "fixed-corpus")
    if prop == "C16" and not fixed:
        plain_c16_cases(random.Random(seed ^ 0x9A1A), max(4, ncases // 3), res)
    for _ in range(ncases):
        try:
            made = make_case(rng, intensify, prop)
        except Hang:
            res.count("skipped:editing-session-hang")
            continue
        except Exception as e:  # noqa: BLE001  construction failed: tooling limit, say so
            res.count(f"skipped:case-not-buildable:{type(e).__name__}")
            continue
        spec, ops, ses = made
        _one_case(prop, spec, ops, ses, rng.getrandbits(32), res, pend, seen, "random")
    # ---- correspondence (batch)
    if pend:
        try:
            outs = _driver().run([p[0] for p in pend])
        except Exception as e:  # noqa: BLE001
            res.notes.append(f"driver failure: {e}")
            res.failures.append(Failure("divergence", prop, f"{prop}|driver|unavailable", str(e)[:300], {}))
            return res
        ndiv: dict[str, int] = {}
        for (line, label, real, rp), mout in zip(pend, outs):
            res.compared_steps += 1
            if real != mout:
                lab = label.split(" (")[0]
                sig = f"{prop}|model-vs-code|" + lab.split(" ", 1)[1].replace(" ", "-")
                res.count("divergence:" + sig)
                ndiv[sig] = ndiv.get(sig, 0) + 1
                if ndiv[sig] <= 1:
                    rt, mt = real.split(" "), mout.split(" ")
                    j = next((i for i, (a, b) in enumerate(zip(rt, mt)) if a != b), min(len(rt), len(mt)))
                    res.failures.append(Failure(
                        "divergence", prop, sig,
                        f"{label}: first difference at token {j}: real …{' '.join(rt[max(0, j - 8):j + 8])}… "
                        f"model …{' '.join(mt[max(0, j - 8):j + 8])}…", {**rp, "label": label}))
    return res


BUDGET = {"quick": {"C14": 272, "C15": 128, "C16": 240}, "thorough": {"C14": 3200, "C15": 1200, "C16": 3200}}


def run(prop: str, tier: str, seed: int, intensify: bool = False) -> Result:
    assert prop in PROPS
    t0 = _time.time()
    total = BUDGET.get(tier, BUDGET["quick"])[prop]
    if intensify:
        total = int(total * 1.5)
    n = ncores()
    per = max(1, total // n)
    seeds = shard_seeds(seed * 1000 + int(prop[1:]) + (500 if intensify else 0), n)
    jobs = [(prop, s, per, intensify, i == 0) for i, s in enumerate(seeds)]
    res = Result(rule=RULES[prop])
    with get_context("fork").Pool(n) as pool:
        for r in pool.imap_unordered(_shard, jobs):
            res.merge(r)
    # a change that makes the construction of the objects under test fail must not pass vacuously
    nb = sum(v for k, v in res.distribution.items() if k.startswith("skipped:case-not-buildable:"))
    if nb > max(8, 0.05 * (nb + res.evaluations)) or res.evaluations == 0:
        res.failures.append(Failure("oracle", prop, f"{prop}|construction|objects-under-test-cannot-be-built",
                                    f"{nb} cases could not be constructed ("
                                    + ", ".join(sorted(k.rsplit(':', 1)[1] for k in res.distribution if k.startswith('skipped:case-not-buildable:')))
                                    + f"); {res.evaluations} evaluations made", {"not_buildable": nb}))
    # one failure per signature, smallest replay first
    res.failures.sort(key=lambda f: (f.kind != "oracle", f.signature, len(json.dumps(f.replay, default=str))))
    uniq: dict[tuple[str, str], Failure] = {}
    for f in res.failures:
        uniq.setdefault((f.kind, f.signature), f)
    res.failures = list(uniq.values())
    ev = max(1, res.evaluations)
    res.notes.append(f"cases failing the oracle: {res.distribution.get('cases-failing-oracle', 0)}; "
                     f"evaluations {ev}; model-vs-code comparisons {res.compared_steps}; wall {(_time.time() - t0):.1f}s")
    if prop == "C14":
        res.notes.append(f"CSV: pandas' default float parser is not last-bit exact; re-imported float values within "
                         f"{CSV_ULPS} ulp are accepted (counted as csv:floats-within-tolerance-not-bit-equal); the file itself "
                         "is compared exactly with the model's encode")
        res.notes.append("GEFF with a label array: the importer's own seg check needs a loaded position to lie inside its "
                         "mask; for non-convex masks the store is re-imported with the position recomputed from the array "
                         "(counted as geff:import-with-loaded-pos-refused)")
    return res


def replay(prop: str, replay_obj: dict) -> int:
    rp = replay_obj.get("replay", replay_obj)
    if "spec" not in rp:
        cases = [d for d in rp.get("divergences", []) if isinstance(d, dict) and "spec" in d]
        if not cases:
            print(json.dumps(replay_obj, indent=1, default=str)[:4000])
            return 0
    else:
        cases = [rp]
    rc = 0
    for c in cases:
        spec, ops = c["spec"], c.get("ops", [])
        print("initial :", json.dumps({k: spec.get(k) for k in ("cfg", "ndim", "scale", "nodes", "edges")}))
        print("edits   :", json.dumps(ops))
        ses = build(spec, ops)
        t = ses.tracks
        print("tracks  : nodes", list(t.graph.nodes(data=True)))
        print("          edges", list(t.graph.edges(data=True)), "scale", t.scale, "seg", t.segmentation is not None)
        bad = state_valid(t)
        if bad:
            print("state is outside the property's domain:", bad)
        extra = c.get("extra") or {}
        seq = extra.get("seq")
        if seq:
            print("then    : export / query (phase 1), edits on the same object", json.dumps(seq["mid_ops"]),
                  ", export / query again (phase 2)", json.dumps(seq.get("extra2")))
        cos = run_sequence(prop, ses, c.get("check_seed", 0), extra)
        if seq:
            print("tracks after the second edits: edges", list(t.graph.edges))
        for ph, co in enumerate(cos, 1):
            for kind, sig, what in co.fails:
                print(f"{'ORACLE FAIL' if kind != 'divergence' else 'DIVERGENCE'} (phase {ph}): {sig}: {what}")
                rc = 1
            if not co.fails:
                print(f"oracle  : holds in phase {ph}")
            if co.lines:
                outs = _driver().run(co.lines)
                for j, ((label, real), m) in enumerate(zip(co.expect, outs)):
                    same = real == m
                    if not same or (c.get("label") and c["label"].split(" (")[0] == label.split(" (")[0]):
                        print(f"--- phase {ph}, {label}: {'agree' if same else 'DIVERGENCE'}")
                        print("   code :", real[:1500])
                        print("   model:", m[:1500])
                        if j in co.aux:
                            print("   model of the exporter BEFORE the repair (D5):", _driver().run([co.aux[j]])[0][:600])
                    if not same:
                        rc = 1
                print(f"model   : phase {ph}: {len(co.lines)} comparisons, "
                      f"{sum(1 for (_, r), m in zip(co.expect, outs) if r != m)} differ")
    return rc
