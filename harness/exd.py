"""Correspondence of `export_to_csv(use_display_names=True)` with the Lean model of the display-name
layout (FtModel/ExportDisplay.lean, driver family `EXD`, proof package R6H).

`line_csv(tracks, T, I, enc, sel)`  -> the model line asking for the file the exporter writes
`str_file(path, tracks, sel_given)` -> the file the real exporter wrote, in the driver's rendering
"""
from __future__ import annotations

import csv as _csv
from pathlib import Path
from typing import Any

from .common import hexs


def feat_tokens(tracks, I) -> list[str] | None:
    """the registry `tracks.features`, in order, as the `feats` part of an EXD line"""
    fd = tracks.features
    pk = fd.position_key
    toks = [str(len(fd))]
    for k, f in fd.items():
        if k == fd.time_key:
            role = ["0"]
        elif isinstance(pk, list) and k in pk:
            role = ["5", str(pk.index(k))]
        elif k == pk:
            role = ["1"]
        elif k == fd.tracklet_key:
            role = ["2"]
        elif k == fd.lineage_key:
            role = ["3"]
        else:
            role = ["4"]
        nv = f.get("num_values")
        vn = f.get("value_names")
        dn = f.get("display_name")
        toks += [str(I.key(k)), hexs(str(k))] + role
        toks += ["0"] if nv is None else ["1", str(int(nv))]
        if vn is None:
            toks.append("0")
        else:
            toks += ["1", str(len(vn))] + [hexs(str(x)) for x in vn]
        if dn is None:
            toks.append("0")
        elif isinstance(dn, (list, tuple)):
            toks += ["2", str(len(dn))] + [hexs(str(x)) for x in dn]
        elif isinstance(dn, str):
            toks += ["1", hexs(dn)]
        else:
            return None
    return toks


def line_csv(tracks, I, enc: list[str], sel_toks: list[str]) -> str | None:
    ft = feat_tokens(tracks, I)
    if ft is None:
        return None
    return " ".join(["EXD", "csv"] + ft + enc + sel_toks)


def _int_columns(tracks) -> set[str]:
    """header names whose cells are integers (ID, Parent ID and the single-value time / track id /
    lineage id features); everything else carries value tokens"""
    fd = tracks.features
    names = {"ID", "Parent ID"}
    for k in (fd.time_key, fd.tracklet_key, fd.lineage_key):
        if k is not None and k in fd and not isinstance(k, list):
            f = fd[k]
            if (f.get("num_values") or 1) <= 1:
                dn = f.get("display_name", k)
                if isinstance(dn, str):
                    names.add(dn)
    return names


def str_file(path: Path, tracks, I, cnum, sel_given: bool) -> str:
    with open(path, newline="") as fh:
        rows = list(_csv.reader(fh))
    header, rows = (rows[0], rows[1:]) if rows else ([], [])
    if sel_given and "ID" in header:
        i = header.index("ID")
        rows = sorted(rows, key=lambda r: int(r[i]))
    ints = _int_columns(tracks)
    out: list[str] = ["ok", "hdr", str(len(header))] + [hexs(h_) for h_ in header] + ["rows", str(len(rows))]
    for r in rows:
        for name, txt in zip(header, r):
            if txt == "":
                out.append("e")
                continue
            if name in ints:
                try:
                    f = float(txt)
                    out.append(f"n{int(f)}" if f.is_integer() and f >= 0 else "?" + txt)
                except ValueError:
                    out.append("?" + txt.replace(" ", "_"))
                continue
            v: Any
            try:
                v = float(txt)
            except ValueError:
                v = txt
            out.append("v" + I.fval(cnum(v)))
    return " ".join(out)
