"""Session family: properties C01–C11 and C20.

A *session* = an initial tracks state (valid forest, optional label array) + a sequence of
operations (user actions, undo/redo, feature switching, queries).  It is executed on the real
code step by step (operation arguments are chosen looking at the live state), the oracle of the
property under check is evaluated after every step, and afterwards the same operation list is
fed to the Lean model, whose canonical state after every step is compared with the real one.
"""
from __future__ import annotations

import copy
import json
import multiprocessing as mp
import os
import random
import signal
import time
import warnings
from typing import Any

import networkx as nx
import numpy as np

warnings.simplefilter("ignore")

from . import ftstate as F  # noqa: E402
from . import gen_session as G  # noqa: E402
from .common import VALID_DRIVER, Driver, Failure, Result, h, ncores, shard_seeds  # noqa: E402

from funtracks.exceptions import InvalidActionError  # noqa: E402
from funtracks.user_actions import (  # noqa: E402
    UserAddEdge,
    UserAddNode,
    UserDeleteEdge,
    UserDeleteNode,
    UserUpdateNodeAttrs,
    UserUpdateSegmentation,
)
from funtracks.user_actions import UserSwapPredecessors  # noqa: E402

EDIT_OPS = {"addedge", "deledge", "addnode", "delnode", "swap", "paint", "updattrs"}
STEP_TIMEOUT = 10  # seconds; a relabel walk over a cycle never terminates


class Hang(Exception):
    pass


def _alarm(signum, frame):
    raise Hang()


# ---------------------------------------------------------------------------------------------
# executing one operation on the real code
# ---------------------------------------------------------------------------------------------
class Session:
    def __init__(self, spec: dict):
        self.case = F.Case(spec)
        self.tracks = self.case.build()
        self.refresh = 0
        self.payload = None
        self.tracks.refresh.connect(self._on_refresh)

    def _on_refresh(self, node=None):
        self.refresh += 1
        self.payload = None if node is None else int(node)

    def state(self) -> dict:
        return F.impl_state(self.case, self.tracks, self.refresh, self.payload)

    def apply(self, op: dict) -> str:
        """returns the outcome string in the model's vocabulary"""
        signal.signal(signal.SIGALRM, _alarm)
        signal.alarm(STEP_TIMEOUT)
        try:
            return self._apply(op)
        except InvalidActionError as e:
            return "err:forceable" if e.forceable else "err:invalid"
        except ValueError:
            return "err:value"
        except (KeyError, nx.NetworkXError):
            return "err:key"
        except Hang:
            raise
        except Exception as e:  # anything else is reported verbatim
            return f"err:other:{type(e).__name__}"
        finally:
            signal.alarm(0)

    def _apply(self, op: dict) -> str:
        t, c = self.tracks, self.case
        k = op["op"]
        # how the caller REPRESENTS ids and edges (same meaning): plain ints / tuples, a list, a row of
        # a numpy array, numpy integer scalars (what indexing an array or a DataFrame hands out)
        rep = op.get("rep")

        def E(u, v):  # noqa: N802
            if rep == "list":
                return [u, v]
            if rep == "nparr":
                return np.array([u, v])
            if rep == "npscalar":
                return (np.int64(u), np.int64(v))
            return (u, v)

        def N(n):  # noqa: N802
            return np.int64(n) if (rep in ("nparr", "npscalar") and n is not None) else n

        if k == "addedge":
            UserAddEdge(t, E(op["u"], op["v"]), force=bool(op["force"]))
        elif k == "deledge":
            UserDeleteEdge(t, E(op["u"], op["v"]))
        elif k == "addnode":
            attrs: dict[str, Any] = {}
            buf = None
            if op.get("reuse_attrs"):
                # a caller that keeps ONE attributes dict as a template: it overwrites the keys it
                # sets itself and leaves whatever else is in the dict (nothing, unless the library
                # wrote into it)
                buf = self.__dict__.setdefault("_attrs_buf", {})
                for key_ in self.__dict__.get("_attrs_mine", ()):
                    buf.pop(key_, None)
            if op.get("time") is not None:
                attrs["time"] = N(op["time"])
            if op.get("tid") is not None:
                attrs["track_id"] = N(op["tid"])
            if op.get("lin") is not None:
                attrs["lineage_id"] = op["lin"]
            if op.get("pos") is not None:
                if c.cfg == "axes":
                    for a in F.axis_names(c.ndim):
                        attrs[a] = float(op["pos"])
                else:
                    attrs["pos"] = [float(op["pos"])] * (c.ndim - 1)
            if op.get("score") is not None:
                attrs["score"] = op["score"]
            for ks, v in (op.get("rp_attrs") or {}).items():
                # caller-supplied values for annotator-managed features (to be overridden)
                attrs[c.keyname[int(ks)]] = [float(v)] * (c.ndim - 1) if int(ks) == F.K_POS else float(v)
            if op.get("pixels") and c.cfg != "seg":
                # pixels passed to tracks WITHOUT a segmentation (refused: nothing may stay behind)
                n_ = len(op["pixels"])
                px = tuple(np.zeros(n_, dtype=np.int64) for _ in range(c.ndim))
            else:
                px = c.idx_tuple(op["pixels"]) if op.get("pixels") else None
            if buf is not None:
                self._attrs_mine = set(attrs)
                buf.update(attrs)
                attrs = buf
            UserAddNode(t, N(op["id"]), attrs, pixels=px, force=bool(op["force"]))
        elif k == "delnode":
            if op.get("pixels") is not None:
                # the optional `pixels` argument: "the pixels of the node, if known"
                UserDeleteNode(t, N(op["n"]), pixels=c.idx_tuple(op["pixels"]))
            else:
                UserDeleteNode(t, N(op["n"]))
        elif k == "regfeat":
            # a custom feature is registered in the FeatureDict mid-session, through any of the
            # dict APIs a caller (or the importer: `.update`) may use
            name = c.keyname[op["key"]]
            feat = {"feature_type": op["kind"], "value_type": "int", "num_values": 1,
                    "required": False, "default_value": None}
            how = op["how"]
            if how == "setitem":
                t.features[name] = feat
            elif how == "update":
                t.features.update({name: feat})
            elif how == "ior":
                t.features |= {name: feat}
            else:
                t.features.setdefault(name, feat)
        elif k == "swap":
            UserSwapPredecessors(t, E(op["a"], op["b"]))
        elif k == "paint":
            groups = paint_groups(c, t, op)
            idx = c.idx_tuple(op["pixels"])
            old = t.segmentation[idx].copy()
            t.segmentation[idx] = op["value"]  # the caller paints first
            upd = [(c.idx_tuple(px), ov) for px, ov in groups]
            try:
                UserUpdateSegmentation(t, op["value"], upd, op["tid"], force=bool(op["force"]))
            except Exception:
                t.segmentation[idx] = old  # ... and restores the stroke when refused
                raise
        elif k == "updattrs":
            attrs = {}
            for ks, v in op["attrs"].items():
                kk = int(ks)
                name = c.keyname[kk]
                attrs[name] = ([float(v)] * (c.ndim - 1)) if (name == "pos" and c.cfg == "pos") else (
                    float(v) if kk in c.pos_keys and c.cfg == "axes" else v)
            UserUpdateNodeAttrs(t, N(op["n"]), attrs)
        elif k == "undo":
            return "true" if t.undo() else "false"
        elif k == "redo":
            return "true" if t.redo() else "false"
        elif k == "enable":
            t.enable_features([c.keyname[x] for x in op["keys"]], recompute=bool(op["recompute"]))
        elif k == "disable":
            t.disable_features([c.keyname[x] for x in op["keys"]])
        elif k == "qnb":
            p, s = t.get_track_neighbors(op["tid"], op["time"])
            return "nodes " + " ".join("-1" if x is None else str(int(x)) for x in (p, s))
        elif k == "qhas":
            return "true" if t.has_track_id_at_time(op["tid"], op["time"]) else "false"
        elif k == "qnew":
            ids = t._get_new_node_ids(op["n"])
            return "nodes " + " ".join(str(int(x)) for x in ids)
        else:
            raise RuntimeError(f"unknown op {k}")
        return "ok"


def paint_groups(case: F.Case, tracks, op: dict) -> list[tuple[list[int], int]]:
    """the stroke grouped by previous label, in order of first occurrence (caller's contract)"""
    seg = tracks.segmentation.reshape(-1)
    groups: dict[int, list[int]] = {}
    for p in op["pixels"]:
        groups.setdefault(int(seg[p]), []).append(p)
    return [(px, ov) for ov, px in groups.items()]


def encode_op(case: F.Case, op: dict) -> str:
    k = op["op"]
    o = lambda v: "-1" if v is None else str(v)  # noqa: E731
    if k == "addedge":
        return f"S addedge {op['u']} {op['v']} {op['force']}"
    if k == "deledge":
        return f"S deledge {op['u']} {op['v']}"
    if k == "addnode":
        other: dict[int, Any] = {}
        if op.get("pos") is not None:
            for pk in case.pos_keys:
                other[pk] = op["pos"]
        if op.get("score") is not None:
            other[F.K_SCORE] = op["score"]
        for ks, v in (op.get("rp_attrs") or {}).items():
            other[int(ks)] = v
        px = op.get("pixels")
        pxs = "-" if not px else f"{len(px)} " + " ".join(map(str, px))
        return (f"S addnode {op['id']} {o(op.get('time'))} {o(op.get('tid'))} {o(op.get('lin'))} "
                + " ".join(case.enc_attrs(other)) + f" {pxs} {op['force']}")
    if k == "delnode":
        if op.get("pixels") is not None:
            px = op["pixels"]
            return f"S delnodepx {op['n']} {len(px)} " + " ".join(map(str, px))
        return f"S delnode {op['n']}"
    if k == "regfeat":
        return f"S reg {op['kind']} {op['key']}"
    if k == "swap":
        return f"S swap {op['a']} {op['b']}"
    if k == "paint":
        gs = op["groups"]
        parts = [f"S paint {op['value']} {len(gs)}"]
        for px, ov in gs:
            parts.append(f"{len(px)} " + " ".join(map(str, px)) + f" {ov}")
        parts.append(f"{op['tid']} {op['force']}")
        return " ".join(parts)
    if k == "updattrs":
        attrs = {int(a): v for a, v in op["attrs"].items()}
        return f"S updattrs {op['n']} " + " ".join(case.enc_attrs(attrs))
    if k in ("undo", "redo"):
        return f"S {k}"
    if k == "enable":
        return " ".join(["S", "enable", str(len(op["keys"]))] + list(map(str, op["keys"])) + [str(op["recompute"])])
    if k == "disable":
        return f"S disable {len(op['keys'])} " + " ".join(map(str, op["keys"]))
    if k == "qnb":
        return f"S qnb {op['tid']} {op['time']}"
    if k == "qhas":
        return f"S qhas {op['tid']} {op['time']}"
    if k == "qnew":
        return f"S qnew {op['n']}"
    raise RuntimeError(k)


# ---------------------------------------------------------------------------------------------
# observations used by the oracles (read directly from the real object)
# ---------------------------------------------------------------------------------------------
def canon_value(v):
    if isinstance(v, np.ndarray):
        v = v.tolist()
    if isinstance(v, (list, tuple)):
        return tuple(canon_value(x) for x in v)
    if isinstance(v, (np.integer,)):
        return int(v)
    if isinstance(v, (float, np.floating)):
        return repr(float(v))
    return v


def observe(tracks) -> dict:
    """observable tracks state of C01/C02/C11: nodes and edges with the value of every
    registered feature, and the segmentation bytes"""
    feats = tracks.features
    nkeys = [k for k, f in feats.items() if f["feature_type"] == "node"]
    ekeys = [k for k, f in feats.items() if f["feature_type"] == "edge"]
    nodes = {int(n): {k: canon_value(tracks.get_node_attr(n, k)) for k in nkeys
                      if tracks.get_node_attr(n, k) is not None} for n in tracks.graph.nodes}
    edges = {(int(u), int(v)): {k: canon_value(tracks.get_edge_attr((u, v), k)) for k in ekeys
                                if tracks.get_edge_attr((u, v), k) is not None}
             for u, v in tracks.graph.edges}
    seg = None if tracks.segmentation is None else tracks.segmentation.tobytes()
    return {"nodes": nodes, "edges": edges, "seg": seg}


def observe_all(tracks) -> dict:
    """everything C11 lists: all attributes (registered or not), array, lookups, history"""
    ta = tracks.track_annotator
    nodes = {int(n): {k: canon_value(v) for k, v in d.items() if v is not None}
             for n, d in tracks.graph.nodes(data=True)}
    edges = {(int(u), int(v)): {k: canon_value(x) for k, x in d.items() if x is not None}
             for u, v, d in tracks.graph.edges(data=True)}
    return {
        "nodes": nodes, "edges": edges,
        "seg": None if tracks.segmentation is None else tracks.segmentation.tobytes(),
        "t2n": {int(k): sorted(map(int, v)) for k, v in ta.tracklet_id_to_nodes.items()},
        "l2n": {int(k): sorted(map(int, v)) for k, v in ta.lineage_id_to_nodes.items()},
        "hist": (len(tracks.action_history.undo_stack), len(tracks.action_history.redo_stack)),
        "features": sorted(tracks.features.keys()),
    }


def only_unregistered_lost(a: dict, b: dict, tracks) -> bool:
    """True iff the two `observe_all` snapshots differ ONLY in that some node/edge attributes whose
    key is not a registered feature are absent afterwards (delete actions save registered features
    only, so a rollback cannot bring such an attribute back)"""
    for k in a:
        if k in ("nodes", "edges"):
            continue
        if a[k] != b[k]:
            return False
    reg = set(tracks.features.keys())
    lost = 0
    for fld in ("nodes", "edges"):
        if set(a[fld]) != set(b[fld]):
            return False
        for x, attrs in a[fld].items():
            after = b[fld][x]
            for key in set(attrs) | set(after):
                if attrs.get(key) == after.get(key):
                    continue
                if key in reg or key not in attrs or key in after:
                    return False
                lost += 1
    return lost > 0


def obs_diff(a: dict, b: dict) -> str:
    out = []
    for k in a:
        if a[k] != b[k]:
            if isinstance(a[k], dict):
                ks = [x for x in set(a[k]) | set(b[k]) if a[k].get(x) != b[k].get(x)]
                out.append(f"{k}: " + "; ".join(f"{x}: {a[k].get(x)} -> {b[k].get(x)}" for x in sorted(ks, key=str)[:4]))
            elif k == "seg":
                out.append("segmentation bytes differ")
            else:
                out.append(f"{k}: {a[k]} -> {b[k]}")
    return " | ".join(out)


# ---------------------------------------------------------------------------------------------
# oracles (independent readings of the property statements on the real object)
# ---------------------------------------------------------------------------------------------
def forest_problems(tracks) -> list[str]:
    g = tracks.graph
    out = []
    for n in g.nodes:
        if g.in_degree(n) > 1:
            out.append(f"merge:node {n} has {g.in_degree(n)} parents")
        if g.out_degree(n) > 2:
            out.append(f"triple:node {n} has {g.out_degree(n)} children")
    for u, v in g.edges:
        if not (g.nodes[u]["time"] < g.nodes[v]["time"]):
            out.append(f"non-forward:edge {u}->{v} times {g.nodes[u]['time']}->{g.nodes[v]['time']}")
    return out


def segments(g: nx.DiGraph) -> list[set]:
    g2 = nx.DiGraph()
    g2.add_nodes_from(g.nodes)
    g2.add_edges_from((u, v) for u, v in g.edges if g.out_degree(u) < 2)
    return list(nx.weakly_connected_components(g2))


def partition_problems(g: nx.DiGraph, parts: list[set], label: dict, what: str) -> list[str]:
    out = []
    seen: dict = {}
    for p in parts:
        ls = {label.get(n) for n in p}
        if len(ls) != 1 or None in ls:
            out.append(f"split:{what} differs inside one part {sorted(p)}: {sorted(map(str, ls))}")
            continue
        l = next(iter(ls))
        if l in seen:
            out.append(f"shared:{what} {l} on two parts {sorted(seen[l])} and {sorted(p)}")
        seen[l] = p
    return out


def named_nodes(op: dict, before_g: nx.DiGraph, before_tid: dict) -> set:
    named = set()
    for k in ("u", "v", "n", "a", "b", "id"):
        if k in op and op[k] is not None:
            named.add(op[k])
    tid = op.get("tid")
    if tid is not None:
        named |= {n for n, t in before_tid.items() if t == tid}
    if op["op"] == "paint":
        named.add(op["value"])
        named |= {ov for _, ov in op.get("groups", [])}
    return named


def frame_problems(op, before_g, before_lab, after_lab, before_tid, what) -> list[str]:
    named = named_nodes(op, before_g, before_tid)
    out = []
    for comp in nx.weakly_connected_components(before_g):
        if comp & named:
            continue
        for n in comp:
            if n in after_lab and before_lab.get(n) != after_lab.get(n):
                out.append(f"frame:{what} of node {n} changed {before_lab.get(n)} -> {after_lab.get(n)} although its component {sorted(comp)} is not named by the edit")
    return out


def lookup_problems(tracks, T: int) -> list[str]:
    g = tracks.graph
    ta = tracks.track_annotator
    out = []
    by_tid: dict = {}
    by_lin: dict = {}
    for n in g.nodes:
        by_tid.setdefault(g.nodes[n].get("track_id"), []).append(n)
        l = g.nodes[n].get("lineage_id")
        if l is not None:
            by_lin.setdefault(l, []).append(n)
    for name, book, truth in (("track", ta.tracklet_id_to_nodes, by_tid), ("lineage", ta.lineage_id_to_nodes, by_lin)):
        if name == "lineage" and "lineage_id" not in ta.features:
            continue
        for i, l in book.items():
            if len(l) != len(set(l)):
                out.append(f"dup:{name} lookup {i} lists a node twice: {l}")
        b = {i: sorted(l) for i, l in book.items() if l}
        tr = {i: sorted(l) for i, l in truth.items()}
        if b != tr:
            stale = {i: sorted(set(b.get(i, [])) - set(tr.get(i, []))) for i in b}
            missing = {i: sorted(set(tr.get(i, [])) - set(b.get(i, []))) for i in tr}
            stale = {i: v for i, v in stale.items() if v}
            missing = {i: v for i, v in missing.items() if v}
            kind = "stale" if stale else "missing"
            out.append(f"{kind}:{name} lookup stale={stale} missing={missing}")
    used_t = set(by_tid)
    if tracks.get_next_track_id() in used_t:
        out.append(f"fresh:next track id {tracks.get_next_track_id()} is in use")
    if "lineage_id" in ta.features and tracks.get_next_lineage_id() in set(by_lin):
        out.append(f"fresh:next lineage id {tracks.get_next_lineage_id()} is in use")
    # queries vs scan, every track id present (+2 absent) x every time point
    absent = [i for i in range(1, 60) if i not in used_t][:2]
    # presence query first: get_track_neighbors re-sorts the lookup list it reads, which would
    # hide an order-dependent presence query
    for tid in list(by_tid) + absent:
        if tid is None:
            continue
        members = by_tid.get(tid, [])
        for t in range(T + 2):
            has = any(g.nodes[n]["time"] == t for n in members)
            try:
                got = bool(tracks.has_track_id_at_time(tid, t))
            except Exception as e:  # noqa: BLE001  a query never raises on a reachable state
                out.append(f"query:has_track_id_at_time({tid},{t}) raised {type(e).__name__}")
                return out
            if got != has:
                out.append(f"query:has_track_id_at_time({tid},{t}) != {has}")
    for tid in list(by_tid) + absent:
        if tid is None:
            continue
        members = by_tid.get(tid, [])
        for t in range(T + 2):
            before = [n for n in members if g.nodes[n]["time"] < t]
            after = [n for n in members if g.nodes[n]["time"] > t]
            ep = max(before, key=lambda n: g.nodes[n]["time"]) if before else None
            es = min(after, key=lambda n: g.nodes[n]["time"]) if after else None
            # ties (two nodes of one track in one frame) only exist in invalid states
            try:
                p, s = tracks.get_track_neighbors(tid, t)
            except Exception as e:  # noqa: BLE001
                out.append(f"query:get_track_neighbors({tid},{t}) raised {type(e).__name__}")
                return out
            tp = None if p is None else g.nodes[p]["time"]
            ts = None if s is None else g.nodes[s]["time"]
            if (None if ep is None else g.nodes[ep]["time"]) != tp or (None if es is None else g.nodes[es]["time"]) != ts \
                    or (p is not None and p not in members) or (s is not None and s not in members):
                out.append(f"query:get_track_neighbors({tid},{t}) = {(p, s)} but a scan gives {(ep, es)}")
    return out


def seg_problems(case: F.Case, tracks) -> list[str]:
    g = tracks.graph
    seg = tracks.segmentation
    out = []
    T = seg.shape[0]
    for n in g.nodes:
        t = g.nodes[n]["time"]
        cnt = [int(np.sum(seg[f] == n)) for f in range(T)]
        if cnt[t] == 0:
            out.append(f"nopixels:node {n} has no pixel in its frame {t}")
        if any(c for f, c in enumerate(cnt) if f != t):
            out.append(f"wrongframe:label {n} appears outside frame {t}")
        px = tracks.get_pixels(n)
        truth = np.nonzero(seg[t] == n)
        if px is None or not (np.all(px[0] == t) and all(np.array_equal(a, b) for a, b in zip(px[1:], truth))):
            out.append(f"getpixels:get_pixels({n}) differs from a scan")
    for l in np.unique(seg):
        if l != 0 and int(l) not in g:
            out.append(f"orphan:label {int(l)} belongs to no node")
    return out


def rp_problems(case: F.Case, tracks, keys: list[int] | None = None) -> list[str]:
    """stored regionprops values vs values computed from the current mask and scale alone"""
    out = []
    seg = tracks.segmentation
    active = case.rp_active(tracks) if keys is None else keys
    if not active:
        return out
    spacing = np.ones(case.ndim - 1) if case.scale is None else np.array(case.scale[1:], dtype=float)
    fresh_vals: dict = {}
    shape_keys = [k for k in active if k in (F.K_ELL, F.K_CIRC, F.K_PERIM)]
    if shape_keys:
        # from-scratch computation: a fresh Tracks object on a copy of the same array
        from funtracks.data_model import SolutionTracks
        g2 = nx.DiGraph()
        for n, d in tracks.graph.nodes(data=True):
            g2.add_node(n, time=d["time"], track_id=d.get("track_id", 1), lineage_id=d.get("lineage_id", 1))
        g2.add_edges_from(tracks.graph.edges)
        try:
            fresh = SolutionTracks(g2, segmentation=seg.copy(), scale=case.scale, ndim=case.ndim)
            fresh.enable_features([F.NAME[k] for k in shape_keys])
            for n in g2.nodes:
                for k in shape_keys:
                    fresh_vals[(n, k)] = fresh.get_node_attr(n, F.NAME[k])
        except Exception:
            fresh_vals = {}
    for n in tracks.graph.nodes:
        t = tracks.graph.nodes[n]["time"]
        mask = seg[t] == n
        cnt = int(mask.sum())
        for k in active:
            v = tracks.get_node_attr(n, case.keyname[k])
            if cnt == 0:
                continue  # C07's business
            if k == F.K_AREA:
                exp = cnt * float(np.prod(spacing))
                if v is None or not F.close(v, exp):
                    out.append(f"area:node {n} area {v} != pixel count {cnt} x voxel size = {exp}")
            elif k == F.K_POS:
                exp = [float(np.mean(ix)) * s for ix, s in zip(np.nonzero(mask), spacing)]
                if v is None or not F.close(v, exp):
                    out.append(f"pos:node {n} position {v} != scaled centroid {exp}")
            elif (n, k) in fresh_vals:
                if k == F.K_CIRC and v is not None and F.K_PERIM in active:
                    # independent of the code's own formula: circularity = 4 pi A / P^2 (2D),
                    # sphericity = pi^(1/3) (6 V)^(2/3) / S (3D), from the stored perimeter / surface
                    per = tracks.get_node_attr(n, case.keyname[F.K_PERIM])
                    size = cnt * float(np.prod(spacing))
                    if per not in (None, 0) and np.isfinite(per):
                        exp_c = (4 * np.pi * size / per ** 2) if case.ndim == 3 else (np.pi ** (1 / 3) * (6 * size) ** (2 / 3) / per)
                        if np.isfinite(exp_c) and not F.close(v, float(exp_c), 1e-5):   # (the 3D surface is float32)
                            out.append(f"shape:node {n} circularity {v} != {float(exp_c)} (from its own area {size} and perimeter {per})")
                if not F.close(v, fresh_vals[(n, k)], 1e-9) and not (v is None and fresh_vals[(n, k)] is None):
                    out.append(f"shape:node {n} {case.keyname[k]} {v} != from-scratch {fresh_vals[(n, k)]}")
                else:
                    # second reference: the node's mask ALONE in an empty frame (a bulk computation on
                    # the whole array may pick up neighbouring labels in both objects alike)
                    px = tuple(int(t) * case.frame + int(o) for o in np.nonzero(mask.reshape(-1))[0])
                    ref = F.ref_value(case, k, px, int(n))
                    if not (isinstance(ref, tuple) and ref and ref[0] == "exc") and v is not None \
                            and not F.close(v, ref, 1e-9):
                        out.append(f"shape:node {n} {case.keyname[k]} {v} != value of its mask alone {ref}")
    return out


def iou_problems(case: F.Case, tracks) -> list[str]:
    out = []
    if not case.iou_active(tracks):
        return out
    seg = tracks.segmentation
    g = tracks.graph
    for u, v in g.edges:
        a = seg[g.nodes[u]["time"]] == u
        b = seg[g.nodes[v]["time"]] == v
        union = int(np.sum(a | b))
        exp = (int(np.sum(a & b)) / union) if union else 0.0
        val = tracks.get_edge_attr((u, v), case.keyname[F.K_IOU])
        skip = "skip" if g.nodes[v]["time"] - g.nodes[u]["time"] != 1 else "consecutive"
        if val is None or not F.close(val, exp, 1e-12):
            out.append(f"{skip}:edge {u}->{v} iou {val} != true overlap {exp}")
    return out


def registry_problems(case: F.Case, tracks, static: set) -> list[str]:
    out = []
    enabled = set(tracks.annotators.features.keys())
    listed = set(tracks.features.keys())
    if listed != static | enabled:
        out.append(f"registry:listed {sorted(listed)} != static {sorted(static)} + enabled {sorted(enabled)}")
    return out


# ---------------------------------------------------------------------------------------------
# one session
# ---------------------------------------------------------------------------------------------
PROP_KINDS = {
    "C01": ["addedge", "deledge", "addnode", "delnode", "delnode", "swap", "updattrs", "updattrs", "paint", "regfeat",
            "undo", "undo", "redo"],
    "C02": ["addedge", "deledge", "addnode", "delnode", "swap", "updattrs", "paint", "undo", "undo", "undo", "redo", "redo"],
    "C03": ["addedge", "addedge", "deledge", "addnode", "addnode", "delnode", "swap", "paint", "undo", "redo"],
    "C04": ["addedge", "addedge", "deledge", "addnode", "delnode", "swap", "paint", "undo", "undo", "undo", "redo"],
    "C05": ["addedge", "addedge", "deledge", "addnode", "delnode", "swap", "paint", "undo", "undo", "undo", "redo"],
    "C06": ["addedge", "deledge", "addnode", "delnode", "swap", "paint", "undo", "redo", "qnb", "qhas", "qnew"],
    "C07": ["paint", "paint", "paint", "addnode", "delnode", "addedge", "deledge", "undo", "redo"],
    "C08": ["paint", "paint", "addnode", "addnode", "delnode", "addedge", "deledge", "swap", "undo", "redo", "enable", "disable"],
    "C09": ["paint", "paint", "addnode", "delnode", "addedge", "addedge", "deledge", "swap", "undo", "redo", "enable", "disable"],
    "C10": ["enable", "enable", "disable", "disable", "paint", "addnode", "delnode", "addedge", "deledge", "updattrs", "undo", "redo"],
    "C11": ["addedge", "addedge", "addnode", "addnode", "deledge", "delnode", "swap", "paint", "updattrs", "undo", "redo"],
    "C20": ["addedge", "deledge", "addnode", "delnode", "swap", "paint", "updattrs", "undo", "undo", "redo"],
}
SEG_ONLY = {"C07", "C08", "C09"}
PLAN_SHARE = {"C02": 0.3, "C03": 0.3, "C10": 0.15}  # share of history-shaped sessions (default 0.25)


EXH_SPEC = {"cfg": "pos", "ndim": 3, "with_ids": True, "scale": None,
            "nodes": [{"id": 1, "time": 0, "pos": 1, "tid": 1, "lin": 1}, {"id": 2, "time": 1, "pos": 2, "tid": 2, "lin": 1},
                      {"id": 3, "time": 2, "pos": 3, "tid": 3, "lin": 1}, {"id": 4, "time": 1, "pos": 4, "tid": 4, "lin": 2},
                      {"id": 5, "time": 3, "pos": 5, "tid": 4, "lin": 2}],
            "edges": [{"u": 1, "v": 2}, {"u": 1, "v": 3}, {"u": 4, "v": 5}]}


def resolve_sym(sym: str, tracks) -> dict:
    """symbols of the exhaustive C02 enumeration, resolved against the live state so that the
    edit is always accepted: a = toggle edge 2->5 (forced: detaches 4->5, a composite that nests
    UserDeleteEdge); b = toggle node 9 spliced into the skip edge 4->5 / 2->5 (composite)"""
    g = tracks.graph
    if sym == "a":
        if g.has_edge(2, 5):
            return {"op": "deledge", "u": 2, "v": 5}
        return {"op": "addedge", "u": 2, "v": 5, "force": 1}
    if sym == "b":
        if 9 in g:
            return {"op": "delnode", "n": 9}
        return {"op": "addnode", "id": 9, "time": 2, "tid": g.nodes[5]["track_id"], "force": 1, "pos": 9}
    return {"op": {"u": "undo", "r": "redo"}[sym]}


def run_session(prop: str, spec: dict, rng: random.Random, nops: int, res: Result,
                fixed_ops: list[dict] | None = None) -> tuple[list[dict], list[str], list[dict], list[Failure]]:
    """executes a session on the real code; returns (ops, outcomes, impl states, oracle failures)"""
    ses = Session(spec)
    case, tracks = ses.case, ses.tracks
    T = case.shape[0] if case.shape else 5
    kinds = [k for k in PROP_KINDS[prop] if (case.cfg == "seg" or k != "paint")]
    if case.cfg != "seg" and prop == "C10":
        kinds = [k for k in kinds if k not in ("paint",)]
    ops: list[dict] = []
    outs: list[str] = []
    states: list[dict] = [ses.state()]
    fails: list[Failure] = []
    static = set(tracks.features.keys()) - set(tracks.annotators.features.keys())
    timeline = [observe(tracks)]
    cursor = 0
    frozen: dict = {}  # C10: values of disabled features
    frozen_obj: dict = {}  # … and the attribute dict OBJECT of the node / edge each value was read from

    stop = []

    def fail(sig: str, what: str):
        stop.append(1)  # later failures of this session would be cascades of this one
        fails.append(Failure("oracle", prop, f"{prop}|{sig}", what,
                             {"spec": spec, "ops": copy.deepcopy(ops), "failing_step": len(ops) - 1}))

    def initial_checks():
        if prop == "C03":
            for p in forest_problems(tracks):
                fail("init|" + p.split(":")[0], "initial state: " + p)
        if prop == "C04":
            lab = {n: tracks.graph.nodes[n].get("track_id") for n in tracks.graph.nodes}
            for p in partition_problems(tracks.graph, segments(tracks.graph), lab, "track id"):
                fail("construct|" + p.split(":")[0], "after construction: " + p)
        if prop == "C05" and "lineage_id" in tracks.track_annotator.features:
            lab = {n: tracks.graph.nodes[n].get("lineage_id") for n in tracks.graph.nodes}
            for p in partition_problems(tracks.graph, list(nx.weakly_connected_components(tracks.graph)), lab, "lineage id"):
                fail("construct|" + p.split(":")[0], "after construction: " + p)
        if prop == "C06":
            for p in lookup_problems(tracks, T):
                fail("construct|" + p.split(":")[0], "after construction: " + p)
        if prop == "C08":
            for p in rp_problems(case, tracks):
                fail("construct|" + p.split(":")[0], "after construction: " + p)
        if prop == "C09":
            for p in iou_problems(case, tracks):
                fail("construct|bulk-" + p.split(":")[0], "after construction: " + p)

    initial_checks()
    if stop:
        return ops, outs, states, fails
    queue = list(fixed_ops) if fixed_ops is not None else None
    pending: list[dict] = []  # ops forced by the oracle protocol (undo/redo pairs)
    if queue is None and prop in ("C04", "C05", "C06") and rng.random() < 0.2:
        # recompute the id features in bulk on ids that are non-contiguous / have gaps — only as the
        # first operation: a bulk renumbering under an existing undo history is outside these
        # properties' quantifier (DESIGN §11.1)
        pending.append({"op": "enable", "keys": rng.choice([[F.K_TID], [F.K_LIN], [F.K_TID, F.K_LIN]]), "recompute": 1})
    # history-shaped sessions ("plan"): several accepted edits, at least two undos, a new edit made
    # in the middle of the timeline, then undo all the way down and redo all the way up. The states
    # met on the way down are re-applications of recorded inverses in an order that only the
    # history algorithm fixes; an edit that is legal only because of an earlier one (B after A)
    # makes a wrong order visible to every per-state oracle, not only to C02's timeline.
    plan: list[str] | None = None
    plan_item: str | None = None
    plan_tries = 0
    edit_kinds = [k for k in kinds if k in EDIT_OPS]
    if queue is None and "undo" in kinds and edit_kinds and rng.random() < PLAN_SHARE.get(prop, 0.25):
        k_ = rng.randint(2, 4)
        plan = ["edit"] * k_ + ["undo"] * rng.randint(2, k_) + ["edit"] * rng.randint(1, 2) + ["undo*", "redo*"]
        if rng.random() < 0.35:
            plan += ["undo"] * rng.randint(1, 4) + ["edit", "undo*", "redo*"]
        res.count("session-shape:history-plan")
    step = 0
    tid_off = False   # the tracklet feature has been switched off at some point of this session
    while True:
        plan_item = None
        forced = bool(pending)
        if pending:
            op = pending.pop(0)
        elif queue is not None:
            if not queue:
                break
            op = queue.pop(0)
            if "sym" in op:
                op = resolve_sym(op["sym"], tracks)
        elif plan is not None:
            if not plan or step >= 60:
                break
            plan_item = plan[0]
            if plan_item == "edit":
                op = G.gen_op(rng, case, tracks, edit_kinds, always_recompute=prop in ("C08", "C09"))
            else:
                op = {"op": plan_item.rstrip("*")}
        else:
            if step >= nops:
                break
            op = G.gen_op(rng, case, tracks, kinds, always_recompute=prop in ("C08", "C09"))
            if prop == "C10" and op["op"] == "disable" and F.K_BOGUS not in op["keys"] and rng.random() < 0.2:
                op["keys"] = [k for k in op["keys"] if k != F.K_TID] + [F.K_TID]
        if queue is None and plan is None and not forced and "enable" not in kinds and step > 2 and rng.random() < 0.03:
            # enable_features([]) in the middle of a history: nothing is asked for, nothing may happen
            # (in particular no recomputation of ids that recorded inverses refer to)
            op = {"op": "enable", "keys": [], "recompute": 1}
            res.count("session-shape:enable-empty-key-list")
        elif queue is None and not forced and op["op"] == "enable" and F.K_BOGUS not in op["keys"] and rng.random() < 0.08:
            op = dict(op, keys=[])   # nothing to enable: a no-op whatever is active
            res.count("session-shape:enable-empty-key-list")
        elif (prop in ("C08", "C09", "C10") and queue is None and plan is None and not forced and op["op"] == "enable"
                and op.get("recompute") and F.K_BOGUS not in op["keys"] and rng.random() < 0.3
                and getattr(tracks.features, "lineage_key", "x") is not None):
            # "assume, then compute": the same keys first with recompute=False (stored values are taken as
            # they are, possibly stale), then with recompute=True, which must compute although the
            # features are active already
            pending.append(dict(op, recompute=1))
            op = dict(op, recompute=0)
            res.count("session-shape:enable-assumed-then-recomputed")
        if queue is None and op["op"] == "addnode" and rng.random() < 0.35:
            op["reuse_attrs"] = 1   # the caller passes the same dict object it used for earlier adds
        if queue is None and op["op"] in ("addedge", "deledge", "addnode", "delnode", "swap", "updattrs") and rng.random() < 0.3:
            op["rep"] = rng.choice(["list", "nparr", "npscalar"])
        if prop == "C07" and queue is None and op["op"] == "addnode" and case.cfg == "seg" and op.get("pixels") is None:
            op.pop("pos", None)  # a node without pixels is outside C07's consistent states (caller's choice)
        if prop == "C11" and queue is None and op["op"] == "paint" and op.get("value") and rng.random() < 0.15:
            # a stroke with the label of a node that lives in ANOTHER frame. The action accepts it
            # (keeping labels in their frame is the caller's business) and the session ends there; a
            # version that refuses it must refuse it before touching anything
            fr_ = case.frame
            t_here = op["pixels"][0] // fr_ if op["pixels"] else 0
            others = [n for n in tracks.graph.nodes if tracks.graph.nodes[n]["time"] != t_here]
            if others:
                op["value"] = int(rng.choice(others))
                op["pixels"] = [p for p in op["pixels"] if int(tracks.segmentation.reshape(-1)[p]) != op["value"]]
                op.pop("groups", None)
                op["_foreign_label"] = 1
        if tid_off or (op["op"] == "disable" and F.K_TID in op.get("keys", [])):
            op["_nomodel"] = 1
        step += 1
        if op["op"] == "paint" and "groups" not in op:
            op["groups"] = [[px, ov] for px, ov in paint_groups(case, tracks, op)]
        before_g = tracks.graph.copy()
        before_tid = {n: before_g.nodes[n].get("track_id") for n in before_g.nodes}
        before_lin = {n: before_g.nodes[n].get("lineage_id") for n in before_g.nodes}
        before_obs = observe(tracks)
        before_all = observe_all(tracks) if prop in ("C11", "C10", "C16") else None
        before_seg = None if tracks.segmentation is None else tracks.segmentation.copy()
        before_refresh = ses.refresh
        ops.append(op)
        try:
            out = ses.apply(op)
        except Hang:
            outs.append("hang")
            fails.append(Failure("hang", prop, f"{prop}|hang|{op['op']}",
                                 f"the call {op} did not return within {STEP_TIMEOUT}s",
                                 {"spec": spec, "ops": copy.deepcopy(ops), "failing_step": len(ops) - 1}))
            return ops, outs, states, fails
        outs.append(out)
        states.append(ses.state())
        res.evaluations += 1
        kind = op["op"]
        accepted = out in ("ok", "true")
        res.count(f"op:{kind}:{out.split(':')[1] if out.startswith('err') else ('ok' if accepted else out.split()[0])}")
        if kind in EDIT_OPS and accepted:
            res.nontrivial.add(h([states[-2]["nodes"], sorted(states[-2]["edges"]), op]))
            res.count("branch:" + branch_tag(tracks, kind))
        elif out.startswith("err") and out != "err:key":
            res.nontrivial.add(h([sorted(states[-2]["nodes"]), sorted(states[-2]["edges"]), op]))
        if out.startswith("err:other"):
            fail(f"{kind}|unexpected-exception", f"{op} raised {out}")
            break
        if plan_item is not None:
            if plan_item == "edit":
                plan_tries += 1
                if accepted or plan_tries >= 4:
                    plan.pop(0)
                    plan_tries = 0
            elif plan_item.endswith("*"):
                if out != "true":
                    plan.pop(0)
            else:
                plan.pop(0)
        if kind == "disable" and accepted and F.K_TID in op["keys"]:
            tid_off = True
            res.count("session-shape:tracklet-feature-switched-off(oracle-only from here)")
        if kind in ("undo", "redo") and out.startswith("err") and not tid_off:
            # (with the tracklet feature off a deleted node cannot be restored: AddNode demands a
            #  track id that delete-node no longer saves — outside C01/C02's configurations)
            # undo()/redo() never raise on a history of accepted edits: the recorded inverse must apply
            fail(f"{kind}|raised", f"{kind}() raised ({out}) after the history {[o['op'] for o in ops]}")
            break
        if stop:
            break
        if op.get("_foreign_label") and accepted:
            res.count("session-shape:ended-by-foreign-label-stroke")
            break

        moved = False   # did this undo/redo have a state to step to (by the harness's own timeline)?
        # ---- timeline bookkeeping (C02 reference; also used to know what undo/redo should do)
        if kind in EDIT_OPS and accepted:
            back = timeline[cursor:len(timeline) - 1][::-1]
            timeline = timeline + back + [observe(tracks)]
            cursor = len(timeline) - 1
        elif kind == "undo":
            exp = cursor > 0
            moved = exp
            if exp:
                cursor -= 1
            if prop == "C02" and (out == "true") != exp:
                fail("undo|return-value", f"undo() returned {out} with cursor {cursor} of {len(timeline)}")
        elif kind == "redo":
            exp = cursor + 1 < len(timeline)
            moved = exp
            if exp:
                cursor += 1
            if prop == "C02" and (out == "true") != exp:
                fail("redo|return-value", f"redo() returned {out} with cursor {cursor} of {len(timeline)}")

        # ---- oracles ----
        if prop == "C02" and kind in EDIT_OPS | {"undo", "redo"}:
            now = observe(tracks)
            if now != timeline[cursor]:
                fail(f"{kind}|state-not-on-timeline", f"after {op}: state differs from timeline[{cursor}]: " + obs_diff(timeline[cursor], now))
        if prop == "C01" and kind in EDIT_OPS and accepted and not op.get("_probe"):
            after_obs = observe(tracks)
            u = ses.apply({"op": "undo"})
            ops.append({"op": "undo", "_probe": 1}); outs.append(u); states.append(ses.state()); res.evaluations += 1
            now = observe(tracks)
            if u != "true" or now != before_obs:
                fail(f"{kind}|{branch_tag_from(before_g, op)}|undo-does-not-restore", f"undo of {op}: " + obs_diff(before_obs, now))
            r = ses.apply({"op": "redo"})
            ops.append({"op": "redo", "_probe": 1}); outs.append(r); states.append(ses.state()); res.evaluations += 1
            now = observe(tracks)
            if r != "true" or now != after_obs:
                fail(f"{kind}|{branch_tag_from(before_g, op)}|redo-does-not-reapply", f"redo of {op}: " + obs_diff(after_obs, now))
            cursor_fix = None  # timeline cursor unchanged by an undo/redo pair
        if prop == "C03":
            if accepted and kind in EDIT_OPS | {"undo", "redo"}:
                for p in forest_problems(tracks):
                    fail(f"{kind}|{p.split(':')[0]}", f"after {op}: {p}")
            if kind == "addedge":
                g0 = before_g
                u_, v_ = op["u"], op["v"]
                if u_ in g0 and v_ in g0:
                    merge = g0.in_degree(v_) > 0
                    backward = g0.nodes[u_]["time"] >= g0.nodes[v_]["time"]
                    if backward and out != "err:invalid":
                        fail("addedge|non-forward-not-refused", f"{op} with times {g0.nodes[u_]['time']}->{g0.nodes[v_]['time']} gave {out}")
                    elif merge and not op["force"] and not backward and out != "err:forceable":
                        fail("addedge|merge-not-refused-forceable", f"{op} on a target with a parent gave {out}")
                    if accepted:
                        removed = set(g0.edges) - set(tracks.graph.edges)
                        allowed = set(g0.in_edges(v_))
                        if not removed <= allowed or (removed and not op["force"]):
                            fail("addedge|force-removed-unrelated-edge", f"{op} removed {sorted(removed)}, conflicting edges are {sorted(allowed)}")
            if kind == "addnode" and accepted:
                g0 = before_g
                removed = set(g0.edges) - set(tracks.graph.edges)
                if removed and not op["force"]:
                    # only the skip edge that the new node splits may go
                    nid = op["id"]
                    ok_ = all((tracks.graph.has_edge(a, nid) and tracks.graph.has_edge(nid, b)) for a, b in removed)
                    if not ok_:
                        fail("addnode|removed-edge-without-force", f"{op} removed {sorted(removed)}")
        if prop == "C04" and accepted and kind in EDIT_OPS | {"undo", "redo", "enable"}:
            lab = {n: tracks.graph.nodes[n].get("track_id") for n in tracks.graph.nodes}
            for p in partition_problems(tracks.graph, segments(tracks.graph), lab, "track id"):
                fail(f"{kind}|{branch_tag_from(before_g, op)}|{p.split(':')[0]}", f"after {op}: {p}")
            if kind in EDIT_OPS:
                for p in frame_problems(op, before_g, before_tid, lab, before_tid, "track id"):
                    fail(f"{kind}|frame", f"after {op}: {p}")
        if prop == "C05" and accepted and kind in EDIT_OPS | {"undo", "redo", "enable"} and "lineage_id" in tracks.track_annotator.features:
            lab = {n: tracks.graph.nodes[n].get("lineage_id") for n in tracks.graph.nodes}
            for p in partition_problems(tracks.graph, list(nx.weakly_connected_components(tracks.graph)), lab, "lineage id"):
                fail(f"{kind}|{branch_tag_from(before_g, op)}|{p.split(':')[0]}", f"after {op}: {p}")
            if kind in EDIT_OPS:
                for p in frame_problems(op, before_g, before_lin, lab, before_tid, "lineage id"):
                    fail(f"{kind}|frame", f"after {op}: {p}")
        if prop == "C06":
            for p in lookup_problems(tracks, T):
                fail(f"{kind}|{p.split(':')[0]}", f"after {op}: {p}")
            if kind == "qnew" and out.startswith("nodes"):
                ids = [int(x) for x in out.split()[1:]]
                if len(set(ids)) != len(ids) or any(i in tracks.graph for i in ids):
                    fail("qnew|not-fresh", f"_get_new_node_ids gave {ids}")
        if prop == "C07" and case.cfg == "seg":
            if accepted and kind in EDIT_OPS | {"undo", "redo"}:
                for p in seg_problems(case, tracks):
                    fail(f"{kind}|{p.split(':')[0]}", f"after {op}: {p}")
            if kind == "paint" and accepted and not op.get("_probe"):
                exp = before_seg.copy().reshape(-1)
                exp[op["pixels"]] = op["value"]
                if not np.array_equal(exp, tracks.segmentation.reshape(-1)):
                    fail("paint|array-not-as-painted", f"after {op} the array differs from the painted one")
                u = ses.apply({"op": "undo"})
                ops.append({"op": "undo", "_probe": 1}); outs.append(u); states.append(ses.state()); res.evaluations += 1
                if not np.array_equal(before_seg, tracks.segmentation):
                    fail("paint|undo-not-bit-exact", f"undo of {op} does not restore the array")
                r = ses.apply({"op": "redo"})
                ops.append({"op": "redo", "_probe": 1}); outs.append(r); states.append(ses.state()); res.evaluations += 1
            if kind == "paint" and not accepted and not np.array_equal(before_seg, tracks.segmentation):
                fail("paint|refused-array-changed", f"refused {op} ({out}) left the array changed after the caller restored the stroke")
            if kind in EDIT_OPS and not accepted and not stop:
                # a refused edit (stroke taken back by the caller) leaves labels and nodes in correspondence
                for p in seg_problems(case, tracks):
                    fail(f"{kind}|refused|{p.split(':')[0]}", f"after the refused {op} ({out}): {p}")
        if prop == "C08" and case.cfg == "seg" and accepted:
            for p in rp_problems(case, tracks, [k for k in case.rp_active(tracks) if k not in op["keys"]]
                                 if kind == "enable" and not op.get("recompute") else None):
                fail(f"{kind}|{p.split(':')[0]}", f"after {op}: {p}")
        if prop == "C09" and case.cfg == "seg" and accepted and not (kind == "enable" and not op.get("recompute")):
            if not op.get("_stale_iou"):
                for p in iou_problems(case, tracks):
                    fail(f"{kind}|{p.split(':')[0]}", f"after {op}: {p}")
        if prop == "C10":
            for p in registry_problems(case, tracks, static):
                fail(f"{kind}|registry", f"after {op}: {p}")
            if kind in ("enable", "disable"):
                bogus = F.K_BOGUS in op["keys"]
                if bogus and out != "err:key":
                    fail(f"{kind}|unknown-key-not-refused", f"{op} gave {out}")
                if bogus and observe_all(tracks) != before_all:
                    fail(f"{kind}|unknown-key-changed-state", f"{op}: " + obs_diff(before_all, observe_all(tracks)))
                if kind == "enable" and accepted and op["recompute"]:
                    # id features enabled with recomputation: ids = segments / components of the graph
                    gq = tracks.graph
                    if F.K_TID in op["keys"]:
                        for p in partition_problems(gq, segments(gq), {n: gq.nodes[n].get("track_id") for n in gq.nodes}, "track id"):
                            fail("enable|value-not-current|track-id-" + p.split(":")[0], f"after {op}: {p}")
                    if F.K_LIN in op["keys"]:
                        for p in partition_problems(gq, list(nx.weakly_connected_components(gq)),
                                                    {n: gq.nodes[n].get("lineage_id") for n in gq.nodes}, "lineage id"):
                            fail("enable|value-not-current|lineage-id-" + p.split(":")[0], f"after {op}: {p}")
                if kind == "enable" and accepted and op["recompute"] and case.cfg == "seg":
                    ks = [k for k in op["keys"] if k in F.RP_KEYS]
                    for p in rp_problems(case, tracks, ks):
                        fail("enable|value-not-current|" + p.split(":")[0], f"after {op}: {p}")
                    if F.K_IOU in op["keys"]:
                        for p in iou_problems(case, tracks):
                            fail("enable|iou-not-current", f"after {op}: {p}")
                if kind == "disable" and accepted:
                    for k in op["keys"]:
                        if k == F.K_IOU:
                            frozen[k] = {e: tracks.get_edge_attr(e, case.keyname[F.K_IOU]) for e in tracks.graph.edges}
                            for e in tracks.graph.edges:
                                frozen_obj[(k, e)] = tracks.graph.edges[e]
                        elif k in F.RP_KEYS or k in (F.K_TID, F.K_LIN):
                            frozen[k] = {n: canon_value(tracks.graph.nodes[n].get(case.keyname[k])) for n in tracks.graph.nodes}
                            for n in tracks.graph.nodes:
                                frozen_obj[(k, n)] = tracks.graph.nodes[n]
                if kind == "enable" and accepted:
                    for k in op["keys"]:
                        frozen.pop(k, None)
            else:
                # elements that no longer exist are no longer "the same node/edge" (a refused call
                # can remove one too: with the tracklet feature off a rollback may not be possible)
                for k, vals in frozen.items():
                    for x in list(vals):
                        gone = (not tracks.graph.has_edge(*x)) if k == F.K_IOU else (x not in tracks.graph)
                        if gone:
                            vals.pop(x)
            if kind not in ("enable", "disable") and accepted:
                for k, vals in frozen.items():
                    for x, v in list(vals.items()):
                        if k == F.K_IOU:
                            if not tracks.graph.has_edge(*x):
                                vals.pop(x)
                                continue
                            now = tracks.get_edge_attr(x, case.keyname[F.K_IOU])
                        else:
                            if x not in tracks.graph:
                                vals.pop(x)
                                continue
                            now = canon_value(tracks.graph.nodes[x].get(case.keyname[k]))
                        if now is None and v is not None:
                            # the node/edge was deleted and recreated by this step; an unregistered
                            # attribute is not saved by delete actions: absent, not changed
                            vals[x] = None
                            continue
                        cur_obj = tracks.graph.edges[x] if k == F.K_IOU else tracks.graph.nodes[x]
                        if frozen_obj.get((k, x)) is not cur_obj:
                            # another incarnation of the element: it was removed and re-created since the
                            # value was noted (networkx keeps ONE attribute dict per living node / edge) —
                            # e.g. by the undo of an entry recorded while the feature was still enabled, which
                            # re-creates the element with the attributes saved then. Not "the same element
                            # changed by an edit": note the new incarnation
                            frozen_obj[(k, x)] = cur_obj
                            vals[x] = now
                            continue
                        if now != v:
                            fail(f"{kind}|disabled-feature-changed", f"after {op}: disabled {case.keyname[k]} of {x} changed {v} -> {now}")
                            vals[x] = now
            if kind == "updattrs":
                prot = {F.K_TIME, F.K_TID, F.K_LIN} | (set(F.RP_KEYS) | {F.K_IOU} if case.cfg == "seg" else set())
                hit = any(int(k) in prot for k in op["attrs"])
                if hit and out != "err:value":
                    fail("updattrs|protected-not-refused", f"{op} gave {out}")
                if hit and observe_all(tracks) != before_all:
                    fail("updattrs|protected-changed-state", f"{op}: " + obs_diff(before_all, observe_all(tracks)))
        if prop == "C11" and out.startswith("err") and kind in EDIT_OPS:
            now = observe_all(tracks)
            if now != before_all:
                if only_unregistered_lost(before_all, now, tracks):
                    # one finding of its own (known_findings.json, DESIGN §11.1 D18): every other
                    # difference keeps the per-action signature below
                    fail("rollback|unregistered-attribute-not-restored",
                         f"refused {op} ({out}) removed and restored an element; its attribute under a key that is "
                         f"not in tracks.features was not restored: " + obs_diff(before_all, now))
                else:
                    fail(f"{kind}|{out}|state-changed", f"refused {op} ({out}) changed the state: " + obs_diff(before_all, now))
            if ses.refresh != before_refresh:
                fail(f"{kind}|{out}|refresh-emitted", f"refused {op} ({out}) emitted a refresh")
        if prop == "C20":
            delta = ses.refresh - before_refresh
            # undo/redo: "successful" = there was a state to step to, judged by the harness's own
            # timeline (not by the call's return value, which the code under test produces)
            exp = 1 if ((kind in EDIT_OPS and accepted) or (kind in ("undo", "redo") and moved and not tid_off)) else 0
            if kind in ("undo", "redo") and tid_off:
                exp = delta
            if delta != exp:
                fail(f"{kind}|{'accepted' if accepted else 'refused'}|refresh-count", f"{op} ({out}) emitted {delta} refreshes, expected {exp}")
            if accepted and kind == "addnode" and ses.payload != op["id"]:
                fail("addnode|payload", f"{op} refresh payload {ses.payload}")
            if accepted and kind == "paint":
                created = op["value"] != 0 and op["value"] not in before_g
                if ses.payload != (op["value"] if created else None):
                    fail("paint|payload", f"{op} refresh payload {ses.payload}, new node created: {created}")
            if accepted and kind in ("addedge", "deledge", "delnode", "swap", "updattrs", "undo", "redo") and ses.payload is not None:
                fail(f"{kind}|payload", f"{op} refresh payload {ses.payload}")
    return ops, outs, states, fails


def branch_tag(tracks, kind: str) -> str:
    """which sub-actions the last recorded user action consists of"""
    try:
        st = tracks.action_history.undo_stack
        if not st:
            return kind
        def flat(a):
            if hasattr(a, "actions"):
                r = []
                for x in a.actions:
                    r += flat(x)
                return r
            return [type(a).__name__]
        names = flat(st[-1])
        short = {"AddNode": "An", "DeleteNode": "Dn", "AddEdge": "Ae", "DeleteEdge": "De",
                 "UpdateTrackIDs": "Ut", "UpdateNodeSeg": "Us", "UpdateNodeAttrs": "Ua"}
        return kind + ":" + "".join(short.get(n, "?") for n in names)
    except Exception:
        return kind


def branch_tag_from(g: nx.DiGraph, op: dict) -> str:
    """coarse topological situation of the edit (used in failure signatures)"""
    k = op["op"]
    try:
        if k == "deledge":
            return "division-edge" if g.out_degree(op["u"]) == 2 else "plain-edge"
        if k == "addedge":
            tags = []
            if g.out_degree(op["u"]) == 1:
                tags.append("creates-division")
            if g.in_degree(op["v"]) > 0:
                tags.append("forced-merge")
            return "+".join(tags) or "join"
        if k == "delnode":
            n = op["n"]
            tags = []
            if g.out_degree(n) == 2:
                tags.append("dividing-node")
            if g.in_degree(n) and g.out_degree(next(iter(g.predecessors(n)))) == 2:
                tags.append("first-after-division")
            if not tags:
                tags.append("root" if g.in_degree(n) == 0 else ("leaf" if g.out_degree(n) == 0 else "mid-track"))
            return "+".join(tags)
        if k == "addnode":
            return "forced" if op.get("force") else "plain"
    except Exception:
        pass
    return k



# ---------------------------------------------------------------------------------------------
# C01 at the level of primitive actions: action.inverse() and action.inverse().inverse()
# ---------------------------------------------------------------------------------------------
def prim_cases(prop: str, rng: random.Random, n: int, res: Result) -> list[Failure]:
    from funtracks.actions import (AddEdge, AddNode, DeleteEdge, DeleteNode, UpdateNodeAttrs,
                                   UpdateNodeSeg, UpdateTrackIDs)
    fails: list[Failure] = []
    seen: set = set()
    prim_jobs: list = []   # (spec, description, model lines, real states) for the correspondence
    for _ in range(n):
        spec = G.gen_case(rng, with_ids=True)
        try:
            ses = Session(spec)
        except Exception as e:
            res.count(f"session-aborted:{type(e).__name__}")
            continue
        case, t = ses.case, ses.tracks
        g = t.graph
        nodes = list(g.nodes)
        T = case.shape[0] if case.shape else 5
        kind = rng.choice(["AddNode", "DeleteNode", "AddEdge", "DeleteEdge", "UpdateNodeAttrs",
                           "UpdateNodeSeg", "UpdateTrackIDs"])
        desc: dict[str, Any] = {"prim": kind}
        try:
            init_line = "SP" + case.init_line(t)[1:]
        except Exception:
            init_line = None
        mline: str | None = None   # the same primitive in the model's line protocol (family SP)
        try:
            if kind == "AddNode":
                nid = G.fresh_node_id(rng, t)
                time_ = rng.randrange(T)
                attrs: dict[str, Any] = {"time": time_, "track_id": rng.randrange(1, 40), "lineage_id": rng.randrange(1, 40)}
                px = None
                if case.cfg == "seg":
                    free = G.free_pixels(case, t, time_)
                    if not free:
                        continue
                    pl = rng.sample(free, rng.randint(1, min(3, len(free))))
                    px = case.idx_tuple(pl)
                    desc["pixels"] = pl
                elif case.cfg == "axes":
                    for a in F.axis_names(case.ndim):
                        attrs[a] = float(rng.randrange(50))
                else:
                    attrs["pos"] = [float(rng.randrange(50))] * (case.ndim - 1)
                if rng.random() < 0.5:
                    attrs["score"] = rng.randrange(100)
                desc.update(node=nid, attrs={k: (v if not isinstance(v, list) else list(v)) for k, v in attrs.items()})
                other: dict[int, Any] = {}
                if case.cfg == "axes":
                    for pk, a in zip(case.pos_keys, F.axis_names(case.ndim)):
                        other[pk] = int(attrs[a])
                elif case.cfg == "pos":
                    for pk in case.pos_keys:
                        other[pk] = int(attrs["pos"][0])
                if "score" in attrs:
                    other[F.K_SCORE] = attrs["score"]
                pxs = "-" if px is None else f"{len(desc['pixels'])} " + " ".join(map(str, desc["pixels"]))
                mline = (f"SP addnode {nid} {time_} {attrs['track_id']} {attrs['lineage_id']} "
                         + " ".join(case.enc_attrs(other)) + f" {pxs}")
                make = lambda: AddNode(t, nid, attrs, pixels=px)  # noqa: E731
            elif kind == "DeleteNode":
                iso = [n for n in nodes if g.degree(n) == 0]
                if not iso:
                    continue
                n_ = rng.choice(iso)
                desc["node"] = n_
                mline = f"SP delnode {n_} -"
                make = lambda: DeleteNode(t, n_)  # noqa: E731
            elif kind == "AddEdge":
                pairs = [(u, v) for u in nodes for v in nodes if u != v and not g.has_edge(u, v)]
                if not pairs:
                    continue
                e = rng.choice(pairs)
                desc["edge"] = e
                eat: dict[str, Any] = {}
                enc: dict[int, Any] = {}
                if rng.random() < 0.5:
                    # the optional `attributes=`: a custom value, and (while IoU is managed) a stale
                    # value for the managed key, which the annotator has to override
                    eat["w"] = rng.randrange(100)
                    enc[F.K_W] = eat["w"]
                    if case.cfg == "seg" and case.iou_active(t):
                        eat[case.keyname[F.K_IOU]] = float(rng.randrange(2, 9))
                        enc[F.K_IOU] = int(eat[case.keyname[F.K_IOU]])
                desc["attributes"] = dict(eat)
                mline = f"SP addedge {e[0]} {e[1]} " + " ".join(case.enc_attrs(enc))
                make = (lambda: AddEdge(t, e, attributes=dict(eat))) if eat else (lambda: AddEdge(t, e))  # noqa: E731
            elif kind == "DeleteEdge":
                if not g.edges:
                    continue
                e = rng.choice(list(g.edges))
                desc["edge"] = e
                mline = f"SP deledge {e[0]} {e[1]}"
                make = lambda: DeleteEdge(t, e)  # noqa: E731
            elif kind == "UpdateNodeAttrs":
                if not nodes:
                    continue
                n_ = rng.choice(nodes)
                at = {"score": rng.randrange(100)}
                desc.update(node=n_, attrs=at)
                mline = f"SP updattrs {n_} " + " ".join(case.enc_attrs({F.K_SCORE: at["score"]}))
                make = lambda: UpdateNodeAttrs(t, n_, at)  # noqa: E731
            elif kind == "UpdateNodeSeg":
                if case.cfg != "seg" or not nodes:
                    continue
                n_ = rng.choice(nodes)
                added = rng.random() < 0.5
                tm = g.nodes[n_]["time"]
                if added:
                    free = G.free_pixels(case, t, tm)
                    if not free:
                        continue
                    pl = rng.sample(free, rng.randint(1, min(3, len(free))))
                else:
                    own = case.pixels_of(t, n_)
                    pl = rng.sample(own, rng.randint(1, len(own)))
                desc.update(node=n_, pixels=pl, added=added)
                px2 = case.idx_tuple(pl)
                mline = f"SP updseg {n_} {len(pl)} " + " ".join(map(str, pl)) + f" {int(added)}"
                make = lambda: UpdateNodeSeg(t, n_, px2, added=added)  # noqa: E731
            else:  # UpdateTrackIDs: the new id must not be found downstream
                if not nodes:
                    continue
                n_ = rng.choice(nodes)
                down = nx.descendants(g, n_) | {n_}
                used = {g.nodes[x]["track_id"] for x in down}
                cand = [i for i in range(1, 45) if i not in used]
                new = rng.choice(cand)
                lin = rng.choice([None, rng.randrange(1, 45)])
                desc.update(start=n_, tid=new, lin=lin)
                mline = f"SP updtid {n_} {new} {-1 if lin is None else lin}"
                make = lambda: UpdateTrackIDs(t, n_, new, lin)  # noqa: E731
            a0 = observe(t)
            st0 = ses.state()
            act = make()
            b0 = observe(t)
            st1 = ses.state()
            inv = act.inverse()
            a1 = observe(t)
            st2 = ses.state()
            inv.inverse()
            b1 = observe(t)
            st3 = ses.state()
        except Exception as e:
            res.count(f"prim:{kind}:raised:{type(e).__name__}")
            continue
        if init_line is not None and mline is not None:
            prim_jobs.append((spec, desc, [init_line, mline, "SP inv", "SP inv"], [st0, st1, st2, st3]))
        res.evaluations += 1
        res.count(f"prim:{kind}")
        res.nontrivial.add(h([spec["nodes"], spec["edges"], desc]))
        if a1 != a0:
            sig = f"{prop}|prim|{kind}|inverse-does-not-restore"
            if sig not in seen:
                seen.add(sig)
                fails.append(Failure("oracle", prop, sig, f"{desc}: inverse() leaves " + obs_diff(a0, a1),
                                     {"spec": spec, "primitive": desc}))
        elif b1 != b0:
            sig = f"{prop}|prim|{kind}|inverse-of-inverse-differs"
            if sig not in seen:
                seen.add(sig)
                fails.append(Failure("oracle", prop, sig, f"{desc}: inverse().inverse() leaves " + obs_diff(b0, b1),
                                     {"spec": spec, "primitive": desc}))
    fails += prim_correspondence(prop, prim_jobs, res)
    return fails


def prim_correspondence(prop: str, jobs: list, res: Result) -> list[Failure]:
    """primitive action, inverse(), inverse().inverse(): the model's `pX` / `invPrim` against the
    real constructors, whole canonical state after each of the three calls"""
    fails: list[Failure] = []
    if not jobs:
        return fails
    lines = [l for _, _, ls, _ in jobs for l in ls]
    try:
        out = Driver().run(lines)
    except Exception as e:
        res.notes.append(f"primitive correspondence: driver failed: {e}")
        return [Failure("divergence", prop, f"{prop}|prim|driver-unavailable", str(e)[:200], {})]
    pos = 0
    seen: set = set()
    for spec, desc, ls, states in jobs:
        seg = out[pos:pos + len(ls)]
        pos += len(ls)
        case = F.Case(spec)
        for i, (line, st) in enumerate(zip(seg, states)):
            head, mstate = F.parse_model_line(line)
            what = ["construction", desc["prim"], "inverse()", "inverse().inverse()"][i]
            if mstate is None or (i > 0 and head != "ok"):
                diffs = [("outcome", f"model answered {head!r} to {ls[i]!r}; the real call succeeded")]
            else:
                diffs = F.compare(case, mstate, st)
            res.compared_steps += 1
            if diffs:
                sig = f"{prop}|prim-model-vs-code|{desc['prim']}|{what}"
                if sig not in seen:
                    seen.add(sig)
                    fails.append(Failure("divergence", prop, sig,
                                         f"primitive {desc} ({what}): " + "; ".join(d for _, d in diffs[:3]),
                                         {"spec": spec, "primitive": desc, "model_lines": ls[1:], "step": i}))
                break
    res.count("prim-correspondence:cases", len(jobs))
    return fails


# ---------------------------------------------------------------------------------------------
# the same properties through the (deprecated, still shipped) `TracksController` entry points:
# add_nodes / delete_nodes / add_edges / delete_edges / swap_predecessors / update_node_attrs /
# update_segmentations / undo / redo, with one or SEVERAL elements per call. Oracle only (the
# model has no controller); a silent refusal (warning + return) counts as a refusal.
# ---------------------------------------------------------------------------------------------
def controller_sessions(prop: str, rng: random.Random, n: int, res: Result) -> list[Failure]:
    import warnings as _w

    from funtracks.data_model.tracks_controller import TracksController
    fails: list[Failure] = []
    seen: set = set()
    sc_jobs: list = []   # the same calls through the Lean model of the controller (family SC)

    def state_problems(case, t) -> list[str]:
        g = t.graph
        if prop == "C03":
            return forest_problems(t)
        if prop == "C04":
            return partition_problems(g, segments(g), {x: g.nodes[x].get("track_id") for x in g.nodes}, "track id")
        if prop == "C05":
            return partition_problems(g, list(nx.weakly_connected_components(g)),
                                      {x: g.nodes[x].get("lineage_id") for x in g.nodes}, "lineage id")
        if prop == "C06":
            return lookup_problems(t, case.shape[0] if case.shape else 5)
        if prop == "C07" and case.cfg == "seg":
            return seg_problems(case, t)
        if prop == "C08" and case.cfg == "seg":
            return rp_problems(case, t)
        if prop == "C09" and case.cfg == "seg":
            return iou_problems(case, t)
        return []

    for _ in range(n):
        spec = gen_spec_for(prop, rng)
        if spec.get("orphan_labels") or spec.get("prebuilt_no_lineage"):
            continue
        try:
            ses = Session(spec)
            with _w.catch_warnings():
                _w.simplefilter("ignore")
                ctl = TracksController(ses.tracks)
        except Exception as e:
            res.count(f"session-aborted:{type(e).__name__}")
            continue
        case, t = ses.case, ses.tracks
        kinds = [k for k in ("addedge", "deledge", "addnode", "addnode", "delnode", "swap", "updattrs", "updattrs", "paint", "undo", "undo", "redo")
                 if case.cfg == "seg" or k != "paint"]
        hist: list = []
        timeline = [observe(t)]
        cursor = 0
        try:
            sc_lines: list[str] | None = ["SC" + case.init_line(t)[1:]]
        except Exception:
            sc_lines = None
        sc_states: list[dict] = [ses.state()]
        sc_outs: list[str] = ["ok"]
        for _step in range(rng.randint(4, 10)):
            op = G.gen_op(rng, case, t, kinds)
            g = t.graph
            kind = op["op"]
            multi = 1
            before_all = observe_all(t)
            before_obs = observe(t)
            before_refresh = ses.refresh
            nu, nr = len(t.action_history.undo_stack), len(t.action_history.redo_stack)
            call = None
            try:
                if kind == "addedge":
                    call = lambda: ctl.add_edges([(op["u"], op["v"])], force=bool(op["force"]))  # noqa: E731
                elif kind == "deledge":
                    es_ = [(op["u"], op["v"])]
                    r_ = rng.random()
                    others_ = [e for e in g.edges if e != es_[0]]
                    if r_ < 0.4 and others_ and g.has_edge(*es_[0]):
                        es_.append(tuple(rng.choice(others_)))      # several edges in ONE call
                        if r_ < 0.1 and len(others_) > 1:
                            es_.append(tuple(rng.choice([e for e in others_ if e != es_[1]])))
                    elif r_ < 0.5 and g.has_edge(*es_[0]):
                        es_ = es_ * 2                                # the same edge twice: the second raises
                    elif r_ < 0.54:
                        es_ = []
                    op = dict(op, edges=[list(e) for e in es_])
                    if g.has_edge(*es_[0]) if es_ else False:
                        multi = len(set(es_))
                    call = lambda: ctl.delete_edges([tuple(e) for e in op["edges"]])  # noqa: E731
                elif kind == "delnode":
                    call = lambda: ctl.delete_nodes([op["n"]])  # noqa: E731
                elif kind == "swap":
                    call = lambda: ctl.swap_predecessors((op["a"], op["b"]))  # noqa: E731
                elif kind == "undo":
                    call = ctl.undo
                elif kind == "redo":
                    call = ctl.redo
                elif kind == "updattrs":
                    ns = list(g.nodes)
                    if not ns:
                        continue
                    k_ = rng.randint(1, min(3, len(ns)))
                    targets = rng.sample(ns, k_)
                    if rng.random() < 0.12:
                        # a node that does not exist, after some that do: refused as a whole
                        targets = targets + [G.fresh_node_id(rng, t)]
                    op = {"op": "updattrs", "nodes": targets, "attrs": {"score": [rng.randrange(100) for _ in targets]}}
                    if len(targets) >= 2 and rng.random() < 0.12:
                        # a value list shorter than the node list: IndexError after some nodes were updated
                        op["attrs"]["score"] = op["attrs"]["score"][:-1]
                        op["_short"] = 1
                    call = lambda: ctl.update_node_attrs(op["nodes"], op["attrs"])  # noqa: E731
                elif kind == "paint":
                    if "groups" not in op:
                        op["groups"] = [[px, ov] for px, ov in paint_groups(case, t, op)]
                    idx = case.idx_tuple(op["pixels"])
                    old = t.segmentation[idx].copy()

                    def call():
                        t.segmentation[idx] = op["value"]
                        upd = [(case.idx_tuple(px), ov) for px, ov in op["groups"]]
                        try:
                            ctl.update_segmentations(op["value"], upd, int(idx[0][0]) if len(idx[0]) else 0, op["tid"], force=bool(op["force"]))
                        except Exception:
                            t.segmentation[idx] = old
                            raise
                elif kind == "addnode":
                    if op.get("time") is None or op.get("tid") is None:
                        continue
                    if case.cfg == "seg":
                        if not op.get("pixels"):
                            continue
                        # one or two nodes in ONE call; with two, not in ascending time order
                        items = [op]
                        if rng.random() < 0.5:
                            t2 = rng.randrange(case.shape[0])
                            free2 = [p_ for p_ in G.free_pixels(case, t, t2) if p_ not in op["pixels"]]
                            if free2:
                                op2 = {"id": G.fresh_node_id(rng, t), "time": t2, "tid": t.get_next_track_id() + 1,
                                       "pixels": rng.sample(free2, rng.randint(1, min(3, len(free2))))}
                                if op2["id"] != op["id"]:
                                    items = sorted([op, op2], key=lambda o: -o["time"])
                        multi = len(items)
                        attrs = {"time": [o["time"] for o in items], "track_id": [o["tid"] for o in items],
                                 "node_id": [o["id"] for o in items]}
                        pix = [case.idx_tuple(o["pixels"]) for o in items]
                        op = {"op": "addnode", "items": [{k: o[k] for k in ("id", "time", "tid", "pixels")} for o in items], "force": op["force"]}
                        call = lambda: ctl.add_nodes(attrs, pixels=pix, force=bool(op["force"]))  # noqa: E731
                    else:
                        if op.get("pos") is None:
                            continue
                        attrs = {"time": [op["time"]], "track_id": [op["tid"]]}
                        if case.cfg == "axes":
                            for a in F.axis_names(case.ndim):
                                attrs[a] = [float(op["pos"])]
                        else:
                            attrs["pos"] = [[float(op["pos"])] * (case.ndim - 1)]
                        call = lambda: ctl.add_nodes(attrs, force=bool(op["force"]))  # noqa: E731
                else:
                    continue
                signal.signal(signal.SIGALRM, _alarm)
                signal.alarm(STEP_TIMEOUT)
                try:
                    with _w.catch_warnings():
                        _w.simplefilter("ignore")
                        r = call()
                    out = ("true" if r else "false") if kind in ("undo", "redo") else "returned"
                finally:
                    signal.alarm(0)
            except Hang:
                fails.append(Failure("hang", prop, f"{prop}|controller|hang|{kind}", f"controller call {op} did not return",
                                     {"spec": spec, "controller_history": hist + [op]}))
                break
            except (InvalidActionError, ValueError, KeyError, nx.NetworkXError) as e:
                out = "raised:" + type(e).__name__
            except Exception as e:  # noqa: BLE001
                out = ("raised:" if (op.get("_short") and isinstance(e, IndexError)) else "raised-other:") + type(e).__name__
            hist.append({k: v for k, v in op.items() if k != "groups"} | {"_out": out})
            res.evaluations += 1
            if sc_lines is not None:
                ln_ = sc_line(case, kind, op)
                if ln_ is None:
                    sc_lines = None
                else:
                    sc_lines.append(ln_)
                    sc_states.append(ses.state())
                    changed_ = (len(t.action_history.undo_stack), len(t.action_history.redo_stack)) != (nu, nr)
                    sc_outs.append(out if kind in ("undo", "redo") else
                                   ("err:" + out.split(":", 1)[1] if out.startswith("raised") else ("ok" if changed_ else "silent")))
            grown = len(t.action_history.undo_stack) - nu
            redo_delta = len(t.action_history.redo_stack) - nr
            changed_hist = grown != 0 or redo_delta != 0
            # a new entry made after undos first moves the pending redo entries onto the undo stack
            entries = grown - nr if (grown > 0 and kind not in ("undo", "redo")) else grown
            res.count(f"controller:{kind}:" + (out.split(":")[0] if kind not in ("undo", "redo") else out) + (f":x{multi}" if multi > 1 else ""))
            res.nontrivial.add(h([spec["nodes"], spec["edges"], hist[-1]]))

            def fail(sig: str, what: str):
                s_ = f"{prop}|controller|{sig}"
                if s_ not in seen:
                    seen.add(s_)
                    fails.append(Failure("oracle", prop, s_, f"TracksController session {[{k: v for k, v in o.items()} for o in hist][-4:]}: {what}",
                                         {"spec": spec, "controller_history": copy.deepcopy(hist)}))

            stop = False
            if out.startswith("raised-other"):
                fail(f"{kind}|unexpected-exception", f"{op} raised {out}")
                break
            refused = kind not in ("undo", "redo") and not changed_hist
            if kind in ("undo", "redo") and out.startswith("raised"):
                fail(f"{kind}|raised", f"{kind}() {out} after {[o.get('op') for o in hist]}")
                break
            if kind in ("undo", "redo"):
                if prop in ("C02", "C01"):
                    exp = (cursor > 0) if kind == "undo" else (cursor + 1 < len(timeline))
                    if exp:
                        cursor += -1 if kind == "undo" else 1
                    if (out == "true") != exp:
                        fail(f"{kind}|return-value", f"{kind}() returned {out}, timeline cursor {cursor} of {len(timeline)}")
                        stop = True
                    elif observe(t) != timeline[cursor]:
                        fail(f"{kind}|state-not-on-timeline", obs_diff(timeline[cursor], observe(t)))
                        stop = True
                if prop == "C20" and (ses.refresh - before_refresh) != (1 if out == "true" else 0):
                    fail(f"{kind}|refresh-count", f"{kind}() -> {out} emitted {ses.refresh - before_refresh} refreshes")
                    stop = True
            elif refused:
                if prop == "C11" and observe_all(t) != before_all and not only_unregistered_lost(before_all, observe_all(t), t):
                    fail(f"{kind}|refused-changed-state", f"refused {op} ({out}): " + obs_diff(before_all, observe_all(t)))
                    stop = True
                if prop in ("C11", "C20") and ses.refresh != before_refresh:
                    fail(f"{kind}|refused-refresh", f"refused {op} ({out}) emitted a refresh")
                    stop = True
            elif multi > 1 and out.startswith("raised"):
                # several user actions in one call, a later one refused: the earlier ones stand
                # (each is a user action of its own); steps and refreshes must still agree
                if prop == "C20" and (ses.refresh - before_refresh) != entries:
                    fail(f"{kind}|refresh-count", f"{op}: {entries} accepted user action(s), {ses.refresh - before_refresh} refreshes")
                    stop = True
                if prop in ("C02", "C01"):
                    break
            else:
                # accepted: `multi` user actions in one call (add_nodes of several nodes), else one
                if prop in ("C02", "C01", "C20") and entries != multi:
                    fail(f"{kind}|steps-per-call", f"{op}: {multi} user action(s) became {entries} undo step(s)")
                    stop = True
                elif prop in ("C02", "C01") and multi == 1:
                    back = timeline[cursor:len(timeline) - 1][::-1]
                    timeline = timeline + back + [observe(t)]
                    cursor = len(timeline) - 1
                    if prop == "C01":
                        after = observe(t)
                        try:
                            u_ = ctl.undo()
                            if sc_lines is not None:
                                sc_lines.append("SC undo"); sc_states.append(ses.state()); sc_outs.append("true" if u_ else "false")
                            if not u_ or observe(t) != before_obs:
                                fail(f"{kind}|undo-does-not-restore", obs_diff(before_obs, observe(t)))
                                stop = True
                            r_ = ctl.redo() if not stop else True
                            if sc_lines is not None and not stop:
                                sc_lines.append("SC redo"); sc_states.append(ses.state()); sc_outs.append("true" if r_ else "false")
                            if not stop and (not r_ or observe(t) != after):
                                fail(f"{kind}|redo-does-not-reapply", obs_diff(after, observe(t)))
                                stop = True
                        except Exception as e:  # noqa: BLE001  undo()/redo() never raise on accepted edits
                            fail(f"{kind}|undo-raised", f"undo/redo of {op} raised {type(e).__name__}: {str(e)[:120]}")
                            stop = True
                elif prop in ("C02", "C01"):
                    break  # several steps without the intermediate states: end the timeline here
                if prop == "C20" and (ses.refresh - before_refresh) != multi:
                    fail(f"{kind}|refresh-count", f"{op}: {multi} user action(s), {ses.refresh - before_refresh} refreshes")
                    stop = True
                if prop == "C07" and kind == "paint" and case.cfg == "seg":
                    pass
            try:
                sp_ = state_problems(case, t) if not stop else []
            except Exception as e:  # noqa: BLE001
                sp_ = [f"oracle-raised:{type(e).__name__} while reading the state"]
            for p_ in sp_:
                fail(f"{kind}|{p_.split(':')[0]}", f"after {op} ({out}): {p_}")
                stop = True
                break
            if stop:
                break
        if sc_lines is not None and len(sc_lines) > 1:
            sc_jobs.append((spec, copy.deepcopy(hist), sc_lines, sc_states, sc_outs))
    fails += controller_correspondence(prop, sc_jobs, res)
    return fails


def sc_line(case: F.Case, kind: str, op: dict) -> str | None:
    """one TracksController call in the model's line protocol (family SC, FtModel/ControllerDrv.lean)"""
    if kind == "addedge":
        return f"SC addedges 1 {op['u']} {op['v']} {op['force']}"
    if kind == "deledge":
        es = op.get("edges", [[op["u"], op["v"]]])
        return " ".join(["SC", "deledges", str(len(es))] + [f"{u} {v}" for u, v in es])
    if kind == "delnode":
        return f"SC delnodes 1 {op['n']}"
    if kind == "swap":
        return f"SC swap {op['a']} {op['b']}"
    if kind in ("undo", "redo"):
        return f"SC {kind}"
    if kind == "updattrs":
        ns = op["nodes"]
        vals = op["attrs"]["score"]
        return (f"SC updattrs {len(ns)} " + " ".join(map(str, ns)) + f" 1 {F.K_SCORE} {len(vals)} "
                + " ".join(f"t {v}" for v in vals))
    if kind == "paint":
        gs = op["groups"]
        parts = [f"SC paint {op['value']} {len(gs)}"]
        for px, ov in gs:
            parts.append(f"{len(px)} " + " ".join(map(str, px)) + f" {ov}")
        parts.append(f"{op['tid']} {op['force']}")
        return " ".join(parts)
    if kind == "addnode":
        if "items" in op:   # with pixels: ids given
            it = op["items"]
            n = len(it)
            col = lambda key: f"{n} " + " ".join(str(o[key]) for o in it)  # noqa: E731
            masks = f"{n} " + " ".join(f"{len(o['pixels'])} " + " ".join(map(str, o["pixels"])) for o in it)
            return f"SC addnodes {F.K_NODEID} {col('time')} {col('tid')} - {col('id')} 0 {masks} {op['force']}"
        # without pixels: one node, generated id, position column(s)
        cols = " ".join(f"{k} 1 t {op['pos']}" for k in case.pos_keys)
        return f"SC addnodes {F.K_NODEID} 1 {op['time']} 1 {op['tid']} - - {len(case.pos_keys)} {cols} - {op['force']}"
    return None


def controller_correspondence(prop: str, jobs: list, res: Result) -> list[Failure]:
    fails: list[Failure] = []
    if not jobs:
        return fails
    try:
        out = Driver().run([l for _, _, ls, _, _ in jobs for l in ls])
    except Exception as e:  # noqa: BLE001
        res.notes.append(f"controller correspondence: driver failed: {e}")
        return fails
    pos = 0
    seen: set = set()
    errmap = {"InvalidActionError": ("invalid", "forceable"), "ValueError": ("value",), "KeyError": ("key",),
              "NetworkXError": ("key",), "IndexError": ("other",)}
    for spec, hist, ls, states, outs in jobs:
        seg_ = out[pos:pos + len(ls)]
        pos += len(ls)
        case = F.Case(spec)
        for i, (line, st_, ro) in enumerate(zip(seg_, states, outs)):
            head, mstate = F.parse_model_line(line)
            diffs: list = []
            if mstate is None:
                diffs = [("outcome", f"model answered {head!r} to {ls[i][:70]!r}")]
            else:
                if ro == "silent":
                    ok_ = head.startswith("refused") or head == "ok"
                elif ro.startswith("err:"):
                    ok_ = head.startswith("err:") and head[4:] in errmap.get(ro[4:], (ro[4:],))
                else:
                    ok_ = head == ro
                if not ok_:
                    diffs.append(("outcome", f"outcome model {head!r} code {ro!r}"))
                diffs += F.compare(case, mstate, st_)
            res.compared_steps += 1
            if diffs:
                sig = f"{prop}|controller-model-vs-code|{ls[i].split()[1]}"
                mine = [d for f_, d in diffs if F.OWNER.get(f_, "C01") == prop or f_ == "outcome"] or [d for _, d in diffs]
                if sig not in seen:
                    seen.add(sig)
                    fails.append(Failure("divergence", prop, sig,
                                         f"TracksController call {i} ({ls[i][:90]}): " + "; ".join(mine[:3]),
                                         {"spec": spec, "controller_history": hist[:i], "model_lines": ls[:i + 1], "step": i}))
                break
    res.count("controller-correspondence:sessions", len(jobs))
    return fails


# ---------------------------------------------------------------------------------------------
# C20 with SEVERAL listeners, one of which reacts to a refresh by making an edit of its own
# (a view that tags the node it is told about): every listener must still be told once per
# successful top-level action — the outer one and the nested reaction
# ---------------------------------------------------------------------------------------------
def reentrant_refresh_cases(prop: str, rng: random.Random, n: int, res: Result) -> list[Failure]:
    fails: list[Failure] = []
    seen: set = set()
    for _ in range(n):
        spec = G.gen_case(rng, cfg=rng.choice(["pos", "axes", "seg"]))
        try:
            case = F.Case(spec)
            t = case.build()
        except Exception as e:
            res.count(f"session-aborted:{type(e).__name__}")
            continue
        if t.graph.number_of_nodes() < 1:
            continue
        order = rng.choice(["reactor-first", "reactor-last"])
        got: list = []
        state = {"busy": False, "arm": False, "reacted": 0}

        def reactor(node=None):
            if state["busy"] or not state["arm"]:
                return
            ns = list(t.graph.nodes)
            if not ns:
                return
            state["busy"] = True
            try:
                UserUpdateNodeAttrs(t, rng.choice(ns), {"score": rng.randrange(100)})
                state["reacted"] += 1
            finally:
                state["busy"] = False

        def passive(node=None):
            got.append(node)

        for cb in ((reactor, passive) if order == "reactor-first" else (passive, reactor)):
            t.refresh.connect(cb)
        ses = Session.__new__(Session)
        ses.case, ses.tracks, ses.refresh, ses.payload = case, t, 0, None
        hist: list = []
        kinds = ["addedge", "deledge", "addnode", "delnode", "swap", "updattrs", "undo", "redo"] + (["paint"] if case.cfg == "seg" else [])
        from psygnal import Signal as _Signal

        class _Button:
            pressed = _Signal()
        button = _Button()
        pressed_result: list = []
        button.pressed.connect(lambda: pressed_result.append(t.undo() if pressed_result_kind[0] == "undo" else t.redo()))
        pressed_result_kind = ["undo"]
        for _step in range(rng.randint(2, 6)):
            op = G.gen_op(rng, case, t, kinds)
            state["arm"] = rng.random() < 0.6
            nu, nr = len(t.action_history.undo_stack), len(t.action_history.redo_stack)
            got.clear()
            state["reacted"] = 0
            special = rng.random()
            if special < 0.15 and op["op"] in ("undo", "redo"):
                # undo / redo bound to a button: called from inside the callback of ANOTHER signal
                pressed_result_kind[0] = op["op"]
                pressed_result.clear()
                try:
                    button.pressed.emit()
                except Exception as e:  # noqa: BLE001
                    fails.append(Failure("oracle", prop, f"{prop}|listeners|button-{op['op']}-raised",
                                         f"{op['op']} from a signal callback raised {type(e).__name__}", {"spec": spec, "listener_history": copy.deepcopy(hist)}))
                    break
                out = "true" if (pressed_result and pressed_result[0]) else "false"
                op = dict(op, _from_button=1)
            elif special < 0.3 and op["op"] == "paint" and case.cfg == "seg" and op.get("value"):
                # a stroke handed over as a one-shot iterator: refused (the list is walked twice);
                # nothing may stay behind — in particular no blocked signal
                groups = paint_groups(case, t, op)
                idx = case.idx_tuple(op["pixels"])
                old_px = t.segmentation[idx].copy()
                t.segmentation[idx] = op["value"]
                try:
                    UserUpdateSegmentation(t, op["value"], iter([(case.idx_tuple(px), ov) for px, ov in groups]), op["tid"], force=bool(op["force"]))
                    out = "ok"
                except Exception as e:  # noqa: BLE001
                    t.segmentation[idx] = old_px
                    out = "err:" + type(e).__name__
                op = dict(op, _as_iterator=1)
                if out == "ok":
                    break   # (accepted after all: not what this step is about)
            else:
                try:
                    out = ses.apply(op)
                except Hang:
                    break
            hist.append({k: v for k, v in op.items() if k != "groups"} | {"_out": out, "_reaction_armed": state["arm"]})
            res.evaluations += 1
            # the reaction, when it happened, is a second successful top-level action
            expected = (1 if out in ("ok", "true") and op["op"] in EDIT_OPS | {"undo", "redo"} else 0) + state["reacted"]
            res.count(f"reentrant:{order}:{'armed' if state['arm'] else 'passive'}:{op['op']}")
            res.nontrivial.add(h([spec["nodes"], hist[-1], order]))
            if len(got) != expected:
                sig = f"{prop}|listeners|{order}|refresh-count"
                if sig not in seen:
                    seen.add(sig)
                    fails.append(Failure("oracle", prop, sig,
                                         f"two listeners ({order}); after {hist[-3:]} the passive listener was told "
                                         f"{len(got)} time(s), {expected} successful top-level action(s) happened",
                                         {"spec": spec, "listener_history": copy.deepcopy(hist), "order": order}))
                break
    return fails


# ---------------------------------------------------------------------------------------------
# C08 on LARGE masks and on IMPORTED objects
#   large: one-pixel edits of a mask of > 100 000 pixels change area and centroid by less than 1e-5
#          relative; the stored values must follow nevertheless (exact for area)
#   imported: the object is built by the CSV importer with a label array and feature flags in the
#          representations a caller's settings table hands out (True, 1, numpy.bool_), then edited
# ---------------------------------------------------------------------------------------------
def large_mask_cases(prop: str, rng: random.Random, n: int, res: Result) -> list[Failure]:
    from funtracks.data_model import SolutionTracks
    from funtracks.user_actions import UserUpdateSegmentation
    fails: list[Failure] = []
    seen: set = set()
    for _ in range(n):
        side = rng.randint(330, 380)
        scale = rng.choice([None, [1.0, 0.5, 0.25], [1.0, 2.0, 1.0]])
        seg = np.zeros((2, side + 6, side + 6), dtype=rng.choice(["int32", "uint32", "int64"]))
        seg[0, 2:2 + side, 3:3 + side] = 1
        seg[1, 2:14, 3:13] = 2
        g = nx.DiGraph()
        g.add_node(1, time=0)
        g.add_node(2, time=1)
        g.add_edge(1, 2)
        t = SolutionTracks(g, segmentation=seg, scale=scale, ndim=3)
        spacing = np.ones(2) if scale is None else np.array(scale[1:], dtype=float)
        desc = {"large_mask": {"side": side, "scale": scale, "dtype": str(seg.dtype)}, "steps": []}

        def problems():
            out = []
            for n_, tt in ((1, 0), (2, 1)):
                m = t.segmentation[tt] == n_
                cnt = int(m.sum())
                area = t.get_node_attr(n_, "area")
                exp_a = cnt * float(np.prod(spacing))
                if cnt and (area is None or abs(float(area) - exp_a) > 1e-9 * max(1.0, exp_a)):
                    out.append(f"area:node {n_} stored area {area} but its mask has {cnt} pixels x {float(np.prod(spacing))} = {exp_a}")
                pos = t.get_node_attr(n_, "pos")
                if cnt:
                    c = np.argwhere(m).mean(axis=0) * spacing
                    if pos is None or not np.allclose(np.asarray(pos, dtype=float), c, rtol=0, atol=1e-9 * max(1.0, float(np.abs(c).max()))):
                        out.append(f"pos:node {n_} stored position {pos} != scaled centroid {c.tolist()}")
            return out

        def fail(sig, what):
            s_ = f"{prop}|large-mask|{sig}"
            if s_ not in seen:
                seen.add(s_)
                fails.append(Failure("oracle", prop, s_, f"large mask {desc}: {what}", {"large_mask_history": copy.deepcopy(desc)}))

        for p_ in problems():
            fail("construct|" + p_.split(":")[0], p_)
        for _step in range(rng.randint(2, 4)):
            kind = rng.choice(["grow", "shrink", "undo", "redo"])
            try:
                if kind == "grow":
                    # one pixel of background next to the big node
                    idx = (np.array([0]), np.array([rng.choice([0, 1, side + 2])]), np.array([rng.randrange(3, 3 + side)]))
                    if t.segmentation[idx][0] != 0:
                        continue
                    t.segmentation[idx] = 1
                    UserUpdateSegmentation(t, 1, [(idx, 0)], 1)
                elif kind == "shrink":
                    idx = (np.array([0]), np.array([rng.randrange(2, 2 + side)]), np.array([rng.randrange(3, 3 + side)]))
                    if t.segmentation[idx][0] != 1:
                        continue
                    t.segmentation[idx] = 0
                    UserUpdateSegmentation(t, 0, [(idx, 1)], 1)
                elif kind == "undo":
                    t.undo()
                else:
                    t.redo()
            except Exception as e:  # noqa: BLE001
                fail(f"{kind}|raised", f"{kind} raised {type(e).__name__}: {str(e)[:120]}")
                break
            desc["steps"].append(kind)
            res.evaluations += 1
            res.nontrivial.add(h([side, scale, desc["steps"]]))
            for p_ in problems():
                fail(f"{kind}|" + p_.split(":")[0], f"after {desc['steps']}: {p_}")
        res.count("large-mask-cases")
    return fails


def narrow_dtype_iou_cases(prop: str, rng: random.Random, n: int, res: Result) -> list[Failure]:
    """bulk IoU on a one-byte label array with MANY overlapping pairs between two frames: any
    arithmetic on label values done in the array's own dtype wraps, and with 5-7 pairs per frame pair
    two of them meet on one wrapped value in ~6 % of the cases"""
    from funtracks.data_model import SolutionTracks
    fails: list[Failure] = []
    seen: set = set()
    for _ in range(n):
        k = rng.randint(5, 7)
        dt = rng.choice(["uint8", "uint8", "int8"])
        top = 255 if dt == "uint8" else 127
        labs = rng.sample(range(1, top + 1), 2 * k)
        seg = np.zeros((2, 4, 3 * k), dtype=dt)
        g = nx.DiGraph()
        exp = {}
        for i in range(k):
            a, b = labs[i], labs[k + i]
            wa, wb = rng.randint(1, 3), rng.randint(1, 3)      # widths: overlap = min, union = max (x 4 rows)
            seg[0, :, 3 * i:3 * i + wa] = a
            seg[1, :, 3 * i:3 * i + wb] = b
            g.add_node(a, time=0)
            g.add_node(b, time=1)
            g.add_edge(a, b)
            exp[(a, b)] = min(wa, wb) / max(wa, wb)
        widths = {}
        for (a_, b_) in exp:
            widths[(a_, b_)] = (int((seg[0] == a_).any(axis=0).sum()), int((seg[1] == b_).any(axis=0).sum()))
        try:
            t = SolutionTracks(g, segmentation=seg, ndim=3)
            t.enable_features(["iou"])
            t.disable_features(["iou"])
            # while the feature is off: one target mask loses exactly its overlap with its source (and
            # keeps other pixels), so the stored non-zero value is stale and the true value is 0
            cand = [e_ for e_, (wa_, wb_) in widths.items() if wb_ > wa_]
            if cand:
                from funtracks.user_actions import UserUpdateSegmentation as _UUS
                a_, b_ = rng.choice(cand)
                cols = np.nonzero((seg[0] == a_).any(axis=0))[0]
                yy, xx = np.meshgrid(np.arange(seg.shape[1]), cols, indexing="ij")
                idx = (np.ones(yy.size, dtype=np.int64), yy.reshape(-1).astype(np.int64), xx.reshape(-1).astype(np.int64))
                t.segmentation[idx] = 0
                _UUS(t, 0, [(idx, int(b_))], 1)
                exp[(a_, b_)] = 0.0
                res.count("narrow-dtype-iou-cases:overlap-erased-while-off")
            t.enable_features(["iou"])
        except Exception as e:  # noqa: BLE001
            res.count(f"narrow-dtype:raised:{type(e).__name__}")
            continue
        res.evaluations += 1
        res.count(f"narrow-dtype-iou-cases:{dt}")
        res.nontrivial.add(h([dt, labs]))
        for e_, v in exp.items():
            got = t.get_edge_attr(e_, "iou")
            if got is None or abs(float(got) - v) > 1e-9:
                sig = f"{prop}|narrow-dtype|iou-not-current"
                if sig not in seen:
                    seen.add(sig)
                    fails.append(Failure("oracle", prop, sig,
                                         f"{dt} array, {k} overlapping pairs between two frames, iou enabled with recomputation: "
                                         f"edge {e_} stores {got}, the masks overlap {v}",
                                         {"narrow_dtype_case": {"dtype": dt, "labels": labs, "seg": seg.tolist()}}))
    return fails


def imported_flag_cases(prop: str, rng: random.Random, n: int, res: Result) -> list[Failure]:
    import warnings as _w

    import pandas as pd
    from funtracks.import_export import CSVTracksBuilder
    fails: list[Failure] = []
    seen: set = set()
    for _ in range(n):
        spec = G.gen_case(rng, cfg="seg", with_ids=True, ndim=3)
        for k_ in ("rename", "prebuilt", "prebuilt_no_lineage", "via", "seg_layout", "orphan_labels"):
            spec.pop(k_, None)
        spec["enable"] = []
        if spec.get("scale") not in (None, [1.0] * 3) or not spec["nodes"]:
            continue
        case = F.Case(spec)
        seg = np.array(spec["seg"], dtype=np.dtype(spec.get("seg_dtype", "int64"))).reshape(case.shape)
        par = {e["v"]: e["u"] for e in spec["edges"]}
        rows = []
        for x in spec["nodes"]:
            where = np.argwhere(seg[x["time"]] == x["id"])
            if not len(where):
                rows = []
                break
            rows.append({"time": x["time"], "id": x["id"], "parent_id": par.get(x["id"], -1), "seg_id": x["id"],
                         "y": float(where[:, 0].mean()), "x": float(where[:, 1].mean())})
        if not rows:
            continue
        df = pd.DataFrame(rows)
        keys = rng.sample([F.K_AREA, F.K_CIRC, F.K_PERIM, F.K_ELL], rng.randint(1, 3))
        style = rng.choice(["bool", "int", "numpy", "numpy"])
        true_ = {"bool": True, "int": 1, "numpy": np.array([True])[0]}[style]
        flags = {F.NAME[k]: true_ for k in keys}
        eflags = {"iou": true_} if (prop == "C09" or rng.random() < 0.4) else None
        desc = {"imported": {"flags": {k: repr(v) for k, v in flags.items()}, "edge_flags": None if eflags is None else {"iou": repr(true_)},
                             "spec": {k: spec[k] for k in ("ndim", "shape", "seg", "seg_dtype", "nodes", "edges")}}, "steps": []}

        def fail(sig, what):
            s_ = f"{prop}|imported|{sig}"
            if s_ not in seen:
                seen.add(s_)
                fails.append(Failure("oracle", prop, s_, f"imported with flags {desc['imported']['flags']} ({style}): {what}",
                                     {"imported_history": copy.deepcopy(desc)}))
        try:
            with _w.catch_warnings():
                _w.simplefilter("ignore")
                b = CSVTracksBuilder()
                b.prepare(df)
                t = b.build(df, seg.copy(), node_features=flags, edge_features=eflags)
        except Exception as e:  # noqa: BLE001
            res.count(f"imported:build-raised:{type(e).__name__}")
            continue
        res.count(f"imported-cases:{style}")

        def probs():
            out = rp_problems(case, t, [F.K_POS] + keys) if prop == "C08" else []
            if eflags is not None and prop in ("C08", "C09"):
                out = out + iou_problems(case, t)
            return out
        for p_ in probs():
            fail("after-import|" + p_.split(":")[0], p_)
        ses = Session.__new__(Session)
        ses.case, ses.tracks, ses.refresh, ses.payload = case, t, 0, None
        for _step in range(rng.randint(1, 3)):
            op = G.gen_op(rng, case, t, ["paint", "paint", "undo", "redo"])
            try:
                out = ses.apply(op)
            except Hang:
                break
            desc["steps"].append({k: v for k, v in op.items() if k != "groups"} | {"_out": out})
            res.evaluations += 1
            if out.startswith("err:other"):
                fail(f"{op['op']}|unexpected-exception", f"{op} raised {out}")
                break
            for p_ in probs():
                fail(f"{op['op']}|" + p_.split(":")[0], f"after {desc['steps'][-3:]}: {p_}")
        res.nontrivial.add(h([spec["nodes"], spec["edges"], sorted(flags), style]))
    return fails


# ---------------------------------------------------------------------------------------------
# C10 at the level of primitive actions: a disabled feature keeps its stored values through
# every primitive and its inverse — including the rare annotator branches (a node that is left
# without any pixel, a node added without pixels)
# ---------------------------------------------------------------------------------------------
def prim_frozen_cases(prop: str, rng: random.Random, n: int, res: Result) -> list[Failure]:
    from funtracks.actions import AddNode, UpdateNodeAttrs, UpdateNodeSeg
    fails: list[Failure] = []
    seen: set = set()
    for _ in range(n):
        spec = G.gen_case(rng, cfg="seg", with_ids=True)
        spec.pop("rename", None)   # (this sub-family addresses the features by their default names)
        try:
            ses = Session(spec)
        except Exception as e:
            res.count(f"session-aborted:{type(e).__name__}")
            continue
        case, t = ses.case, ses.tracks
        g = t.graph
        if not g.number_of_nodes():
            continue
        shape_ok = case.ndim == 3 and case.scale in (None, [1.0] * 3)
        pool = ["area"] + (["circularity", "perimeter", "ellipse_axis_radii"] if shape_ok else [])
        off = rng.sample(pool, rng.randint(1, len(pool)))
        try:
            t.enable_features([k for k in off if k != "area"] or ["area"])
            t.disable_features(off)
        except Exception as e:
            res.count(f"prim-frozen:setup-raised:{type(e).__name__}")
            continue
        frozen = {k: {x: canon_value(g.nodes[x].get(k)) for x in g.nodes} for k in off}
        desc: dict[str, Any] = {"disabled": off, "steps": []}
        last = None
        for _step in range(rng.randint(1, 4)):
            ns = list(g.nodes)
            if not ns:
                break
            kind = rng.choice(["erase-all", "erase-part", "grow", "addnode-bare", "inverse", "updattrs"])
            try:
                if kind in ("erase-all", "erase-part", "grow"):
                    x = rng.choice(ns)
                    own = case.pixels_of(t, x)
                    if kind == "grow":
                        free = G.free_pixels(case, t, g.nodes[x]["time"])
                        if not free:
                            continue
                        pl = rng.sample(free, rng.randint(1, min(3, len(free))))
                    elif not own:
                        continue
                    else:
                        pl = list(own) if kind == "erase-all" else rng.sample(own, rng.randint(1, len(own)))
                    desc["steps"].append([kind, x, pl])
                    last = UpdateNodeSeg(t, x, case.idx_tuple(pl), added=(kind == "grow"))
                elif kind == "addnode-bare":
                    nid = G.fresh_node_id(rng, t)
                    tm = rng.randrange(case.shape[0])
                    desc["steps"].append([kind, nid, tm])
                    last = AddNode(t, nid, {"time": tm, "track_id": t.get_next_track_id(), "pos": [1.0] * (case.ndim - 1)})
                elif kind == "inverse":
                    if last is None:
                        continue
                    desc["steps"].append([kind])
                    last = last.inverse()
                else:
                    x = rng.choice(ns)
                    desc["steps"].append([kind, x])
                    last = UpdateNodeAttrs(t, x, {"score": rng.randrange(100)})
            except Exception as e:
                res.count(f"prim-frozen:{kind}:raised:{type(e).__name__}")
                break
            res.evaluations += 1
            res.count(f"prim-frozen:{kind}")
            res.nontrivial.add(h([spec["nodes"], desc["steps"], off]))
            bad = None
            for k, vals in frozen.items():
                for x, v in list(vals.items()):
                    if x not in g:
                        vals.pop(x)
                        continue
                    now = canon_value(g.nodes[x].get(k))
                    if now != v:
                        bad = f"disabled {k} of node {x} changed {v} -> {now}"
                        break
                if bad:
                    break
            if bad:
                sig = f"{prop}|prim|{kind}|disabled-feature-changed"
                if sig not in seen:
                    seen.add(sig)
                    fails.append(Failure("oracle", prop, sig, f"primitive actions {desc['steps']} with {off} disabled: {bad}",
                                         {"spec": spec, "prim_frozen": copy.deepcopy(desc)}))
                break
    return fails


# ---------------------------------------------------------------------------------------------
# C08/C09 on plain `Tracks` (not a solution): any DAG, including MERGES (a node with several
# parents, also from one frame — candidate graphs look like this), edited through the primitive
# actions and their inverses, with the features switched off and on again in between
# ---------------------------------------------------------------------------------------------
def plain_tracks_cases(prop: str, rng: random.Random, n: int, res: Result) -> list[Failure]:
    from funtracks.actions import AddEdge, AddNode, DeleteEdge, DeleteNode, UpdateNodeSeg
    from funtracks.data_model import Tracks
    fails: list[Failure] = []
    seen: set = set()
    jobs: list = []   # correspondence with the model's primitive protocol (family SP)
    for _ in range(n):
        spec = G.gen_case(rng, cfg="seg", with_ids=False)
        spec.pop("prebuilt", None)
        if spec.get("id_base"):
            continue
        for x in spec["nodes"]:
            x.pop("score", None)
        for e in spec["edges"]:
            e.pop("w", None)
        # extra parents: merges, preferably with a second parent in the frame of the first
        tm = {x["id"]: x["time"] for x in spec["nodes"]}
        have = {(e["u"], e["v"]) for e in spec["edges"]}
        extra = []
        for v in list(tm):
            if rng.random() < 0.45:
                cands = [u for u in tm if tm[u] < tm[v] and (u, v) not in have]
                par = [u for (u, w) in have if w == v]
                same = [u for u in cands if par and tm[u] == tm[par[0]]]
                if same and rng.random() < 0.7:
                    cands = same
                if cands:
                    u = rng.choice(cands)
                    have.add((u, v))
                    spec["edges"].append({"u": u, "v": v})
                    extra.append([u, v])
        spec.pop("rename", None)   # a plain Tracks object built here: default feature names
        case = F.Case(spec)
        g = nx.DiGraph()
        for x in spec["nodes"]:
            g.add_node(x["id"], time=x["time"])
        g.add_edges_from((e["u"], e["v"]) for e in spec["edges"])
        seg = np.array(spec["seg"], dtype=np.dtype(spec.get("seg_dtype", "int64"))).reshape(case.shape)
        desc: dict[str, Any] = {"plain_tracks": {k: spec[k] for k in ("ndim", "shape", "seg", "scale", "seg_dtype", "nodes", "edges")},
                                "merge_edges": extra, "steps": []}
        try:
            t = Tracks(g, segmentation=seg, scale=case.scale, ndim=case.ndim)
            feats = ["iou"] if prop == "C09" else []
            if prop == "C08" and case.ndim == 3 and case.scale in (None, [1.0] * 3) and rng.random() < 0.4:
                feats += rng.sample(["ellipse_axis_radii", "circularity", "perimeter"], rng.randint(1, 2))
            if feats:
                t.enable_features(feats)
            desc["enabled"] = feats
            init_line = "SP" + case.init_line(t, plain=True)[1:]
        except Exception as e:
            res.count(f"plain:construct-raised:{type(e).__name__}")
            continue
        T = case.shape[0]
        last = None
        mlines: list[str] = [init_line]
        mstates: list[dict] = [F.impl_state(case, t, 0, None, plain=True)]

        def probs():
            return iou_problems(case, t) if prop == "C09" else rp_problems(case, t)

        def did(line: str):
            mlines.append(line)
            mstates.append(F.impl_state(case, t, 0, None, plain=True))

        steps = ["check"] + [rng.choice(["addedge", "addedge", "deledge", "grow", "shrink", "inverse", "off-on", "off-edit-on",
                                         "addnode", "delnode"]) for _ in range(rng.randint(3, 8))]
        for st in steps:
            gg = t.graph
            ns = list(gg.nodes)
            what: Any = st
            try:
                if st == "addedge":
                    pairs = [(u, v) for u in ns for v in ns if gg.nodes[u]["time"] < gg.nodes[v]["time"] and not gg.has_edge(u, v)]
                    if not pairs:
                        continue
                    e = rng.choice(pairs)
                    what = ["addedge", list(e)]
                    if prop == "C09" and case.iou_active(t) and rng.random() < 0.4:
                        # a stale value for the managed key in the optional `attributes=`
                        stale = float(rng.randrange(2, 9))
                        what.append({"iou": stale})
                        last = AddEdge(t, e, attributes={"iou": stale})
                        did(f"SP addedge {e[0]} {e[1]} " + " ".join(case.enc_attrs({F.K_IOU: int(stale)})))
                    else:
                        last = AddEdge(t, e)
                        did(f"SP addedge {e[0]} {e[1]} 0")
                elif st == "deledge":
                    if not gg.edges:
                        continue
                    e = rng.choice(list(gg.edges))
                    what = ["deledge", list(e)]
                    last = DeleteEdge(t, e)
                    did(f"SP deledge {e[0]} {e[1]}")
                elif st in ("grow", "shrink"):
                    if not ns:
                        continue
                    x = rng.choice(ns)
                    tmx = gg.nodes[x]["time"]
                    if st == "grow":
                        free = G.free_pixels(case, t, tmx)
                        if not free:
                            continue
                        pl = rng.sample(free, rng.randint(1, min(3, len(free))))
                    else:
                        own = case.pixels_of(t, x)
                        if len(own) < 2:
                            continue
                        pl = rng.sample(own, rng.randint(1, len(own) - 1))
                    what = [st, x, pl]
                    last = UpdateNodeSeg(t, x, case.idx_tuple(pl), added=(st == "grow"))
                    did(f"SP updseg {x} {len(pl)} " + " ".join(map(str, pl)) + f" {int(st == 'grow')}")
                elif st == "inverse":
                    if last is None:
                        continue
                    last = last.inverse()
                    did("SP inv")
                elif st in ("off-on", "off-edit-on"):
                    keys = ["iou"] if prop == "C09" else ["area"]
                    kk = F.K_IOU if prop == "C09" else F.K_AREA
                    t.disable_features(keys)
                    did(f"SP disable 1 {kk}")
                    if st == "off-edit-on" and ns:
                        # an edit while the feature is off: its stored values go stale and the bulk
                        # computation has to overwrite every one of them
                        x = rng.choice(ns)
                        own = case.pixels_of(t, x)
                        pl = None
                        if gg.edges and rng.random() < 0.6:
                            # take away EXACTLY the overlap with a neighbour: the true value drops to 0
                            u_, v_ = rng.choice(list(gg.edges))
                            fr = case.frame
                            ou = {p_ % fr for p_ in case.pixels_of(t, u_)}
                            ov = case.pixels_of(t, v_)
                            inter = [p_ for p_ in ov if p_ % fr in ou]
                            if inter and len(inter) < len(ov):
                                x, pl = v_, inter
                        if pl is None and len(own) >= 2:
                            pl = rng.sample(own, rng.randint(1, len(own) - 1))
                        if pl is not None:
                            UpdateNodeSeg(t, x, case.idx_tuple(pl), added=False)
                            did(f"SP updseg {x} {len(pl)} " + " ".join(map(str, pl)) + " 0")
                            what = [st, x, pl]
                    t.enable_features(keys)
                    did(f"SP enable 1 {kk} 1")
                    last = None
                elif st == "addnode":
                    tmx = rng.randrange(T)
                    free = G.free_pixels(case, t, tmx)
                    if not free:
                        continue
                    nid = G.fresh_node_id(rng, t)
                    pl = rng.sample(free, rng.randint(1, min(3, len(free))))
                    what = ["addnode", nid, tmx, pl]
                    last = AddNode(t, nid, {"time": tmx, "track_id": 1}, pixels=case.idx_tuple(pl))
                    did(f"SP addnode {nid} {tmx} 1 -1 0 {len(pl)} " + " ".join(map(str, pl)))
                elif st == "delnode":
                    iso = [x for x in ns if gg.degree(x) == 0]
                    if not iso:
                        continue
                    x = rng.choice(iso)
                    what = ["delnode", x]
                    DeleteNode(t, x)
                    did(f"SP delnode {x} -")
                    last = None  # on plain Tracks the track id is not a registered feature: no inverse
            except Exception as e:
                res.count(f"plain:{st}:raised:{type(e).__name__}")
                break
            desc["steps"].append(what)
            res.evaluations += 1
            res.count(f"plain:{st}")
            res.nontrivial.add(h([spec["nodes"], sorted(map(tuple, t.graph.edges)), str(what)]))
            bad = probs()
            if bad:
                merged = any(t.graph.in_degree(x) > 1 for x in t.graph.nodes)
                sig = f"{prop}|plain-tracks|{st}|{bad[0].split(':')[0]}" + ("|graph-with-merge" if merged else "")
                if sig not in seen:
                    seen.add(sig)
                    fails.append(Failure("oracle", prop, sig, f"plain Tracks, after {what}: {bad[0]}",
                                         {"plain_case": copy.deepcopy(desc)}))
                break
        if len(mlines) == len(mstates):
            jobs.append((spec, desc, mlines, mstates))
    # ---- the same primitive sequences through the model
    if jobs:
        try:
            out = Driver().run([l for _, _, ls, _ in jobs for l in ls])
        except Exception as e:
            res.notes.append(f"plain-Tracks correspondence: driver failed: {e}")
            out = None
        pos = 0
        dseen: set = set()
        for spec, desc, ls, states in (jobs if out is not None else []):
            seg_ = out[pos:pos + len(ls)]
            pos += len(ls)
            case = F.Case(spec)
            for i, (line, st_) in enumerate(zip(seg_, states)):
                head, mstate = F.parse_model_line(line)
                if mstate is None or head != "ok":
                    diffs = [("outcome", f"model answered {head!r} to {ls[i][:60]!r}; the real call succeeded")]
                else:
                    diffs = [d for d in F.compare(case, mstate, st_) if F.OWNER.get(d[0], "C01") in (prop, "C07", "C03")]
                res.compared_steps += 1
                if diffs:
                    sig = f"{prop}|plain-model-vs-code|{ls[i].split()[1]}"
                    if sig not in dseen:
                        dseen.add(sig)
                        fails.append(Failure("divergence", prop, sig,
                                             f"plain Tracks, step {i} ({ls[i][:80]}): " + "; ".join(d for _, d in diffs[:3]),
                                             {"plain_case": copy.deepcopy(desc), "model_lines": ls, "step": i}))
                    break
        res.count("plain-correspondence:cases", len(jobs))
    return fails


# ---------------------------------------------------------------------------------------------
# C04/C05 "after construction": construction through the importer, with id columns that are
# absent, valid, or not valid (placeholders / garbage must be recomputed, not trusted)
# ---------------------------------------------------------------------------------------------
def import_construction_cases(prop: str, rng: random.Random, n: int, res: Result) -> list[Failure]:
    import pandas as pd
    from funtracks.import_export import tracks_from_df
    fails: list[Failure] = []
    seen: set = set()
    for _ in range(n):
        nodes, edges = G.gen_forest(rng, 7, 4)
        if not nodes:
            continue
        if rng.random() < 0.35:
            edges = []  # unlinked detections / a single frame
        G.assign_ids(rng, nodes, edges)
        parent = {e["v"]: e["u"] for e in edges}
        styles = {c: rng.choice(["absent", "valid", "constant", "constant", "garbage"]) for c in ("track_id", "lineage_id")}
        rows = []
        for x in nodes:
            row = {"t": x["time"], "y": float(x["pos"]), "x": float(x["pos"]), "id": x["id"],
                   "parent_id": parent.get(x["id"], -1)}
            for c, key in (("track_id", "tid"), ("lineage_id", "lin")):
                st = styles[c]
                if st == "valid":
                    row[c] = x[key]
                elif st == "constant":
                    row[c] = 1
                elif st == "garbage":
                    row[c] = rng.randrange(1, 4)
            rows.append(row)
        nm = {"time": "t", "pos": ["y", "x"], "id": "id", "parent_id": "parent_id"}
        for c in ("track_id", "lineage_id"):
            if styles[c] != "absent":
                nm[c] = c
        desc = {"rows": rows, "name_map": nm, "styles": styles}
        try:
            tr = tracks_from_df(pd.DataFrame(rows), node_name_map=nm)
        except Exception as e:
            res.count(f"import-construct:raised:{type(e).__name__}")
            continue
        res.evaluations += 1
        res.count("import-construct:" + styles["track_id"] + "/" + styles["lineage_id"] + ("/no-edges" if not edges else ""))
        res.nontrivial.add(h(desc))
        g = tr.graph
        if prop == "C04":
            if styles["track_id"] not in ("absent", "valid"):
                # C04 speaks about construction from a graph WITHOUT ids; user-supplied ids are
                # kept whenever geff's validate_tracklets (third party) accepts them, and that
                # accepts a tracklet continuing from a dividing parent into one daughter
                continue
            lab = {n_: g.nodes[n_].get("track_id") for n_ in g.nodes}
            probs = partition_problems(g, segments(g), lab, "track id")
        else:
            lab = {n_: g.nodes[n_].get("lineage_id") for n_ in g.nodes}
            probs = partition_problems(g, list(nx.weakly_connected_components(g)), lab, "lineage id")
        for p_ in probs:
            sig = f"{prop}|construct-import|{styles['track_id' if prop == 'C04' else 'lineage_id']}-ids|{p_.split(':')[0]}"
            if sig not in seen:
                seen.add(sig)
                fails.append(Failure("oracle", prop, sig, f"tracks_from_df with id columns {styles}: {p_}", {"import_case": desc}))
    return fails

# ---------------------------------------------------------------------------------------------
# correspondence with the Lean model
# ---------------------------------------------------------------------------------------------
def model_lines(case: F.Case, init_line: str, ops: list[dict]) -> list[str]:
    return [init_line] + [encode_op(case, op) for op in ops]


def compare_session(prop: str, spec: dict, init_line: str, ops, outs, states, model_out: list[str],
                    res: Result) -> list[Failure]:
    """step-by-step comparison; stops at the first difference (the model no longer tracks the code)"""
    case = F.Case(spec)
    fails: list[Failure] = []
    for i, line in enumerate(model_out):
        head, mstate = F.parse_model_line(line)
        if mstate is None:
            fails.append(Failure("divergence", prop, f"{prop}|model-rejects-op", f"model answered {head} at step {i}",
                                 {"spec": spec, "ops": ops[:i], "step": i}))
            return fails
        if i == 0:
            exp_out = "ok"
        else:
            if i - 1 >= len(outs):
                break
            exp_out = outs[i - 1]
            if exp_out == "hang":
                break
        res.compared_steps += 1
        diffs = F.compare(case, mstate, states[i]) if i < len(states) else []
        if head != exp_out:
            diffs.insert(0, ("outcome" if (head.startswith("err") or exp_out.startswith("err")) else
                             ("query" if exp_out.startswith("nodes") or (i > 0 and ops[i - 1]["op"] in ("qhas",)) else "hist"),
                             f"outcome model {head!r} impl {exp_out!r}"))
        if diffs:
            owners = {F.OWNER.get(f, "C01") for f, _ in diffs}
            mine = [d for f, d in diffs if F.OWNER.get(f, "C01") == prop]
            # a refused call whose after-state differs belongs to C11 as well
            if exp_out.startswith("err") or head.startswith("err"):
                owners.add("C11")
                if prop == "C11":
                    mine = [d for _, d in diffs]
            res.count("divergence-owned-by:" + ",".join(sorted(owners)))
            if mine:
                fails.append(Failure(
                    "divergence", prop, f"{prop}|model-vs-code|{ops[i-1]['op'] if i else 'init'}",
                    f"step {i} ({ops[i-1] if i else 'init'}): " + "; ".join(mine[:3]),
                    {"spec": spec, "ops": ops[:i], "step": i, "model_line": line[:600],
                     "all_diffs": [d for _, d in diffs][:8]}))
            return fails
    return fails



# ---------------------------------------------------------------------------------------------
# small-scope exhaustion (thorough tier, model validation): every forest with <= 4 nodes over
# 3 frames x every user action x every argument tuple, one operation per session
# ---------------------------------------------------------------------------------------------
def all_forests(maxn: int = 4, frames: int = 3):
    import itertools
    for k in range(0, maxn + 1):
        for times in itertools.product(range(frames), repeat=k):
            # parent choice per node: -1 or an earlier node
            choices = []
            for i in range(k):
                choices.append([-1] + [j for j in range(k) if times[j] < times[i]])
            for par in itertools.product(*choices):
                out = [0] * k
                ok = True
                for i, p_ in enumerate(par):
                    if p_ >= 0:
                        out[p_] += 1
                        if out[p_] > 2:
                            ok = False
                            break
                if not ok:
                    continue
                nodes = [{"id": i + 1, "time": times[i], "pos": i + 1} for i in range(k)]
                edges = [{"u": p_ + 1, "v": i + 1} for i, p_ in enumerate(par) if p_ >= 0]
                yield nodes, edges


def all_ops(nodes: list[dict], frames: int = 3) -> list[dict]:
    ids = [n["id"] for n in nodes]
    tids = sorted({n["tid"] for n in nodes})
    ops: list[dict] = []
    for u in ids:
        for v in ids:
            if u != v:
                for f in (0, 1):
                    ops.append({"op": "addedge", "u": u, "v": v, "force": f})
                ops.append({"op": "deledge", "u": u, "v": v})
            if u < v:
                ops.append({"op": "swap", "a": u, "b": v})
    for n in ids:
        ops.append({"op": "delnode", "n": n})
    fresh = (max(tids) + 1) if tids else 1
    for t in range(frames):
        for tid in tids + [fresh]:
            for f in (0, 1):
                ops.append({"op": "addnode", "id": 9, "time": t, "tid": tid, "force": f, "pos": 9})
    ops.append({"op": "addnode", "id": 9, "time": 1, "tid": fresh, "force": 0, "pos": None})
    return ops


def exhaustive_cases() -> list[dict]:
    rng = random.Random(12345)
    cases = []
    for nodes, edges in all_forests():
        G.assign_ids(rng, nodes, edges)
        spec = {"cfg": "pos", "ndim": 3, "with_ids": True, "scale": None, "nodes": nodes, "edges": edges}
        for op in all_ops(nodes):
            cases.append({"spec": spec, "ops": [op]})
    return cases


# ---------------------------------------------------------------------------------------------
# shard worker and entry points
# ---------------------------------------------------------------------------------------------
def gen_spec_for(prop: str, rng: random.Random) -> dict:
    if prop == "C08" and rng.random() < 0.3:
        # labels without a node ("unselected detections"): they can be turned into nodes later by
        # adding the node WITHOUT pixels; the measurements must then come from the existing mask
        spec = G.gen_case(rng, cfg="seg")
        if not spec.get("id_base"):
            fr = int(np.prod(spec["shape"][1:]))
            used = {x["id"] for x in spec["nodes"]}
            for _ in range(rng.randint(1, 2)):
                lab = next(i for i in range(60, 200) if i not in used)
                used.add(lab)
                t = rng.randrange(spec["shape"][0])
                free = [t * fr + o for o in range(fr) if spec["seg"][t * fr + o] == 0]
                if free:
                    for p_ in rng.sample(free, min(len(free), rng.randint(1, 4))):
                        spec["seg"][p_] = lab
            spec["orphan_labels"] = True
        return spec
    if prop in SEG_ONLY:
        return G.gen_case(rng, cfg="seg")
    if prop == "C10":
        return G.gen_case(rng, cfg=rng.choice(["seg", "seg", "seg", "pos"]))
    if prop in ("C04", "C05", "C06"):
        return G.gen_case(rng, with_ids=rng.random() < 0.6)
    return G.gen_case(rng)


def worker(args) -> Result:
    prop, seed, nsessions, nops, fixed = args
    rng = random.Random(seed)
    res = Result()
    drv = Driver()
    vdrv = Driver(VALID_DRIVER) if VALID_DRIVER.exists() else None
    batch_lines: list[str] = []
    batch_meta: list = []
    oracle_sigs: set = set()

    def flush():
        if not batch_lines:
            return
        outl = drv.run(batch_lines)
        vout = vdrv.run(batch_lines) if vdrv is not None else None
        pos = 0
        for spec, init_line, ops, outs, states, n in batch_meta:
            seg = outl[pos:pos + n]
            if vout is not None:
                # hypotheses of the whole-history theorems, measured on the model state after every
                # step: `Inv` (8 clauses, sound checker R4A.invB) and each operation's `OpPre`
                # (R4A.opOKB). A session is "in scope" of C02_session_valid / C03_reach from an
                # Inv start state for as long as every operation satisfies its precondition.
                names = ["valid", "keys", "edgeReg", "edgeIou", "nodeReg", "nodeVal", "segOK", "misc"]
                in_scope = None
                for j, vl in enumerate(vout[pos:pos + n]):
                    parts = dict(x.split("=", 1) for x in vl.split()[1:] if "=" in x)
                    bits_ = parts.get("I", "")
                    ok_all = bits_ != "" and set(bits_) == {"1"}
                    if " V=1" in vl:
                        res.count("hyp:Valid:true")
                    elif parts.get("linOn") == "0":
                        res.count("hyp:Valid:n/a(lineage off)")
                    else:
                        res.count("hyp:Valid:false")
                    if j == 0:
                        in_scope = ok_all
                        if not ok_all:
                            bad = ",".join(nm for nm, b in zip(names, bits_) if b == "0")
                            res.count("hyp:session-out-of-scope:start-state-lacks:" + bad)
                        continue
                    if not in_scope:
                        continue
                    if parts.get("P") != "1":
                        in_scope = False
                        res.count("hyp:session-leaves-scope-at:" + ops[j - 1]["op"] + (":not-an-Op" if parts.get("P") == "-" else ":OpPre-false"))
                        continue
                    if ok_all:
                        res.count("hyp:Inv:in-scope-state:true")
                    else:
                        bad = ",".join(nm for nm, b in zip(names, bits_) if b == "0")
                        res.count("hyp:Inv:in-scope-state:FALSE:" + bad)
                        in_scope = False
                        if len(res.notes) < 5:
                            res.notes.append(f"Inv checker false ({bad}) at step {j} of an in-scope session: "
                                             + json.dumps({'spec': spec, 'ops': ops[:j]})[:700])
            pos += n
            for f in compare_session(prop, spec, init_line, ops, outs, states, seg, res):
                if len([x for x in res.failures if x.kind == "divergence"]) < 5:
                    res.failures.append(f)
        batch_lines.clear()
        batch_meta.clear()

    cases = fixed if fixed is not None else [None] * nsessions
    for fx in cases:
        if fx is not None:
            spec, fops = fx["spec"], fx["ops"]
        else:
            spec, fops = gen_spec_for(prop, rng), None
        try:
            ses_rng = random.Random(rng.getrandbits(64))
            ops, outs, states, fails = run_session(prop, spec, ses_rng, nops, res, fixed_ops=copy.deepcopy(fops))
        except Exception as e:  # construction of an initial state failed: a tooling limit, say so
            res.count(f"session-aborted:{type(e).__name__}")
            res.notes.append(f"session aborted: {type(e).__name__}: {str(e)[:200]}")
            continue
        res.count(f"cfg:{spec['cfg']}{spec.get('ndim', 3) - 1}d" + ("" if spec.get("with_ids", True) else ":assign")
                  + (":prebuilt-featuredict" if spec.get("prebuilt") else ""))
        res.count("nodes:" + str(len(spec["nodes"])))
        for f in fails:
            if f.signature not in oracle_sigs:
                oracle_sigs.add(f.signature)
                res.failures.append(f)
        if len(res.samples) < 3 and ops:
            res.samples.append({"spec": {k: spec[k] for k in ("cfg", "ndim", "nodes", "edges") if k in spec},
                                "ops": [{k: v for k, v in o.items() if k != "groups"} for o in ops[:8]], "outcomes": outs[:8]})
        case = F.Case(spec)
        try:
            init_line = case.init_line(Session(spec).tracks)
        except Exception as e:
            res.notes.append(f"init encoding failed: {e}")
            continue
        cut = next((i for i, o in enumerate(ops) if o.get("_nomodel")), None)
        if cut is not None:
            ops, outs, states = ops[:cut], outs[:cut], states[:cut + 1]
        lines = model_lines(case, init_line, ops)
        lines2 = lines
        batch_lines.extend(lines2)
        batch_meta.append((spec, init_line, ops, outs, states, len(lines2)))
        if len(batch_lines) > 4000:
            flush()
    flush()

    def guarded_family(name: str, fn, *a):
        """an exception that escapes a sub-family comes from the code under test in a place the
        sub-family does not expect one: reported (with the traceback) rather than crashing the check"""
        try:
            for f_ in fn(*a):
                res.failures.append(f_)
        except Hang:
            res.failures.append(Failure("hang", prop, f"{prop}|{name}|hang", f"a call inside {name} did not return", {}))
        except Exception as e:  # noqa: BLE001
            import traceback as _tb
            res.failures.append(Failure("oracle", prop, f"{prop}|{name}|unexpected-exception|{type(e).__name__}",
                                        f"{name}: {type(e).__name__}: {str(e)[:200]}",
                                        {"traceback": _tb.format_exc()[-1500:]}))

    if prop in ("C04", "C05") and fixed is None:
        for f in import_construction_cases(prop, random.Random(seed ^ 0xC0DE), max(10, nsessions // 2), res):
            res.failures.append(f)
    if prop in ("C08", "C09") and fixed is None:
        guarded_family("plain-tracks", plain_tracks_cases, prop, random.Random(seed ^ 0x91A1), max(10, nsessions // 3), res)
        guarded_family("imported", imported_flag_cases, prop, random.Random(seed ^ 0x1AF0), max(8, nsessions // 6), res)
    if prop == "C08" and fixed is None:
        guarded_family("large-mask", large_mask_cases, prop, random.Random(seed ^ 0xB16), 1, res)
    if prop in ("C09", "C10") and fixed is None:
        guarded_family("narrow-dtype-iou", narrow_dtype_iou_cases, prop, random.Random(seed ^ 0x8B17), 12, res)
    if prop in ("C01", "C02", "C03", "C04", "C05", "C06", "C07", "C08", "C09", "C11", "C20") and fixed is None:
        guarded_family("controller", controller_sessions, prop, random.Random(seed ^ 0xC7A1), max(6, nsessions // 8), res)
    if prop == "C20" and fixed is None:
        guarded_family("listeners", reentrant_refresh_cases, prop, random.Random(seed ^ 0x2E), max(10, nsessions // 4), res)
    if prop in ("C10", "C04", "C05", "C06") and fixed is None:
        # construction itself (registered / activated / computed features, special keys, bookkeeping):
        # the Lean model of Tracks.__init__ / SolutionTracks.__init__ / from_tracks / enable_features
        # (FtModel/Construct.lean, family CT) against the real constructors, plus oracles
        from .construct_corr import construct_cases
        guarded_family("construct", construct_cases, prop, random.Random(seed ^ 0xC057), max(20, nsessions // 3), res)
    if prop == "C10" and fixed is None:
        guarded_family("prim-frozen", prim_frozen_cases, prop, random.Random(seed ^ 0xF0E), max(20, nsessions // 2), res)
    if prop == "C01" and fixed is None:
        for f in prim_cases(prop, random.Random(seed ^ 0x5EED), max(20, nsessions), res):
            res.failures.append(f)
    return res


BUDGET = {  # (sessions, ops per session) per tier
    "quick": {"default": (2400, 12), "C01": (1600, 10), "C02": (2000, 14), "C07": (1600, 10), "C08": (1200, 10), "C09": (1600, 10), "C10": (1600, 12)},
    "thorough": {"default": (90000, 14), "C01": (50000, 12), "C02": (60000, 16), "C07": (50000, 12), "C08": (30000, 12), "C09": (50000, 12), "C10": (50000, 14)},
}

RULES = {
    "default": ("random valid forests of 0-8 nodes over 5 frames (divisions, skip edges, isolated nodes, non-contiguous "
                "node/track ids; with/without label array 2D+t 5x5 / 3D+t 3x3x3; single-key or per-axis positions), then "
                "operations chosen against the live state. evaluations = operations executed on the real code; "
                "distinct_nontrivial = distinct (canonical pre-state, operation) pairs where the operation was accepted "
                "and is an edit, or was refused by a validation other than 'unknown node'."),
}


def load_corpus(prop: str) -> list[dict]:
    from .common import VERIF
    out = []
    d = VERIF / "corpus"
    for p in sorted(d.glob(f"{prop}-*.json")) + sorted(d.glob("session-*.json")):
        try:
            out.append(json.loads(p.read_text()))
        except Exception:
            pass
    return out


def run(prop: str, tier: str, seed: int, intensify: bool = False) -> Result:
    nses, nops = BUDGET[tier].get(prop, BUDGET[tier]["default"])
    if intensify:
        nses *= 3
    shards = ncores()
    seeds = shard_seeds(seed * 1000 + int(prop[1:]), shards)
    per = max(1, nses // shards)
    jobs = [(prop, s, per, nops, None) for s in seeds]
    corpus = load_corpus(prop)
    if corpus:
        jobs.insert(0, (prop, seeds[0], 0, nops, corpus))
    if prop == "C02":
        import itertools
        maxlen = 5 if tier == "quick" else 7
        seqs = [list(q) for L in range(1, maxlen + 1) for q in itertools.product("abur", repeat=L)]
        chunk = (len(seqs) + shards - 1) // shards
        for i in range(0, len(seqs), chunk):
            jobs.append((prop, seeds[0], 0, nops,
                         [{"spec": EXH_SPEC, "ops": [{"sym": c} for c in q]} for q in seqs[i:i + chunk]]))
    if prop == "C02":
        # one LONG history: more than a thousand cheap edits, undone to the very first state and
        # redone — "never forgetting" has no length limit
        n_long = 1040 if tier == "quick" else 2600
        long_ops = ([{"op": "updattrs", "n": 1 + (i % 3), "attrs": {str(F.K_SCORE): i % 97}} for i in range(n_long)]
                    + [{"op": "undo"}] * (n_long + 3) + [{"op": "redo"}] * 25)
        long_spec = {"cfg": "pos", "ndim": 3, "with_ids": True, "scale": None,
                     "nodes": [{"id": 1, "time": 0, "pos": 1, "tid": 1, "lin": 1}, {"id": 2, "time": 1, "pos": 2, "tid": 1, "lin": 1},
                               {"id": 3, "time": 2, "pos": 3, "tid": 1, "lin": 1}],
                     "edges": [{"u": 1, "v": 2}, {"u": 2, "v": 3}]}
        jobs.append((prop, seeds[0], 0, nops, [{"spec": long_spec, "ops": long_ops}]))
    exh = 0
    if tier == "thorough" and prop in ("C01", "C03", "C04", "C05", "C06", "C11", "C20") and not intensify:
        cases = exhaustive_cases()
        exh = len(cases)
        random.Random(seed).shuffle(cases)
        chunk = (len(cases) + shards - 1) // shards
        for i in range(0, len(cases), chunk):
            jobs.append((prop, seeds[0], 0, nops, cases[i:i + chunk]))
    res = Result(rule=RULES["default"])
    if exh:
        res.rule += (f" PLUS small-scope exhaustion: every forest with <= 4 nodes over 3 frames x every user action x "
                     f"every argument tuple ({exh} single-operation sessions).")
    if prop == "C02":
        res.rule += (f" PLUS exhaustively all {len(seqs)} sequences over {{edit_a, edit_b, undo, redo}} up to length "
                     f"{maxlen} from a fixed 5-node forest (edit_a/edit_b are composite forced edits that nest user actions).")
    with mp.get_context("fork").Pool(min(shards, len(jobs))) as pool:
        for r in pool.imap_unordered(worker, jobs):
            res.merge(r)
    # a change that makes the CONSTRUCTION of the objects under test fail would otherwise pass every
    # check vacuously (each session "aborted", nothing evaluated)
    aborted = sum(v for k, v in res.distribution.items() if k.startswith("session-aborted:"))
    built = sum(v for k, v in res.distribution.items() if k.startswith("cfg:"))
    if aborted > max(8, 0.05 * (aborted + built)) or res.evaluations == 0:
        kinds_ = sorted(k.split(":", 1)[1] for k in res.distribution if k.startswith("session-aborted:"))
        res.failures.append(Failure("oracle", prop, f"{prop}|construction|objects-under-test-cannot-be-built",
                                    f"{aborted} of {aborted + built} initial states could not be constructed ({kinds_}); "
                                    f"first note: {(res.notes or ['-'])[0][:300]}", {"aborted": aborted, "built": built}))
    # minimise oracle failures (delta debugging over the operation list); at most ~3 minutes in total
    t_shr = time.time()
    for f in res.failures:
        if f.kind == "oracle" and "ops" in f.replay and time.time() - t_shr < 180:
            try:
                f.replay = shrink(prop, f)
            except Exception:
                pass
    return res


def reproduces(prop: str, spec: dict, ops: list[dict], signature: str) -> bool:
    res = Result()
    try:
        _, _, _, fails = run_session(prop, spec, random.Random(0), 0, res, fixed_ops=copy.deepcopy(ops))
    except Exception:
        return False
    return any(f.signature == signature for f in fails)


def shrink(prop: str, f: Failure) -> dict:
    spec, ops = f.replay["spec"], [o for o in f.replay["ops"] if not o.get("_probe")]
    ops = [{k: v for k, v in o.items() if k not in ("groups", "clear_history")} for o in ops]
    if not reproduces(prop, spec, ops, f.signature):
        return f.replay
    t0 = time.time()
    # long histories first in halves / quarters … (one-by-one removal of 2 000 operations, each
    # candidate a full session, would take an hour)
    chunk = len(ops) // 2
    while chunk >= 8 and time.time() - t0 < 20:
        i, progressed = 0, False
        while i + chunk < len(ops) and time.time() - t0 < 20:
            cand = ops[:i] + ops[i + chunk:]
            if reproduces(prop, spec, cand, f.signature):
                ops, progressed = cand, True
            else:
                i += chunk
        if not progressed:
            chunk //= 2
    changed = True
    while changed and time.time() - t0 < 20:
        changed = False
        for i in range(len(ops) - 1):  # keep the last (failing) op
            if time.time() - t0 >= 20:
                break
            cand = ops[:i] + ops[i + 1:]
            if reproduces(prop, spec, cand, f.signature):
                ops = cand
                changed = True
                break
    # drop nodes of the initial state
    changed = True
    while changed and time.time() - t0 < 40:
        changed = False
        for x in list(spec["nodes"]):
            if time.time() - t0 >= 40:
                break
            s2 = copy.deepcopy(spec)
            s2["nodes"] = [y for y in s2["nodes"] if y["id"] != x["id"]]
            s2["edges"] = [e for e in s2["edges"] if x["id"] not in (e["u"], e["v"])]
            if s2.get("seg"):
                s2["seg"] = [0 if v == x["id"] else v for v in s2["seg"]]
            if s2.get("with_ids", True):
                pass
            if reproduces(prop, s2, ops, f.signature):
                spec = s2
                changed = True
                break
    return {"spec": spec, "ops": ops, "note": "minimised by delta debugging; replay with ./check " + prop + " --replay <this file>"}


def replay(prop: str, obj: dict) -> int:
    rp = obj.get("replay", obj)
    if "spec" not in rp:
        print(json.dumps(obj, indent=1)[:3000])
        return 0
    spec, ops = rp["spec"], rp.get("ops", [])
    res = Result()
    ops2, outs, states, fails = run_session(prop, spec, random.Random(0), 0, res, fixed_ops=copy.deepcopy(ops))
    case = F.Case(spec)
    init_line = case.init_line(Session(spec).tracks)
    mo = Driver().run(model_lines(case, init_line, ops2))
    print("initial:", json.dumps({k: spec[k] for k in ("cfg", "nodes", "edges")}))
    for i, (op, out) in enumerate(zip(ops2, outs)):
        print(f"step {i + 1}: {op}\n   code : {out}\n   model: {mo[i + 1].split(' | ')[0]}")
    for f in fails:
        print("ORACLE:", f.signature, "--", f.what[:500])
    for f in compare_session(prop, spec, init_line, ops2, outs, states, mo, res):
        print("DIVERGENCE:", f.what[:500])
    return 1 if fails else 0
