#!/venv/bin/python
"""Verify a seeded change written by a sub-agent and, if it holds up, keep it under seeded/<id>/.

usage: ./tools_ingest_seed.py <dir with patch.diff demo.py notes.md> <PROPERTY> <id>

Checks, in a scratch worktree of /repo HEAD (removed afterwards):
  * the patch applies;  * the unedited test suite still passes with it (431 passed);
  * demo.py exits 0 on the unchanged tree and non-zero with the patch.
"""
from __future__ import annotations

import json
import re
import shutil
import subprocess
import sys
from pathlib import Path

V = Path(__file__).resolve().parent


def sh(cmd, **kw):
    return subprocess.run(cmd, capture_output=True, text=True, **kw)


def main() -> int:
    src, prop, sid = Path(sys.argv[1]), sys.argv[2], sys.argv[3]
    wt = Path(f"/tmp/ingest_{sid}")
    sh(["git", "-C", "/repo", "worktree", "remove", "--force", str(wt)])
    r = sh(["git", "-C", "/repo", "worktree", "add", "--detach", str(wt), "HEAD"])
    if r.returncode != 0:
        print(r.stderr)
        return 2
    try:
        env_clean = {"PYTHONPATH": "/repo/src", "PATH": "/usr/bin:/bin", "PYTHONWARNINGS": "ignore", "TQDM_DISABLE": "1"}
        env_mut = dict(env_clean, PYTHONPATH=f"{wt}/src")
        d0 = sh(["/venv/bin/python", str(src / "demo.py")], env=env_clean, cwd="/tmp")
        a = sh(["git", "-C", str(wt), "apply", str(src / "patch.diff")])
        if a.returncode != 0:
            print("patch does not apply:", a.stderr)
            return 1
        d1 = sh(["/venv/bin/python", str(src / "demo.py")], env=env_mut, cwd="/tmp")
        t = sh(["/venv/bin/python", "-m", "pytest", "-q", "-p", "no:cacheprovider", "-x", "tests"], env=env_mut, cwd=str(wt))
        tail = t.stdout.strip().splitlines()[-1] if t.stdout.strip() else t.stderr[-200:]
        m = re.search(r"(\d+) passed", tail)
        passed = int(m.group(1)) if m else 0
        failed = "failed" in tail or "error" in tail
        ok = d0.returncode == 0 and d1.returncode != 0 and passed == 431 and not failed
        print(f"demo without patch rc={d0.returncode}; with patch rc={d1.returncode}; suite: {tail}")
        if not ok:
            print("NOT KEPT")
            print(d0.stdout[-500:], d1.stdout[-500:])
            return 1
        out = V / "seeded" / sid
        out.mkdir(parents=True, exist_ok=True)
        shutil.copy(src / "patch.diff", out / "patch.diff")
        shutil.copy(src / "demo.py", out / "demo.py")
        notes = (src / "notes.md").read_text() if (src / "notes.md").exists() else ""
        (out / "notes.md").write_text(notes)
        (out / "meta.json").write_text(json.dumps({
            "id": sid, "property": prop,
            "origin": "written by an independent sub-agent that saw only the property text and a scratch worktree of /repo",
            "needs_to_manifest": notes[:1500],
            "verified": {
                "patch_applies_to_repo_HEAD": True,
                "suite_with_patch": tail,
                "demo_rc_without_patch": d0.returncode, "demo_rc_with_patch": d1.returncode,
                "demo_output_with_patch": d1.stdout[-600:],
                "commands": ["git -C <worktree> apply patch.diff",
                             "PYTHONPATH=<worktree>/src /venv/bin/python -m pytest -q -p no:cacheprovider -x tests",
                             "PYTHONPATH=<tree>/src /venv/bin/python demo.py"],
            }}, indent=1))
        print("KEPT as", out)
        return 0
    finally:
        sh(["git", "-C", "/repo", "worktree", "remove", "--force", str(wt)])


if __name__ == "__main__":
    sys.exit(main())
