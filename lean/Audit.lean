/-
  Audit: lists every theorem whose name starts with a property id (`C01_` … `C20_`)
  together with the axioms it depends on.  Output lines:  AUDIT <name> <ax1,ax2,...|->
  Run with `lake env lean Audit.lean` after `lake build`.
-/
import Lean
import FtProofs
open Lean Elab Command

private def isPropName (s : String) : Bool :=
  match s.toList with
  | 'C' :: d1 :: d2 :: '_' :: _ => d1.isDigit && d2.isDigit
  | _ => false

run_cmd do
  let env ← getEnv
  let mut names : Array Name := #[]
  for (n, ci) in env.constants.toList do
    match n with
    | .str .anonymous s =>
      if isPropName s then
        match ci with
        | .thmInfo _ => names := names.push n
        | _ => pure ()
    | _ => pure ()
  let sorted := names.qsort (fun a b => a.toString < b.toString)
  for n in sorted do
    let axs ← liftCoreM (collectAxioms n)
    let axs := axs.qsort (fun a b => a.toString < b.toString)
    let s := if axs.isEmpty then "-" else String.intercalate "," (axs.toList.map toString)
    logInfo m!"AUDIT {n} {s}"
