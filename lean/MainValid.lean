/-
  ftvalid — second driver: runs the same session protocol as ftdriver (family tag `S`) and, after
  every line, evaluates the *sound Boolean checkers of the theorem hypotheses* on the model state
  (`validB s = true → St.Valid s`, proved in FtProofs/R2BLemmas.lean). The harness uses it to
  measure that the states reached by real sessions satisfy the hypotheses the theorems assume.
  Output per line:  `<outcome> V=<0|1> linOn=<0|1>`.
-/
import FtModel
import FtProofs.R2BLemmas
open Ft

partial def loopV (hin hout : IO.FS.Stream) (s : St) : IO Unit := do
  let line ← hin.getLine
  if line.isEmpty then return ()
  match tokens line with
  | "S" :: rest =>
    let (s', out) := SessDrv.step s rest
    let head := (out.splitOn " | ").headD "bad-op"
    let v := if Ft.R2B.validB s' then "1" else "0"
    hout.putStrLn s!"{head} V={v} linOn={if s'.linOn then "1" else "0"}"
    loopV hin hout s'
  | _ =>
    hout.putStrLn "bad-op"
    loopV hin hout s

def main : IO Unit := do
  let hin ← IO.getStdin
  let hout ← IO.getStdout
  loopV hin hout {}
  hout.flush
