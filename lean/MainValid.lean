/-
  ftvalid — second driver: runs the same session protocol as ftdriver (family tag `S`) and, around
  every line, evaluates the *sound Boolean checkers of the theorem hypotheses* on the model state:
    V = `R2B.validB s'`      (sound for `St.Valid`,  FtProofs/R2BLemmas.lean)
    I = `R4A.invBits s'`     (eight clauses of the bundle invariant `R3D.Inv`; all 1 ⇒ `Inv s'`,
                              `R4A.invB_sound`), order: valid keys edgeReg edgeIou nodeReg nodeVal segOK misc
    P = `R4A.opOKB s op`     (the operation's argument precondition `R3D.OpPre` at the state where it
                              is applied; `-` for lines that are not an `Op`: init, reg, delnodepx)
  The harness uses it to measure that the states reached by real sessions satisfy what the
  whole-history theorems (`C02_session_valid`, `C03_reach`, `C01_user_all`) assume.
  Output per line:  `<outcome> V=<0|1> I=<8 bits> P=<0|1|-> linOn=<0|1>`.
-/
import FtModel
import FtProofs.R2BLemmas
import FtProofs.R4ALemmas
open Ft

def bits (l : List Bool) : String := String.join (l.map (fun b => if b then "1" else "0"))

partial def loopV (hin hout : IO.FS.Stream) (s : St) : IO Unit := do
  let line ← hin.getLine
  if line.isEmpty then return ()
  match tokens line with
  | "S" :: rest =>
    let p := match (SessDrv.opP.run rest) with
      | some (op, []) => if Ft.R4A.opOKB s op then "1" else "0"
      | _ => "-"
    let (s', out) := SessDrv.step s rest
    let head := (out.splitOn " | ").headD "bad-op"
    let v := if Ft.R2B.validB s' then "1" else "0"
    hout.putStrLn s!"{head} V={v} I={bits (Ft.R4A.invBits s')} P={p} linOn={if s'.linOn then "1" else "0"}"
    loopV hin hout s'
  | _ =>
    hout.putStrLn "bad-op"
    loopV hin hout s

def main : IO Unit := do
  let hin ← IO.getStdin
  let hout ← IO.getStdout
  loopV hin hout {}
  hout.flush
