/-
  ftdriver — line protocol front end of the executable model.
  One input line  ->  exactly one output line.  First token selects the model family.
  Unknown / malformed input is answered with `bad-op` (never defaulted).
-/
import FtModel
open Ft

structure DState where
  hist : HistDrv.St := {}
  sess : St := {}
  prim : St := {}                      -- state of the primitive-level protocol (`SP`)
  lastPrim : Option PrimRec := none    -- record of the last applied primitive (for `inv`)

def stepLine (d : DState) (line : String) : DState × String :=
  match tokens line with
  | "H" :: rest => let (h, out) := HistDrv.step d.hist rest; ({ d with hist := h }, out)
  | "S" :: rest => let (h, out) := SessDrv.step d.sess rest; ({ d with sess := h }, out)
  | "SP" :: rest =>
    let (s', l', out) := PrimDrv.step d.prim d.lastPrim rest
    ({ d with prim := s', lastPrim := l' }, out)
  | "SC" :: rest => let (h, out) := ControllerDrv.step d.sess rest; ({ d with sess := h }, out)
  | "IOU" :: rest => (d, IouDrv.handle rest)
  | "NM" :: rest => (d, NameMap.handle rest)
  | "CG" :: rest => (d, CandGraph.handle rest)
  | "LB" :: rest => (d, Labels.handle rest)
  | "IM" :: rest => (d, Import.handle rest)
  | "IMX" :: rest => (d, ImportExt.handle rest)
  | "IDV" :: rest => (d, IdValidate.handle rest)
  | "EX" :: rest => (d, Export.handle rest)
  | "EXD" :: rest => (d, ExportDisplay.handle rest)
  | "CT" :: rest => (d, ConstructDrv.handle rest)
  | _ => (d, "bad-op")

partial def loop (hin : IO.FS.Stream) (hout : IO.FS.Stream) (d : DState) : IO Unit := do
  let line ← hin.getLine
  if line.isEmpty then return ()
  let (d', out) := stepLine d line
  hout.putStrLn out
  if line.trimAscii.toString.endsWith "!" then hout.flush
  loop hin hout d'

def main : IO Unit := do
  let hin ← IO.getStdin
  let hout ← IO.getStdout
  loop hin hout {}
  hout.flush
