-- property theorems (one file per property) and their helper lemmas
import FtProofs.Props.C02
