-- property theorems (one file per property) and their helper lemmas
import FtProofs.Props.C02
import FtProofs.Props.C17
import FtProofs.CandGraphLemmas
import FtProofs.Props.C18
import FtProofs.SessionSpec
import FtProofs.BookLemmas
import FtProofs.Props.C06
