import FtModel.Basic
import FtModel.History
import FtModel.HistDrv
