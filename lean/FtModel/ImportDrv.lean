/-
  Driver of the import model (family tag `IM`, stateless).

  Tokens: strings hex-encoded ("-" = empty), naturals / integers decimal, lists `n x1 … xn`.
    val     := s <tok> | v <list tok>
    cells   := <list (col val)>
    entry   := <key> 0 <col> | <key> 1 <list col>          (a list-mapped entry must be non-empty)
    common  := <list spatialKey> <list entry> <list headerCol>
  input
    csv  <fixed|orig> common <intIds 0|1> <list row>       row := <idTok> <parentTok | ~> cells
    geff common <list node> <list edge>                    node := <int id> cells ; edge := <int> <int>
        (`~` = missing parent cell: NaN / None / pd.NA)
  output
    ok nodes <n> (id <k> (key val)*)* edges <m> (u v)*     nodes by id, attributes by hex key,
                                                           edges lexicographically
    err:<ErrKind>                                          the import is refused (ValueError)
    bad-op                                                 malformed input / outside the input
                                                           language (e.g. integer-dtype id column
                                                           with a non-integer token)
-/
import FtModel.Import
import FtModel.NameMapDrv
namespace Ft.Import
open Ft.NameMap (P pNat pStr pMany pList hex)

def pInt : P Int
  | t :: r => t.toInt?.map (fun n => (n, r))
  | [] => none

def pVal : P Val := fun ts =>
  match ts with
  | "s" :: r => (pStr r).map (fun x => (Val.sc x.1, x.2))
  | "v" :: r => (pList pStr r).map (fun x => (Val.vec x.1, x.2))
  | _ => none

def pCell : P (String × Val) := fun ts => do
  let (c, r) ← pStr ts
  let (v, r) ← pVal r
  pure ((c, v), r)

def pEntry : P (String × Src) := fun ts => do
  let (k, r) ← pStr ts
  let (kind, r) ← pNat r
  match kind with
  | 0 => let (c, r) ← pStr r; pure ((k, Src.one c), r)
  | 1 =>
    let (cs, r) ← pList pStr r
    if cs.isEmpty then none else pure ((k, Src.many cs), r)
  | _ => none

def pParent : P (Option Tok)
  | "~" :: r => some (none, r)
  | ts => (pStr ts).map (fun x => (some x.1, x.2))

def pRow : P Row := fun ts => do
  let (i, r) ← pStr ts
  let (p, r) ← pParent r
  let (cs, r) ← pList pCell r
  pure (⟨i, p, cs⟩, r)

def pNode : P (Int × Attrs) := fun ts => do
  let (i, r) ← pInt ts
  let (cs, r) ← pList pCell r
  pure ((i, cs), r)

def pEdge : P (Int × Int) := fun ts => do
  let (u, r) ← pInt ts
  let (v, r) ← pInt r
  pure ((u, v), r)

def pCommon : P (List String × NameMap × List String) := fun ts => do
  let (sp, r) ← pList pStr ts
  let (nm, r) ← pList pEntry r
  let (hd, r) ← pList pStr r
  pure ((sp, nm, hd), r)

/-! ### canonical output -/

def insertBy {α} (le : α → α → Bool) (x : α) : List α → List α
  | [] => [x]
  | y :: ys => if le x y then x :: y :: ys else y :: insertBy le x ys

def sortBy {α} (le : α → α → Bool) (xs : List α) : List α := xs.foldr (insertBy le) []

def renderVal : Val → List String
  | .sc t => ["s", hex t]
  | .vec ts => ["v", toString ts.length] ++ ts.map hex

def renderAttrs (a : Attrs) : List String :=
  let es := sortBy (fun x y => x.1 ≤ y.1) (a.map (fun kv => (hex kv.1, renderVal kv.2)))
  toString es.length :: es.flatMap (fun e => e.1 :: e.2)

def edgeLe (a b : Int × Int) : Bool := a.1 < b.1 || (a.1 == b.1 && a.2 ≤ b.2)

def renderErr : ErrKind → String
  | .nmEmpty => "err:nmEmpty"
  | .missingRequired => "err:missingRequired"
  | .posMissing => "err:posMissing"
  | .posShort => "err:posShort"
  | .unknownColumn => "err:unknownColumn"
  | .spatialDims => "err:spatialDims"
  | .dupId => "err:dupId"
  | .unknownParent => "err:unknownParent"
  | .badInt => "err:badInt"
  | .dimsMismatch => "err:dimsMismatch"
  | .dupNode => "err:dupNode"
  | .edgeUnknown => "err:edgeUnknown"
  | .selfEdge => "err:selfEdge"
  | .repeatedEdge => "err:repeatedEdge"

def render : Except ErrKind Graph → String
  | .error e => renderErr e
  | .ok g =>
    let ns := sortBy (fun x y => x.1 ≤ y.1) g.nodes
    let es := sortBy edgeLe g.edges
    joinSp (["ok", "nodes", toString ns.length] ++
      ns.flatMap (fun n => toString n.1 :: renderAttrs n.2) ++
      ["edges", toString es.length] ++ es.flatMap (fun e => [toString e.1, toString e.2]))

/-- every column of the header has a cell in every row (a DataFrame is rectangular) -/
def rectangular (header : List String) (cells : List Attrs) : Bool :=
  cells.all (fun a => header.all (fun c => (alook c a).isSome))

/-- integer-dtype id column: ids are integer tokens; parent cells integer tokens or the
    no-parent strings (anything else is outside the input language) -/
def intTokens (rows : List Row) : Bool :=
  rows.all (fun r => (tokInt r.id).isSome &&
    (match r.parent with
     | none => true
     | some p => (tokInt p).isSome || isNoParent p))

def handleCsv (orig : Bool) (ts : List String) : String :=
  let parsed : Option ((List String × NameMap × List String) × Nat × List Row) := do
    let (c, r) ← pCommon ts
    let (flag, r) ← pNat r
    let (rows, r) ← pList pRow r
    if r.isEmpty then pure (c, flag, rows) else none
  match parsed with
  | some ((sp, nm, hd), flag, rows) =>
    if flag > 1 then "bad-op"
    else if !rectangular hd (rows.map (·.cells)) then "bad-op"
    else if flag == 1 && !intTokens rows then "bad-op"
    else
      let t : Table := ⟨hd, flag == 1, rows⟩
      render (if orig then importTableOrig sp nm t else importTable sp nm t)
  | none => "bad-op"

def handleGeff (ts : List String) : String :=
  let parsed : Option ((List String × NameMap × List String) × List (Int × Attrs) × List (Int × Int)) := do
    let (c, r) ← pCommon ts
    let (nodes, r) ← pList pNode r
    let (edges, r) ← pList pEdge r
    if r.isEmpty then pure (c, nodes, edges) else none
  match parsed with
  | some ((sp, nm, hd), nodes, edges) => render (importGeff sp nm hd nodes edges)
  | none => "bad-op"

def handle : List String → String
  | "csv" :: "fixed" :: rest => handleCsv false rest
  | "csv" :: "orig" :: rest => handleCsv true rest
  | "geff" :: rest => handleGeff rest
  | _ => "bad-op"

end Ft.Import
