/-
  FtModel.Labels — executable model of the label utilities (properties C19 and C13).

  Representation.  A label array is a list of frames (`Arr := List Frame`), a frame is the
  FLAT list of its labels in C order (`Frame := List Nat`).  The spatial shape (2-D, 3-D) is
  irrelevant to every function modelled here: each of them acts pointwise on the pixels of one
  frame (masked assignment `a[t][mask] = v`, `+=` on a mask, `max` over the frame).  With
  `multiseg=True` the real code only reshapes `(h, t, …)` to `(h·t, …)` (C order) and back, i.e.
  the "frames" are the `(hypothesis, time)` pairs in row-major order; the harness sends exactly
  these `h·t` frames.  Labels are unbounded naturals (uint64 wrap-around is outside the property).

  Python ↔ Lean
  ┌───────────────────────────────────────────────────────────┬──────────────────────────────────┐
  │ utils/_segmentation_utils.py                              │                                  │
  │ ensure_unique_labels (AS REPAIRED by fixes/D8_…patch)     │ `ensureUnique` = `euGo 0`        │
  │   curr_max = 0                                            │ accumulator `c` of `euGo`        │
  │   frame[frame != 0] += curr_max                           │ `shiftFrame c f`                 │
  │   curr_max = max(curr_max, int(np.max(frame)))            │ `max c (frameMax f')`            │
  │   curr_max = int(np.max(frame))   (UNREPAIRED tree, D8)   │ `ensureUniqueOrig` = `euOrigGo 0`│
  │   multiseg reshape (-1, *shape[2:]) … reshape back        │ `ensureUniqueMulti` (flatten /   │
  │                                                           │  re-chunk by the frame count)    │
  │ relabel_segmentation_with_track_id                        │ `relabelByTrack`                 │
  │   out_degree(), parent_nodes (d > 1)                      │ `outdeg`, filter in `pruned`     │
  │   soln_copy.remove_edges_from(out_edges(parent))          │ `pruned`                         │
  │   nx.weakly_connected_components(soln_copy)               │ `classes` (class id per node, by │
  │     – components in order of their first node in the      │  merging along the kept edges),  │
  │       graph's node insertion order                        │  `compOrder` (= dedup, first     │
  │                                                           │  occurrence order), `compWrites` │
  │   id_counter = 1 … id_counter += 1 per component          │ counter argument of `compWrites` │
  │   solution.nodes[n]["time"], ["seg_id"]  (KeyError)       │ `SNode.time/seg : Option Nat`,   │
  │   segmentation[time]           (IndexError)               │  `solOK` ⇒ result `none`         │
  │   tracked_masks = zeros_like; tracked[t][seg[t]==s] = id  │ one `W` (write) per node;        │
  │                                                           │  `applyWrites` (see below)       │
  │ import_export/_import_segmentation.py relabel_segmentation│ `relabelSeg`                     │
  │   offset = 1 if 0 in node_ids else 0                      │ `offsetOf`                       │
  │   nx.relabel_nodes(graph, {n: n+offset}, copy=False)      │ `shiftGraph` (simultaneous map;  │
  │                                                           │  networkx is trusted, DESIGN §3) │
  │   for t in np.unique(time_values)                         │ `uniqTimes` (sorted, no repeats) │
  │   dict(zip(seg_ids_t, node_ids_t))                        │ `dictOf` (fold of `aset`: first  │
  │                                                           │  position, LAST value)           │
  │   new = zeros; new[t][computed_seg[t] == seg_id] = node_id│ `W`, `applyWrites`               │
  │ import_export/_tracks_builder.py handle_segmentation      │ `importSeg` (AS REPAIRED by      │
  │   (seg_id property present)                               │  fixes/D11_…patch: always calls  │
  │                                                           │  relabel_segmentation)           │
  │   np.array_equal(seg_ids, node_ids) → returned unchanged  │ first branch of `importSegOrig`  │
  │     (UNREPAIRED tree, D11)                                │                                  │
  └───────────────────────────────────────────────────────────┴──────────────────────────────────┘

  Masked assignment.  Both relabelling functions read every mask from the ORIGINAL array and
  write into an array of zeros.  A sequence of such assignments is the list of writes
  `W = (t, sid, v)` ("where original frame t equals sid, put v") in execution order; the pixel
  of frame `i` whose original label is `o` ends up with the value of the LAST write whose mask
  contains it, else 0: `pxWrite i o ws` is literally the left fold over the writes starting at 0.
  (A later write overwrites an earlier one when two nodes share (time, seg id); that is kept.)
  `relabelSegChained` is the in-place variant (mask read from the array being written, start
  value = original label); it exists only for the negative theorem `C13_chained_counterexample`.
-/
import FtModel.Basic
namespace Ft.Labels

abbrev Frame := List Nat
abbrev Arr := List Frame

/-- pixel `p` of frame `i` (none outside the array) -/
def px (a : Arr) (i p : Nat) : Option Nat := a[i]? >>= (·[p]?)

/-! ### ensure_unique_labels -/

/-- `int(np.max(frame))` (frames are non-empty in the real code; `[]` ↦ 0) -/
def frameMax (f : Frame) : Nat := f.foldl max 0

/-- `frame[frame != 0] += c` -/
def shiftFrame (c : Nat) (f : Frame) : Frame := f.map (fun x => if x ≠ 0 then x + c else x)

/-- the loop of the REPAIRED function; `c` is `curr_max` -/
def euGo (c : Nat) : Arr → Arr
  | [] => []
  | f :: fs => let f' := shiftFrame c f; f' :: euGo (max c (frameMax f')) fs

def ensureUnique (a : Arr) : Arr := euGo 0 a

/-- the loop of the UNREPAIRED function (defect D8): the maximum is replaced -/
def euOrigGo (c : Nat) : Arr → Arr
  | [] => []
  | f :: fs => let f' := shiftFrame c f; f' :: euOrigGo (frameMax f') fs

def ensureUniqueOrig (a : Arr) : Arr := euOrigGo 0 a

/-- cut a list into consecutive chunks of the given lengths -/
def chunk {α} : List Nat → List α → List (List α)
  | [], _ => []
  | n :: ns, xs => xs.take n :: chunk ns (xs.drop n)

/-- `multiseg=True`: hypotheses × frames, flattened in C order, processed, cut back -/
def ensureUniqueMulti (hs : List Arr) : List Arr :=
  chunk (hs.map List.length) (ensureUnique hs.flatten)

/-! ### masked assignment into zeros -/

/-- one masked assignment `out[t][orig[t] == sid] = v` -/
structure W where
  t : Nat
  sid : Nat
  v : Nat
deriving DecidableEq, Repr

/-- final value of a pixel of frame `i` whose ORIGINAL label is `o` -/
def pxWrite (i o : Nat) (ws : List W) : Nat :=
  ws.foldl (fun x w => if w.t = i ∧ o = w.sid then w.v else x) 0

def applyWrites (orig : Arr) (ws : List W) : Arr :=
  orig.mapIdx (fun i f => f.map (fun o => pxWrite i o ws))

/-- in-place ("chained") variant: the mask is read from the value being rewritten -/
def pxWriteChained (i o : Nat) (ws : List W) : Nat :=
  ws.foldl (fun x w => if w.t = i ∧ x = w.sid then w.v else x) o

def applyWritesChained (orig : Arr) (ws : List W) : Arr :=
  orig.mapIdx (fun i f => f.map (fun o => pxWriteChained i o ws))

/-! ### relabel_segmentation_with_track_id -/

structure SNode where
  id : Nat
  time : Option Nat
  seg : Option Nat
deriving DecidableEq, Repr

/-- solution graph: nodes and edges in networkx insertion order -/
structure Sol where
  nodes : List SNode
  edges : List (Nat × Nat)
deriving Repr

def Sol.ids (g : Sol) : List Nat := g.nodes.map (·.id)

def outdeg (es : List (Nat × Nat)) (u : Nat) : Nat := (es.filter (fun e => e.1 == u)).length

/-- edges left after removing every out-edge of a node with out-degree > 1 -/
def pruned (es : List (Nat × Nat)) : List (Nat × Nat) :=
  es.filter (fun e => decide (outdeg es e.1 ≤ 1))

/-- merge the class of `v` into the class of `u` -/
def mergeL (cl : List (Nat × Nat)) (e : Nat × Nat) : List (Nat × Nat) :=
  match alook e.1 cl, alook e.2 cl with
  | some ku, some kv => cl.map (fun p => (p.1, if p.2 = kv then ku else p.2))
  | _, _ => cl

/-- class id of every node: start with singletons, merge along every edge -/
def classes (ids : List Nat) (es : List (Nat × Nat)) : List (Nat × Nat) :=
  es.foldl mergeL (ids.map (fun n => (n, n)))

def classOf (cl : List (Nat × Nat)) (n : Nat) : Nat := (alook n cl).getD n

/-- first occurrences, in order -/
def dedup : List Nat → List Nat
  | [] => []
  | x :: xs => x :: (dedup xs).filter (· ≠ x)

/-- components in discovery order (order of their first node in node insertion order) -/
def compOrder (ids : List Nat) (cl : List (Nat × Nat)) : List Nat := dedup (ids.map (classOf cl))

def nodeW (c : Nat) (n : SNode) : W := ⟨n.time.getD 0, n.seg.getD 0, c⟩

/-- `for node_set in components: for node in node_set: write id_counter; id_counter += 1` -/
def compWrites (nodes : List SNode) (cl : List (Nat × Nat)) : List Nat → Nat → List W
  | [], _ => []
  | k :: ks, c =>
      (nodes.filter (fun n => classOf cl n.id == k)).map (nodeW c) ++ compWrites nodes cl ks (c + 1)

/-- every node has a time inside the array and a seg id (else KeyError / IndexError) -/
def solOK (T : Nat) (g : Sol) : Bool :=
  g.nodes.all (fun n => match n.time, n.seg with
    | some t, some _ => decide (t < T)
    | _, _ => false)

def trackWrites (g : Sol) : List W :=
  let cl := classes g.ids (pruned g.edges)
  compWrites g.nodes cl (compOrder g.ids cl) 1

def relabelByTrack (g : Sol) (orig : Arr) : Option Arr :=
  if solOK orig.length g then some (applyWrites orig (trackWrites g)) else none

/-! ### relabel_segmentation (import) -/

/-- one entry of the parallel arrays `node_ids, seg_ids, time_values` -/
structure Row where
  id : Nat
  seg : Nat
  time : Nat
deriving DecidableEq, Repr

def offsetOf (rows : List Row) : Nat := if rows.any (fun r => r.id == 0) then 1 else 0

/-- `np.unique(time_values)` -/
def uniqTimes (rows : List Row) : List Nat := dedup (sortNat (rows.map (·.time)))

/-- `dict(zip(seg_ids_t, node_ids_t))` -/
def dictOf (kvs : List (Nat × Nat)) : List (Nat × Nat) :=
  kvs.foldl (fun d kv => aset kv.1 kv.2 d) []

def rowsAt (off : Nat) (rows : List Row) (t : Nat) : List (Nat × Nat) :=
  (rows.filter (fun r => r.time == t)).map (fun r => (r.seg, r.id + off))

def segWrites (off : Nat) (rows : List Row) : List W :=
  (uniqTimes rows).flatMap (fun t => (dictOf (rowsAt off rows t)).map (fun kv => ⟨t, kv.1, kv.2⟩))

/-- graph as node list + edge list; `nx.relabel_nodes` with the shift map -/
structure G where
  nodes : List Nat
  edges : List (Nat × Nat)
deriving DecidableEq, Repr

def shiftGraph (off : Nat) (g : G) : G :=
  ⟨g.nodes.map (· + off), g.edges.map (fun e => (e.1 + off, e.2 + off))⟩

def rowsOK (T : Nat) (rows : List Row) : Bool := rows.all (fun r => decide (r.time < T))

def relabelSeg (orig : Arr) (g : G) (rows : List Row) : Option (Arr × G) :=
  let off := offsetOf rows
  if rowsOK orig.length rows then
    some (applyWrites orig (segWrites off rows), shiftGraph off g)
  else none

def relabelSegChained (orig : Arr) (g : G) (rows : List Row) : Option (Arr × G) :=
  let off := offsetOf rows
  if rowsOK orig.length rows then
    some (applyWritesChained orig (segWrites off rows), shiftGraph off g)
  else none

/-- `TracksBuilder.handle_segmentation` with a seg-id property, AS REPAIRED
    (fixes/D11_import_seg_skip_branch.patch): always relabels -/
def importSeg (orig : Arr) (g : G) (rows : List Row) : Option (Arr × G) :=
  relabelSeg orig g rows

/-- the UNREPAIRED caller (defect D11): relabelling is skipped when `np.array_equal(seg_ids,
    node_ids)`, which leaves labels that belong to no node in the array -/
def importSegOrig (orig : Arr) (g : G) (rows : List Row) : Option (Arr × G) :=
  if rows.all (fun r => r.seg == r.id) then some (orig, g) else relabelSeg orig g rows

/-! ### line protocol  (tag `LB`)

  array   :=  T  n₁ x… n₂ x… …           (T frames, each `n x₁ … xₙ`)
  LB eu  <array>                         → `ok <flat labels>`       ensure_unique_labels (repaired)
  LB euo <array>                         → `ok <flat labels>`       … as on the unrepaired tree
  LB eum H <array>₁ … <array>_H          → `ok <flat labels>`       multiseg=True
  LB bt  <array> N (id <opt time> <opt seg>)ᴺ E (u v)ᴱ   (<opt> := `0` missing | `1 x`)
                                         → `ok <flat labels>` | `err`
  LB rs  <array> N ids E (u v)ᴱ R (id seg time)ᴿ
  LB imp …same…  (handle_segmentation, repaired)   LB impo …same… (… as on the unrepaired tree)
                                         → `ok <flat labels> | N sorted ids | E sorted edges` | `err`
-/

def parseFrames : Nat → List Nat → Option (Arr × List Nat)
  | 0, rest => some ([], rest)
  | k + 1, n :: rest =>
      if rest.length < n then none else
      match parseFrames k (rest.drop n) with
      | some (fs, r) => some (rest.take n :: fs, r)
      | none => none
  | _ + 1, [] => none

def parseArr : List Nat → Option (Arr × List Nat)
  | t :: rest => parseFrames t rest
  | [] => none

def parseArrs : Nat → List Nat → Option (List Arr × List Nat)
  | 0, rest => some ([], rest)
  | k + 1, rest =>
      match parseArr rest with
      | some (a, r) => match parseArrs k r with
          | some (as, r') => some (a :: as, r')
          | none => none
      | none => none

def parsePairs : Nat → List Nat → Option (List (Nat × Nat) × List Nat)
  | 0, rest => some ([], rest)
  | k + 1, u :: v :: rest => match parsePairs k rest with
      | some (ps, r) => some ((u, v) :: ps, r)
      | none => none
  | _ + 1, _ => none

def parseRows : Nat → List Nat → Option (List Row × List Nat)
  | 0, rest => some ([], rest)
  | k + 1, i :: s :: t :: rest => match parseRows k rest with
      | some (rs, r) => some (⟨i, s, t⟩ :: rs, r)
      | none => none
  | _ + 1, _ => none

def flat (a : Arr) : String := natsToStr a.flatten

/-- optional attribute: `0` = missing, `1 x` = present -/
def parseOpt : List Nat → Option (Option Nat × List Nat)
  | 0 :: r => some (none, r)
  | 1 :: x :: r => some (some x, r)
  | _ => none

def parseSNodes : Nat → List Nat → Option (List SNode × List Nat)
  | 0, rest => some ([], rest)
  | k + 1, i :: rest =>
      match parseOpt rest with
      | some (t, r1) => match parseOpt r1 with
          | some (sg, r2) => match parseSNodes k r2 with
              | some (ns, r) => some (⟨i, t, sg⟩ :: ns, r)
              | none => none
          | none => none
      | none => none
  | _ + 1, [] => none

def parseTrackArgs (xs : List Nat) : Option (Arr × Sol) :=
  match parseArr xs with
  | some (a, n :: r1) => match parseSNodes n r1 with
      | some (ns, e :: r2) => match parsePairs e r2 with
          | some (es, []) => some (a, ⟨ns, es⟩)
          | _ => none
      | _ => none
  | _ => none

def pairLe (a b : Nat × Nat) : Bool := a.1 < b.1 || (a.1 == b.1 && a.2 ≤ b.2)

def insertPair (x : Nat × Nat) : List (Nat × Nat) → List (Nat × Nat)
  | [] => [x]
  | y :: ys => if pairLe x y then x :: y :: ys else y :: insertPair x ys

def sortPairs (xs : List (Nat × Nat)) : List (Nat × Nat) := xs.foldr insertPair []

def renderSegG : Option (Arr × G) → String
  | none => "err"
  | some (a, g) =>
      let ns := sortNat g.nodes
      let es := sortPairs g.edges
      joinSp (["ok", flat a, "|", toString ns.length, natsToStr ns, "|", toString es.length,
               natsToStr (es.flatMap (fun e => [e.1, e.2]))].filter (· ≠ ""))

def parseSegArgs (xs : List Nat) : Option (Arr × G × List Row) :=
  match parseArr xs with
  | some (a, n :: r1) =>
      if r1.length < n then none else
      match r1.drop n with
      | e :: r2 => match parsePairs e r2 with
          | some (es, k :: r3) => match parseRows k r3 with
              | some (rows, []) => some (a, ⟨r1.take n, es⟩, rows)
              | _ => none
          | _ => none
      | [] => none
  | _ => none

def okFlat (a : Arr) : String := joinSp (["ok", flat a].filter (· ≠ ""))

def handle : List String → String
  | "eu" :: rest => match parseNats rest >>= parseArr with
      | some (a, []) => okFlat (ensureUnique a)
      | _ => "bad-op"
  | "euo" :: rest => match parseNats rest >>= parseArr with
      | some (a, []) => okFlat (ensureUniqueOrig a)
      | _ => "bad-op"
  | "eum" :: rest => match parseNats rest with
      | some (h :: xs) => match parseArrs h xs with
          | some (hs, []) => okFlat (ensureUniqueMulti hs).flatten
          | _ => "bad-op"
      | _ => "bad-op"
  | "bt" :: rest => match parseNats rest >>= parseTrackArgs with
      | some (a, g) => match relabelByTrack g a with
          | some out => okFlat out
          | none => "err"
      | none => "bad-op"
  | "rs" :: rest => match parseNats rest >>= parseSegArgs with
      | some (a, g, rows) => renderSegG (relabelSeg a g rows)
      | none => "bad-op"
  | "imp" :: rest => match parseNats rest >>= parseSegArgs with
      | some (a, g, rows) => renderSegG (importSeg a g rows)
      | none => "bad-op"
  | "impo" :: rest => match parseNats rest >>= parseSegArgs with
      | some (a, g, rows) => renderSegG (importSegOrig a g rows)
      | none => "bad-op"
  | _ => "bad-op"

end Ft.Labels
