/-
  FtModel.ConstructDrv — line protocol of the construction model (family tag `CT`, stateless).

  Token grammar (tokens separated by single blanks; naturals in decimal; `str` = hex-encoded
  UTF-8 string, `-` = the empty string, as `harness.common.hexs`; `bool` = 0 | 1):
    optstr  := `0` | `1` str
    poskey  := `0` | `1` str | `2` K str*              (None | single key | list of keys)
    feat    := `T` | `P`n | `X` | `A`n | `E`n | `C`n | `R`n | `I` | `K` | `L` | `U`n
               Time | Position with n values | per-axis float feature | Area(ndim=n) |
               EllipsoidAxes(ndim=n) | Circularity(ndim=n) | Perimeter(ndim=n) | IoU |
               TrackletID | LineageID | any other descriptor (tag n chosen by the harness)
    val     := `n` | nat                               (Python None | an integer value)
    node    := id time hasMask NA (str val)*           attributes in dict order; the time attribute
                                                       is listed like every other attribute
    prebuilt:= `0` | `1` NF (str feat)* optstr poskey optstr optstr
                                                       features, time_key, position_key,
                                                       tracklet_key, lineage_key
    post    := `en` K str* bool                        tracks.enable_features(keys, recompute)
             | `ft`                                    tracks = SolutionTracks.from_tracks(tracks)
  Input line (after the tag `CT`):
    solution hasSeg ndim optstr(time_attr) poskey(pos_attr) optstr(tracklet_attr)
    optstr(lineage_attr) prebuilt NN node* NE (u v)* NP post*
  Answer:
    `ok <canon>`            every post-operation returned normally
    `keyerror j <canon>`    post-operation number j (0-based) raised KeyError; <canon> is the
                            object before it (later post-operations are not executed)
    `bad-op`                malformed input (also: repeated node id, repeated attribute key on a node,
                            repeated FeatureDict key, repeated edge, edge end that is no listed node)
  <canon> :=
    solution hasSeg ndim
    `reg` NR (str feat)*                                    FeatureDict items, dict order
    `keys` optstr(time_key) poskey(position_key) optstr(tracklet_key) optstr(lineage_key)
    `ann` NA annot*                                         registry order
        annot := `rp` str(pos_key) NT (str feat bool)*     all_features items, dict order
               | `edge` NT (str feat bool)*
               | `track` str(tracklet_key) str(lineage_key) NT (str feat bool)*
    `comp` NC (kind str)*                                   bulk computations, execution order;
                                                            kind := `rp` | `edge` | `track`
    `book` `-` | tsrc maxT NT (id K n1…nK)* lsrc maxL NL (id K n1…nK)*
                                                            src := `none` | `graph` | `computed`;
                                                            entries sorted by id, nodes ascending
    `nodes` NN (id optval(track id) optval(lineage id) NK str*)*
                                                            graph order; the two ids are read
                                                            under the TrackAnnotator's keys
                                                            (`-` `-` without one; optval := `-` | nat,
                                                            `-` = absent or None); attribute keys
                                                            present, sorted by their hex token

  Worked example (SolutionTracks, no array, ndim 3, default attrs, no FeatureDict, two nodes
  1 → 2 where only node 2 carries ids, no post-operations; "time" = 74696d65, "pos" = 706f73,
  "track_id" = 747261636b5f6964, "lineage_id" = 6c696e656167655f6964):
    CT 1 0 3 0 0 0 0 0 2 1 0 0 2 74696d65 0 706f73 5 2 1 0 4 74696d65 1 706f73 5 747261636b5f6964 7 6c696e656167655f6964 9 1 1 2 0
  answer:
    ok 1 0 3 reg 4 74696d65 T 706f73 P2 747261636b5f6964 K 6c696e656167655f6964 L keys 1 74696d65 1 706f73 1 747261636b5f6964 1 6c696e656167655f6964 ann 1 track 747261636b5f6964 6c696e656167655f6964 2 747261636b5f6964 K 1 6c696e656167655f6964 L 1 comp 2 track 747261636b5f6964 track 6c696e656167655f6964 book computed 1 1 1 2 1 2 computed 1 1 1 2 1 2 nodes 2 1 1 1 4 6c696e656167655f6964 706f73 74696d65 747261636b5f6964 2 1 1 4 6c696e656167655f6964 706f73 74696d65 747261636b5f6964
  (the FIRST node lacks the ids, so both are computed: one tracklet / lineage {1, 2} with id 1.)
-/
import FtModel.Construct
import FtModel.SessDrv
import FtModel.NameMapDrv
namespace Ft.ConstructDrv
open Ft Ft.Construct Ft.SessDrv

def str : P Name := do
  let t ← tok
  match NameMap.unhex t with
  | some s => pure s
  | none => failure

def flag : P Bool := do
  let n ← nat
  if n == 0 then pure false else if n == 1 then pure true else failure

def optStr : P (Option Name) := do
  let n ← nat
  if n == 0 then pure none
  else if n == 1 then do let s ← str; pure (some s)
  else failure

def posKey : P PosKey := do
  let n ← nat
  if n == 0 then pure PosKey.none
  else if n == 1 then do let s ← str; pure (PosKey.single s)
  else if n == 2 then do let ks ← listOf str; pure (PosKey.multi ks)
  else failure

def featOfTok (t : String) : Option Feat :=
  match t.toList with
  | ['T'] => some .time
  | ['X'] => some .axis
  | ['I'] => some .iou
  | ['K'] => some .tracklet
  | ['L'] => some .lineage
  | c :: r@(_ :: _) =>
    match (String.ofList r).toNat? with
    | none => none
    | some n =>
      if c == 'P' then some (.position n)
      else if c == 'A' then some (.area n)
      else if c == 'E' then some (.ellipse n)
      else if c == 'C' then some (.circ n)
      else if c == 'R' then some (.perim n)
      else if c == 'U' then some (.user n)
      else none
  | _ => none

def feat : P Feat := do
  let t ← tok
  match featOfTok t with
  | some f => pure f
  | none => failure

def valP : P (Option Nat) := do
  let t ← tok
  if t == "n" then pure none
  else match t.toNat? with
    | some v => pure (some v)
    | none => failure

def node : P CNode := do
  let id ← nat; let time ← nat; let hm ← flag
  let attrs ← listOf (do let k ← str; let v ← valP; pure (k, v))
  pure { id := id, time := time, hasMask := hm, attrs := attrs }

def prebuilt : P (Option Prebuilt) := do
  let n ← nat
  if n == 0 then pure none
  else if n == 1 then do
    let feats ← listOf (do let k ← str; let f ← feat; pure (k, f))
    let tk ← optStr; let pk ← posKey; let trk ← optStr; let lk ← optStr
    pure (some { feats := feats, timeKey := tk, posKey := pk, trackletKey := trk, lineageKey := lk })
  else failure

inductive Post where
  | en (keys : List Name) (rc : Bool)
  | ft

def post : P Post := do
  let t ← tok
  match t with
  | "en" => do let ks ← listOf str; let rc ← flag; pure (.en ks rc)
  | "ft" => pure .ft
  | _ => failure

def input : P (CInput × List Post) := do
  let sol ← flag; let seg ← flag; let ndim ← nat
  let ta ← optStr; let pa ← posKey; let tra ← optStr; let la ← optStr
  let pb ← prebuilt
  let nodes ← listOf node
  let edges ← listOf (do let u ← nat; let v ← nat; pure (u, v))
  let posts ← listOf post
  pure ({ solution := sol, hasSeg := seg, ndim := ndim, timeAttr := ta, posAttr := pa,
          trackletAttr := tra, lineageAttr := la, prebuilt := pb, nodes := nodes, edges := edges },
        posts)

/-! ### canonical output -/

def hx (s : Name) : String := NameMap.hex s

def b01 (b : Bool) : String := if b then "1" else "0"

def featTok : Feat → String
  | .time => "T"
  | .position n => "P" ++ toString n
  | .axis => "X"
  | .area n => "A" ++ toString n
  | .ellipse n => "E" ++ toString n
  | .circ n => "C" ++ toString n
  | .perim n => "R" ++ toString n
  | .iou => "I"
  | .tracklet => "K"
  | .lineage => "L"
  | .user n => "U" ++ toString n

def optStrOut : Option Name → List String
  | none => ["0"]
  | some s => ["1", hx s]

def posKeyOut : PosKey → List String
  | .none => ["0"]
  | .single k => ["1", hx k]
  | .multi ks => "2" :: toString ks.length :: ks.map hx

def tableOut (t : Table) : List String :=
  toString t.length :: t.flatMap (fun e => [hx e.1, featTok e.2.1, b01 e.2.2])

def kindTok : AKind → String
  | .rp => "rp"
  | .edge => "edge"
  | .track => "track"

def srcTok : BookSrc → String
  | .notBuilt => "none"
  | .fromGraph => "graph"
  | .computed => "computed"

/-- insertion sort of a lookup by id -/
def insBook (x : Nat × List Node) : List (Nat × List Node) → List (Nat × List Node)
  | [] => [x]
  | y :: ys => if x.1 ≤ y.1 then x :: y :: ys else y :: insBook x ys

def bookOut (m : List (Nat × List Node)) : List String :=
  let s := m.foldr insBook []
  toString s.length :: s.flatMap (fun e => toString e.1 :: toString e.2.length :: (sortNat e.2).map toString)

/-- insertion sort of strings (by `<` on `String`; hex tokens: bytewise order of the keys) -/
def insStr (x : String) : List String → List String
  | [] => [x]
  | y :: ys => if x ≤ y then x :: y :: ys else y :: insStr x ys

def sortStr (xs : List String) : List String := xs.foldr insStr []

def optValOut : Option Nat → String
  | none => "-"
  | some v => toString v

def canon (o : COut) : String :=
  let annots : List (List String) :=
    (match o.rp with | some r => [["rp", hx r.1] ++ tableOut r.2] | none => []) ++
    (match o.edge with | some t => [["edge"] ++ tableOut t] | none => []) ++
    (match o.track with | some a => [["track", hx a.tKey, hx a.lKey] ++ tableOut a.table] | none => [])
  let book : List String := match o.track with
    | none => ["-"]
    | some a => [srcTok a.tSrc, toString a.maxT] ++ bookOut a.t2n ++
                [srcTok a.lSrc, toString a.maxL] ++ bookOut a.l2n
  let nodeOut (n : CNode) : List String :=
    let ids := match o.track with
      | none => ["-", "-"]
      | some a => [optValOut (attrVal n a.tKey), optValOut (attrVal n a.lKey)]
    let ks := sortStr ((keysOf n.attrs).map hx)
    [toString n.id] ++ ids ++ [toString ks.length] ++ ks
  joinSp ([b01 o.solution, b01 o.hasSeg, toString o.ndim,
           "reg", toString o.reg.length] ++ o.reg.flatMap (fun e => [hx e.1, featTok e.2]) ++
          ["keys"] ++ optStrOut o.timeKey ++ posKeyOut o.posKey ++ optStrOut o.trackletKey ++
          optStrOut o.lineageKey ++
          ["ann", toString annots.length] ++ annots.flatten ++
          ["comp", toString o.computed.length] ++ o.computed.flatMap (fun e => [kindTok e.1, hx e.2]) ++
          ["book"] ++ book ++
          ["nodes", toString o.nodes.length] ++ o.nodes.flatMap nodeOut)

/-- run the post-operations; `Sum.inl (j, o)` = KeyError at index j with the object before it -/
def runPosts : List Post → Nat → COut → Sum (Nat × COut) COut
  | [], _, o => .inr o
  | p :: ps, j, o =>
    let r := match p with
      | .en ks rc => enable o ks rc
      | .ft => fromTracks o
    match r with
    | some o' => runPosts ps (j + 1) o'
    | none => .inl (j, o)

def nodupB {α} [BEq α] : List α → Bool
  | [] => true
  | x :: xs => !(xs.contains x) && nodupB xs

/-- the Python objects behind the input are dicts / a graph: node ids, the attribute keys of a
    node, the keys of the FeatureDict and the edges are pairwise distinct, edges join listed nodes -/
def wellFormed (i : CInput) : Bool :=
  let ids := i.nodes.map (·.id)
  nodupB ids && i.nodes.all (fun n => nodupB (keysOf n.attrs)) &&
  (match i.prebuilt with | some p => nodupB (keysOf p.feats) | none => true) &&
  nodupB i.edges && i.edges.all (fun e => ids.contains e.1 && ids.contains e.2)

def handle (toks : List String) : String :=
  match (input.run toks) with
  | some ((i, posts), []) =>
    if !wellFormed i then "bad-op" else
    match runPosts posts 0 (construct i) with
    | .inr o => "ok " ++ canon o
    | .inl (j, o) => "keyerror " ++ toString j ++ " " ++ canon o
  | _ => "bad-op"

end Ft.ConstructDrv
