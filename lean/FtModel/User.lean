/-
  FtModel.User — the seven composite user actions (src/funtracks/user_actions/*.py), as
  repaired by the `fix:` commits D1–D3 in /repo.

  A user action is `St → St × Except Err (List PrimRec)`: the state is returned *also on
  failure*, because the Python code can raise after sub-actions were applied (that is what
  property C11 is about; where the code rolls back, the model rolls back the same way).
  The returned list is the flattened record of applied primitives in execution order.

  Python                      | here
  ----------------------------+-------------------
  UserDeleteEdge              | `uDeleteEdge`
  UserAddEdge                 | `uAddEdge`
  UserAddNode                 | `uAddNode`
  UserDeleteNode              | `uDeleteNode`
  UserSwapPredecessors        | `uSwap`
  UserUpdateSegmentation      | `uUpdateSeg`
  UserUpdateNodeAttrs         | `uUpdateAttrs`
  ActionGroup._rollback       | `rollback`
-/
import FtModel.Prim
namespace Ft
namespace St

abbrev UOut := St × Except Err (List PrimRec)

/-- run a primitive inside a composite: append its record, or stop with its error
    (state unchanged by the failing primitive itself) -/
def thenPrim (acc : UOut) (f : St → Except Err (St × PrimRec)) : UOut :=
  match acc.2 with
  | .error e => (acc.1, .error e)
  | .ok recs =>
    match f acc.1 with
    | .ok (s', r) => (s', .ok (recs ++ [r]))
    | .error e => (acc.1, .error e)

/-- run a nested user action inside a composite -/
def thenUser (acc : UOut) (f : St → UOut) : UOut :=
  match acc.2 with
  | .error e => (acc.1, .error e)
  | .ok recs =>
    let r := f acc.1
    match r.2 with
    | .ok recs' => (r.1, .ok (recs ++ recs'))
    | .error e => (r.1, .error e)

/-- `ActionGroup._rollback`: invert the applied sub-actions in reverse, forget them -/
def rollback (s : St) (recs : List PrimRec) : St := (s.invGroup recs).1

def uDeleteEdge (s : St) (e : Edge) : UOut :=
  if !(s.hasEdge e) then (s, .error .invalid) else
  let a : UOut := thenPrim (s, .ok []) (fun st => st.pDelEdge e)
  let out := a.1.outdeg e.1
  if out == 0 then
    thenPrim a (fun st => st.pUpdTid e.2 st.nextTid (some st.nextLin))
  else if out == 1 then
    match (a.1.succs e.1).head? with
    | none => (a.1, .error .other)
    | some sib =>
      let a1 := thenPrim a (fun st => match st.tidOf e.1 with
        | some t => st.pUpdTid sib t none
        | none => .error .key)
      thenPrim a1 (fun st => match st.tidOf e.2 with
        | some t => st.pUpdTid e.2 t (some st.nextLin)
        | none => .error .key)
  else (a.1, .error .invalid)       -- raised after the DeleteEdge was applied

def uAddEdge (s : St) (e : Edge) (force : Bool) : UOut :=
  if !(s.hasNode e.1) then (s, .error .invalid) else
  if !(s.hasNode e.2) then (s, .error .invalid) else
  if (s.timeOf e.1).getD 0 ≥ (s.timeOf e.2).getD 0 then (s, .error .invalid) else
  let a0 : UOut :=
    if s.indeg e.2 > 0 then
      if !force then (s, .error .forceable)
      else match (s.preds e.2).head? with
        | some p => thenUser (s, .ok []) (fun st => st.uDeleteEdge (p, e.2))
        | none => (s, .error .other)
    else (s, .ok [])
  match a0.2 with
  | .error err => (a0.1, .error err)
  | .ok recs0 =>
    let s0 := a0.1
    let out := s0.outdeg e.1
    let a1 : UOut :=
      if out == 0 then
        thenPrim a0 (fun st => match st.tidOf e.1 with
          | some t => st.pUpdTid e.2 t (st.linOf e.1)
          | none => .error .key)
      else if out == 1 then
        match (s0.succs e.1).head? with
        | none => (s0, .error .other)
        | some succ =>
          let b := thenPrim a0 (fun st => st.pUpdTid succ st.nextTid none)
          thenPrim b (fun st => match st.tidOf e.2 with
            | some t => st.pUpdTid e.2 t (st.linOf e.1)
            | none => .error .key)
      else (s0.rollback recs0, .error .invalid)
    thenPrim a1 (fun st => st.pAddEdge e [])

structure AddNodeArgs where
  node : Node
  time : Option Nat          -- `none` = attribute missing
  tid : Option Nat
  lin : Option Nat           -- lineage given explicitly by the caller
  other : List (Key × Val)
  pixels : Option (List Pix)
  force : Bool

def uAddNode (s : St) (a : AddNodeArgs) : UOut :=
  match a.time, a.tid with
  | none, _ => (s, .error .invalid)
  | _, none => (s, .error .invalid)
  | some time, some tid0 =>
  if s.hasNode a.node then (s, .error .invalid) else
  let tid := if s.hasTrackAt tid0 time then s.nextTid else tid0
  let (sN, pred, succ) := s.trackNeighbors tid time
  -- division checks (with forced removals)
  let a0 : UOut :=
    match pred with
    | some p =>
      if sN.outdeg p == 2 then
        if !a.force then (sN, .error .forceable)
        else match sN.succs p with
          | [c1, c2] =>
            let b := thenUser (sN, .ok []) (fun st => st.uDeleteEdge (p, c1))
            thenUser b (fun st => st.uDeleteEdge (p, c2))
          | _ => (sN, .error .other)
      else
        -- `elif succ is not None` belongs to the *outer* if: only reached when the
        -- upstream-division test is false
        match succ with
        | some sc =>
          match (sN.preds sc).head? with
          | some pos =>
            if sN.outdeg pos == 2 then
              if !a.force then (sN, .error .forceable)
              else thenUser (sN, .ok []) (fun st => st.uDeleteEdge (pos, sc))
            else (sN, .ok [])
          | none => (sN, .ok [])
        | none => (sN, .ok [])
    | none =>
      match succ with
      | some sc =>
        match (sN.preds sc).head? with
        | some pos =>
          if sN.outdeg pos == 2 then
            if !a.force then (sN, .error .forceable)
            else thenUser (sN, .ok []) (fun st => st.uDeleteEdge (pos, sc))
          else (sN, .ok [])
        | none => (sN, .ok [])
      | none => (sN, .ok [])
  match a0.2 with
  | .error err => (a0.1, .error err)
  | .ok _ =>
    let s0 := a0.1
    -- lineage of the new node (only when the caller gave none)
    let lin : Option Nat :=
      match a.lin with
      | some l => some l
      | none =>
        match pred, succ with
        | some p, _ => s0.linOf p
        | none, some sc => s0.linOf sc
        | none, none => some s0.nextLin
    let a1 : UOut :=
      match pred, succ with
      | some p, some sc => thenPrim a0 (fun st => st.pDelEdge (p, sc))
      | _, _ => a0
    match a1.2 with
    | .error err => (a1.1, .error err)
    | .ok recs1 =>
      let rec_ : NodeRec := { id := a.node, time := time, tid := tid, lin := lin, other := a.other }
      match a1.1.pAddNode rec_ a.pixels with
      | .error err => (a1.1.rollback recs1, .error err)     -- try/except ValueError: rollback
      | .ok (s2, r) =>
        let a2 : UOut := (s2, .ok (recs1 ++ [r]))
        let a3 := match pred with
          | some p => thenPrim a2 (fun st => st.pAddEdge (p, a.node) [])
          | none => a2
        match succ with
        | some sc => thenPrim a3 (fun st => st.pAddEdge (a.node, sc) [])
        | none => a3

def uDeleteNode (s : St) (n : Node) (pixels : Option (List Pix)) : UOut :=
  if !(s.hasNode n) then (s, .error .key) else
  let hasPred := !(s.preds n).isEmpty
  -- predecessors loop
  let a0 : UOut := (s.preds n).foldl (fun acc p =>
      match acc.2 with
      | .error _ => acc
      | .ok _ =>
        let sibs := acc.1.succs p
        let acc1 := if sibs.length == 2 then
            match (sibs.erase n).head? with
            | some sib => thenPrim acc (fun st => match st.tidOf p with
                | some t => st.pUpdTid sib t none
                | none => .error .key)
            | none => acc
          else acc
        thenPrim acc1 (fun st => st.pDelEdge (p, n))) (s, .ok [])
  match a0.2 with
  | .error err => (a0.1, .error err)
  | .ok _ =>
    let orphans0 := a0.1.succs n
    let a1 : UOut := orphans0.foldl (fun acc c => thenPrim acc (fun st => st.pDelEdge (n, c))) a0
    match a1.2, a1.1.tidOf n, a1.1.timeOf n with
    | .error err, _, _ => (a1.1, .error err)
    | .ok _, some tid, some time =>
      let (sN, pred, succ) := a1.1.trackNeighbors tid time
      let a1' : UOut := (sN, a1.2)
      let (a2, orphans) : UOut × List Node :=
        match pred, succ with
        | some p, some sc => (thenPrim a1' (fun st => st.pAddEdge (p, sc) []), orphans0.erase sc)
        | _, _ => (a1', orphans0)
      let idx := List.zip (List.range orphans.length) orphans
      let a3 : UOut := idx.foldl (fun acc io =>
          if hasPred || io.1 > 0 then
            thenPrim acc (fun st => match st.tidOf io.2 with
              | some t => st.pUpdTid io.2 t (some st.nextLin)
              | none => .error .key)
          else acc) a2
      thenPrim a3 (fun st => st.pDelNode n pixels)
    | .ok _, _, _ => (a1.1, .error .key)

def uSwap (s : St) (n1 n2 : Node) : UOut :=
  if !(s.hasNode n1) || !(s.hasNode n2) then (s, .error .key) else
  let p1 := (s.preds n1).head?
  let p2 := (s.preds n2).head?
  if p1.isNone && p2.isNone then (s, .error .invalid) else
  if p1 == p2 then (s, .error .invalid) else
  let t1 := (s.timeOf n1).getD 0
  let t2 := (s.timeOf n2).getD 0
  let bad1 : Bool := match p1 with | some p => decide ((s.timeOf p).getD 0 ≥ t2) | none => false
  let bad2 : Bool := match p2 with | some p => decide ((s.timeOf p).getD 0 ≥ t1) | none => false
  if bad1 then (s, .error .invalid) else
  if bad2 then (s, .error .invalid) else
  let a0 : UOut := (s, .ok [])
  let a1 := match p1 with | some p => thenUser a0 (fun st => st.uDeleteEdge (p, n1)) | none => a0
  let a2 := match p2 with | some p => thenUser a1 (fun st => st.uDeleteEdge (p, n2)) | none => a1
  let a3 := match p1 with | some p => thenUser a2 (fun st => st.uAddEdge (p, n2) false) | none => a2
  match p2 with | some p => thenUser a3 (fun st => st.uAddEdge (p, n1) false) | none => a3

/-- `updated_pixels`: groups (pixels, previous label). The caller has already painted.
    Returns also the node to select (refresh payload). -/
def uUpdateSeg (s : St) (newValue : Nat) (groups : List (List Pix × Nat)) (curTid : Nat)
    (force : Bool) : UOut × Option Node :=
  match s.seg with
  | none => ((s, .error .value), none)
  | some _ =>
  let a0 : UOut := groups.foldl (fun acc grp =>
      match acc.2 with
      | .error _ => acc
      | .ok _ =>
        if grp.2 == 0 then acc else
        match acc.1.seg, grp.1.head? with
        | some g, some p0 =>
          let time := p0 / g.frame
          if (g.offsetsOf time grp.2).isEmpty then
            thenUser acc (fun st => st.uDeleteNode grp.2 (some grp.1))
          else thenPrim acc (fun st => st.pUpdSeg grp.2 grp.1 false)
        | _, _ => (acc.1, .error .other)) (s, .ok [])
  match a0.2 with
  | .error err => ((a0.1, .error err), none)
  | .ok recs0 =>
    if newValue != 0 && !groups.isEmpty then
      let allPix := groups.flatMap (·.1)
      match a0.1.seg, allPix.head? with
      | some g, some p0 =>
        let time := p0 / g.frame
        if a0.1.hasNode newValue then
          (thenPrim a0 (fun st => st.pUpdSeg newValue allPix true), none)
        else
          let r := a0.1.uAddNode { node := newValue, time := some time, tid := some curTid,
                                   lin := none, other := [], pixels := some allPix, force := force }
          match r.2 with
          | .ok recs' => ((r.1, .ok (recs0 ++ recs')), some newValue)
          | .error err => ((r.1.rollback recs0, .error err), none)   -- except: rollback; raise
      | _, _ => ((a0.1, .error .other), none)
    else (a0, none)

def uUpdateAttrs (s : St) (n : Node) (attrs : List (Key × Val)) : UOut :=
  thenPrim (s, .ok []) (fun st => st.pUpdAttrs n attrs)

end St
end Ft
