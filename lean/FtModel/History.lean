/-
  FtModel.History — model of `funtracks.actions.action_history.ActionHistory`
  (src/funtracks/actions/action_history.py), line by line, over an abstract action type.

  Python                                    | here
  ------------------------------------------+-------------------------------------------
  undo_stack, redo_stack                    | `Hist.undo`, `Hist.redo`
  _undo_pointer = |U| - |R| - 1             | `Hist.ptr` (as Int)
  add_new_action                            | `Hist.add`
  undo(): action.inverse() applied + pushed | `Hist.undoStep inv`
  redo(): pop, inverse applied, not saved   | `Hist.redoStep inv`

  `inv : σ → α → σ × α` stands for `action.inverse()`: it *applies* the opposite of the
  recorded action `a` to the current state and returns the record of what it did.
-/
import FtModel.Basic
namespace Ft

structure Hist (α : Type) where
  undo : List α := []
  redo : List α := []
deriving Repr

namespace Hist
variable {α σ : Type}

def ptr (h : Hist α) : Int := (h.undo.length : Int) - (h.redo.length : Int) - 1

def add (h : Hist α) (a : α) : Hist α :=
  if h.redo.length > 0 then
    { undo := (h.undo ++ h.redo) ++ [a], redo := [] }
  else
    { undo := h.undo ++ [a], redo := h.redo }

/-- `ActionHistory.undo`; returns (history', state', returned Bool). -/
def undoStep (inv : σ → α → σ × α) (h : Hist α) (s : σ) : Hist α × σ × Bool :=
  if h.ptr < 0 then (h, s, false)
  else
    match h.undo[h.ptr.toNat]? with
    | none => (h, s, false)      -- unreachable: 0 ≤ ptr < |U|
    | some a =>
      let r := inv s a
      ({ h with redo := h.redo ++ [r.2] }, r.1, true)

/-- `ActionHistory.redo`; pops the last redo entry, applies its inverse, does not record. -/
def redoStep (inv : σ → α → σ × α) (h : Hist α) (s : σ) : Hist α × σ × Bool :=
  match h.redo.getLast? with
  | none => (h, s, false)
  | some a =>
    let r := inv s a
    ({ h with redo := h.redo.dropLast }, r.1, true)

end Hist

/-! ### Specification: a never-forgetting linear timeline (list of visited states + cursor) -/

structure Timeline (σ : Type) where
  states : List σ
  cur : Nat
deriving Repr

namespace Timeline
variable {σ : Type}

/-- new edit producing state `s'`: keep the undone steps (appended in reverse), then `s'`.
    `[s0,s1,s2,s3]`, cursor 1, edit ↦ `[s0,s1,s2,s3,s2,s1,s']`, cursor 6. -/
def edit (t : Timeline σ) (s' : σ) : Timeline σ :=
  let back := ((t.states.drop t.cur).take (t.states.length - 1 - t.cur)).reverse
  let sts := t.states ++ back ++ [s']
  { states := sts, cur := sts.length - 1 }

def undo (t : Timeline σ) : Timeline σ × Bool :=
  if t.cur = 0 then (t, false) else ({ t with cur := t.cur - 1 }, true)

def redo (t : Timeline σ) : Timeline σ × Bool :=
  if t.cur + 1 < t.states.length then ({ t with cur := t.cur + 1 }, true) else (t, false)

end Timeline
end Ft
