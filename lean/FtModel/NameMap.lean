/-
  FtModel.NameMap — model of `funtracks/import_export/_name_mapping.py` AS REPAIRED by
  fixes/D6_name_mapping.patch (property C17), plus a mirror of the ORIGINAL (pinned,
  unrepaired) display-name steps used only for `C17_counterexample_unfixed` and for
  running the correspondence against an unpatched tree (`*-orig` driver modes).

  Library behaviour that steers control flow but is not modelled is a parameter:
    fz    : String → List String → Option String
            = `difflib.get_close_matches(q, cands, n=1, cutoff)` reduced to "first answer or
              nothing"; the theorems assume only  fz q cs = some c → c ∈ cs.
    lower : String → String   = `str.lower`; the theorems assume nothing about it, the
            driver instantiates it with ASCII `String.toLower` (the harness generates ASCII).

  A Python `dict` is an insertion-ordered association list; `d[k] = v` is `Ft.aset k v d`
  (overwrite in place if present, append otherwise), `k in d` is `k ∈ keys d`,
  `list.remove(x)` is `List.erase` (first occurrence), `x in list` is `x ∈ l`.

  Python ↔ Lean
  ┌──────────────────────────────────────────────┬─────────────────────────────────────────┐
  │ mapping: dict[str, str | list[str]]          │ Mapping = List (String × Val)           │
  │   value "col" / ["c1","c2"]                  │   Val.one "col" / Val.many ["c1","c2"]  │
  │ feature metadata dict (feature_type,         │ Feat (key, ftype, numValues,            │
  │   num_values (default 1), display_name,      │   displayName : Option (none = absent   │
  │   value_names)                               │   or not a str), valueNames)            │
  │ display_name_to_key: name -> (key, idx)      │ DMap = List (String × (String × Nat))   │
  │ build_standard_fields                        │ buildStandardFields                     │
  │ build_display_name_mapping                   │ buildDisplay (foldl of buildDisplayFeat)│
  │ _match_exact (for-loop over target_fields)   │ matchExact  (structural recursion)      │
  │ _match_fuzzy  (lower_map last-wins dict,     │ matchFuzzy, lowerMap                    │
  │   `break` when props_left is empty)          │                                         │
  │ any(k == key and i != idx for … in items())  │ isMulti                                 │
  │ body of the `for prop` loop of steps 3 and 4 │ dispStep   (repaired)  / dispStepOrig    │
  │   after (feature_key, idx) is known          │                                         │
  │ multi_value_matches: dict[str,dict[int,str]] │ MVM = List (String × List (Nat × String))│
  │ "Convert multi-value matches" loop           │ convert, sortSlots (= sorted(keys()))   │
  │ _match_display_names_exact                   │ matchDisplayExact / …Orig               │
  │   `for prop in importable_props` loop body   │   exactBody (foldl over the columns)    │
  │ _match_display_names_fuzzy (lower_display_map│ matchDisplayFuzzy / …Orig, lowerDisplay │
  │   last-wins dict, early return on empty)     │                                         │
  │   loop body incl. `if prop not in props_left`│   fuzzyBody                             │
  │ KeyError of `lower_map[closest[0]]`          │ crash / St.crash (see there)            │
  │ _map_remaining_to_self ; mapping.update(..)  │ mapRemainingToSelf ; update             │
  │ infer_node_name_map                          │ inferNode   (repaired: extra exact step │
  │                                              │   over the node feature keys)           │
  │ infer_edge_name_map                          │ inferEdge   (steps 3,4 only if the      │
  │                                              │   display map is non-empty)             │
  │ pinned code before the repair                │ inferNodeOrig / inferEdgeOrig           │
  └──────────────────────────────────────────────┴─────────────────────────────────────────┘
  Not modelled: `cutoff` (part of `fz`).  The KeyError paths (`lower_map[closest[0]]` when the
  matcher answers with a non-candidate) end in `crash` = the empty state, see there.
-/
import FtModel.Basic
namespace Ft.NameMap

inductive Val where
  | one (c : String)
  | many (cs : List String)
  deriving DecidableEq, Repr

/-- the source columns occurring in a value -/
def Val.cols : Val → List String
  | .one c => [c]
  | .many cs => cs

abbrev Mapping := List (String × Val)

def keys {α β} (m : List (α × β)) : List α := m.map (·.1)

/-- all source columns used by a mapping, in dict order (with multiplicity) -/
def mcols (m : Mapping) : List String := m.flatMap (fun e => e.2.cols)

structure Feat where
  key : String
  ftype : String
  numValues : Nat
  displayName : Option String
  valueNames : List String
  deriving Repr

abbrev DMap := List (String × (String × Nat))
abbrev Slots := List (Nat × String)
abbrev MVM := List (String × Slots)

/-- `build_standard_fields` -/
def buildStandardFields (required : List String) : List String := required ++ ["seg_id"]

/-- `for idx, value_name in enumerate(value_names): d[value_name] = (key, idx)` -/
def enumFrom {α} : Nat → List α → List (Nat × α)
  | _, [] => []
  | i, x :: xs => (i, x) :: enumFrom (i + 1) xs

/-- one iteration of the loop of `build_display_name_mapping` -/
def buildDisplayFeat (d : DMap) (f : Feat) : DMap :=
  if f.numValues > 1 then
    (enumFrom 0 f.valueNames).foldl (fun d iv => aset iv.2 (f.key, iv.1) d) d
  else
    match f.displayName with
    | some dn => aset dn (f.key, 0) d
    | none => d

def buildDisplay (feats : List Feat) : DMap := feats.foldl buildDisplayFeat []

/-- `lower_map[closest[0]]` raises KeyError when the fuzzy matcher answers with something that
    is not one of its candidates: there is then no result at all.  The model represents
    "no result" by the empty state (every column lost), so that each C17 theorem genuinely
    has to exclude this arm through its hypothesis `fz q cs = some c → c ∈ cs`. -/
def crash : List String × Mapping := ([], [])

/-- `_match_exact`; returns (props_left, mapping) -/
def matchExact : List String → List String → Mapping → List String × Mapping
  | [], pl, m => (pl, m)
  | f :: fs, pl, m =>
    if f ∈ keys m then matchExact fs pl m
    else if f ∈ pl then matchExact fs (pl.erase f) (aset f (.one f) m)
    else matchExact fs pl m

section lib
variable (fz : String → List String → Option String) (lower : String → String)

/-- `{p.lower(): p for p in props_left}` — later columns overwrite earlier ones, the key keeps
    its first position -/
def lowerMap (pl : List String) : List (String × String) :=
  pl.foldl (fun d p => aset (lower p) p d) []

/-- `_match_fuzzy` -/
def matchFuzzy : List String → List String → Mapping → List String × Mapping
  | [], pl, m => (pl, m)
  | f :: fs, pl, m =>
    if f ∈ keys m then matchFuzzy fs pl m
    else if pl.isEmpty then (pl, m)                       -- break
    else
      let lm := lowerMap lower pl
      match fz (lower f) (keys lm) with
      | none => matchFuzzy fs pl m
      | some c =>
        match alook c lm with
        | none => crash                                   -- KeyError (dead when c ∈ keys lm)
        | some best => matchFuzzy fs (pl.erase best) (aset f (.one best) m)

end lib

/-- `any(k == feature_key and i != idx for _, (k, i) in display_name_to_key.items())` -/
def isMulti (d : DMap) (k : String) (idx : Nat) : Bool :=
  d.any (fun e => e.2.1 == k && e.2.2 != idx)

/-- loop state of steps 3 and 4 -/
structure St where
  pl : List String
  m : Mapping
  mvm : MVM

/-- see `crash` -/
def St.crash : St := ⟨[], [], []⟩

/-- REPAIRED loop body of steps 3/4 once `(feature_key, idx)` is known for `prop` -/
def dispStep (d : DMap) (st : St) (prop : String) (k : String) (idx : Nat) : St :=
  if k ∈ keys st.m then st                                 -- fix: never overwrite a key
  else if isMulti d k idx then
    let slots := (alook k st.mvm).getD []                  -- `mvm[k] = {}` when absent
    if idx ∈ keys slots then st                            -- fix: never overwrite a slot
    else { st with mvm := aset k (aset idx prop slots) st.mvm, pl := st.pl.erase prop }
  else { st with m := aset k (.one prop) st.m, pl := st.pl.erase prop }

/-- ORIGINAL loop body (pinned code): unconditional assignments -/
def dispStepOrig (d : DMap) (st : St) (prop : String) (k : String) (idx : Nat) : St :=
  if isMulti d k idx then
    let slots := (alook k st.mvm).getD []
    { st with mvm := aset k (aset idx prop slots) st.mvm, pl := st.pl.erase prop }
  else { st with m := aset k (.one prop) st.m, pl := st.pl.erase prop }

/-- `sorted(idx_to_prop.keys())` followed by the lookup: slots ordered by index -/
def insertSlot (x : Nat × String) : Slots → Slots
  | [] => [x]
  | y :: ys => if x.1 ≤ y.1 then x :: y :: ys else y :: insertSlot x ys

def sortSlots (s : Slots) : Slots := s.foldr insertSlot []

/-- "Convert multi-value matches to ordered lists" -/
def convert (mvm : MVM) (m : Mapping) : Mapping :=
  mvm.foldl (fun m e =>
    if e.2.isEmpty then m else aset e.1 (.many ((sortSlots e.2).map (·.2))) m) m

/-- loop body of `_match_display_names_exact`, parametrised by the assignment body:
    `if prop in display_name_to_key: feature_key, idx = display_name_to_key[prop]; …` -/
def exactBody (step : St → String → String → Nat → St) (d : DMap) (st : St) (prop : String) :
    St :=
  match alook prop d with
  | some (k, idx) => step st prop k idx
  | none => st

/-- `_match_display_names_exact` (repaired) -/
def matchDisplayExact (d : DMap) (props : List String) (m : Mapping) : List String × Mapping :=
  let st := props.foldl (exactBody (dispStep d) d) (St.mk props m [])
  (st.pl, convert st.mvm st.m)

def matchDisplayExactOrig (d : DMap) (props : List String) (m : Mapping) :
    List String × Mapping :=
  let st := props.foldl (exactBody (dispStepOrig d) d) (St.mk props m [])
  (st.pl, convert st.mvm st.m)

section lib
variable (fz : String → List String → Option String) (lower : String → String)

/-- `{d.lower(): (d, k, i) for d, (k, i) in display_name_to_key.items()}` (the original
    display name, never used afterwards, is dropped) -/
def lowerDisplay (d : DMap) : DMap := d.foldl (fun ld e => aset (lower e.1) e.2 ld) []

/-- loop body of `_match_display_names_fuzzy`, parametrised by the assignment body -/
def fuzzyBody (step : St → String → String → Nat → St) (ld : DMap) (st : St) (prop : String) :
    St :=
  if prop ∈ st.pl then
    match fz (lower prop) (keys ld) with
    | none => st
    | some c =>
      match alook c ld with
      | none => St.crash                                   -- KeyError (dead when c ∈ keys ld)
      | some (k, idx) => step st prop k idx
  else st                                                  -- `continue`

/-- `_match_display_names_fuzzy` (repaired) -/
def matchDisplayFuzzy (d : DMap) (props : List String) (m : Mapping) : List String × Mapping :=
  if props.isEmpty then (props, m)
  else
    let ld := lowerDisplay lower d
    let st := props.foldl (fuzzyBody fz lower (dispStep d) ld) (St.mk props m [])
    (st.pl, convert st.mvm st.m)

def matchDisplayFuzzyOrig (d : DMap) (props : List String) (m : Mapping) :
    List String × Mapping :=
  if props.isEmpty then (props, m)
  else
    let ld := lowerDisplay lower d
    let st := props.foldl (fuzzyBody fz lower (dispStepOrig d) ld) (St.mk props m [])
    (st.pl, convert st.mvm st.m)

end lib

/-- `_map_remaining_to_self` : `{prop: prop for prop in remaining_props}` -/
def mapRemainingToSelf (pl : List String) : Mapping :=
  pl.foldl (fun d p => aset p (.one p) d) []

/-- `mapping.update(custom_mapping)` -/
def update (m : Mapping) (custom : Mapping) : Mapping :=
  custom.foldl (fun m e => aset e.1 e.2 m) m

section lib
variable (fz : String → List String → Option String) (lower : String → String)

/-- `infer_node_name_map` as repaired -/
def inferNode (cols required : List String) (feats : List Feat) : Mapping :=
  let nodeFeats := feats.filter (fun f => f.ftype == "node")
  let std := buildStandardFields required
  let d := buildDisplay nodeFeats
  -- step 1: exact, standard fields then node feature keys
  let (pl, m) := matchExact std cols []
  let (pl, m) := matchExact (nodeFeats.map (·.key)) pl m
  -- step 2
  let (pl, m) := matchFuzzy fz lower std pl m
  -- step 3
  let (pl, m) := matchDisplayExact d pl m
  -- step 4
  let (pl, m) := matchDisplayFuzzy fz lower d pl m
  -- step 5
  update m (mapRemainingToSelf pl)

/-- `infer_edge_name_map` as repaired (`available_computed_features=None` is `feats = []`) -/
def inferEdge (cols : List String) (feats : List Feat) : Mapping :=
  let edgeFeats := feats.filter (fun f => f.ftype == "edge")
  let ekeys := edgeFeats.map (·.key)
  let d := buildDisplay edgeFeats
  let (pl, m) := matchExact ekeys cols []
  let (pl, m) := matchFuzzy fz lower ekeys pl m
  let (pl, m) := if d.isEmpty then (pl, m) else matchDisplayExact d pl m
  let (pl, m) := if d.isEmpty then (pl, m) else matchDisplayFuzzy fz lower d pl m
  update m (mapRemainingToSelf pl)

/-- `infer_node_name_map` of the pinned, unrepaired code -/
def inferNodeOrig (cols required : List String) (feats : List Feat) : Mapping :=
  let nodeFeats := feats.filter (fun f => f.ftype == "node")
  let std := buildStandardFields required
  let d := buildDisplay nodeFeats
  let (pl, m) := matchExact std cols []
  let (pl, m) := matchFuzzy fz lower std pl m
  let (pl, m) := matchDisplayExactOrig d pl m
  let (pl, m) := matchDisplayFuzzyOrig fz lower d pl m
  update m (mapRemainingToSelf pl)

def inferEdgeOrig (cols : List String) (feats : List Feat) : Mapping :=
  let edgeFeats := feats.filter (fun f => f.ftype == "edge")
  let ekeys := edgeFeats.map (·.key)
  let d := buildDisplay edgeFeats
  let (pl, m) := matchExact ekeys cols []
  let (pl, m) := matchFuzzy fz lower ekeys pl m
  let (pl, m) := if d.isEmpty then (pl, m) else matchDisplayExactOrig d pl m
  let (pl, m) := if d.isEmpty then (pl, m) else matchDisplayFuzzyOrig fz lower d pl m
  update m (mapRemainingToSelf pl)

end lib

end Ft.NameMap
