/-
  FtModel.Basic — shared helpers for the executable model and the line protocol.
  Core Lean only (no Mathlib), so the driver can be compiled as a `lean_exe`.
-/
namespace Ft

abbrev Node := Nat

/-- split a protocol line into tokens -/
def tokens (s : String) : List String :=
  (s.trimAscii.toString.splitOn " ").filter (· ≠ "")

def joinSp (xs : List String) : String := String.intercalate " " xs

def natsToStr (xs : List Nat) : String := joinSp (xs.map toString)

/-- parse all tokens as naturals; `none` if any is malformed -/
def parseNats : List String → Option (List Nat)
  | [] => some []
  | t :: ts => do
      let n ← t.toNat?
      let r ← parseNats ts
      pure (n :: r)

def parseInts : List String → Option (List Int)
  | [] => some []
  | t :: ts => do
      let n ← t.toInt?
      let r ← parseInts ts
      pure (n :: r)

/-- insertion sort on naturals (canonical output; tiny inputs) -/
def insertNat (x : Nat) : List Nat → List Nat
  | [] => [x]
  | y :: ys => if x ≤ y then x :: y :: ys else y :: insertNat x ys

def sortNat (xs : List Nat) : List Nat := xs.foldr insertNat []

/-- association-list lookup -/
def alook {α β} [BEq α] (k : α) : List (α × β) → Option β
  | [] => none
  | (k', v) :: r => if k' == k then some v else alook k r

/-- association-list update/insert (keeps position when present, appends otherwise) -/
def aset {α β} [BEq α] (k : α) (v : β) : List (α × β) → List (α × β)
  | [] => [(k, v)]
  | (k', v') :: r => if k' == k then (k, v) :: r else (k', v') :: aset k v r

def adel {α β} [BEq α] (k : α) : List (α × β) → List (α × β)
  | [] => []
  | (k', v') :: r => if k' == k then r else (k', v') :: adel k r

/-- dict.update: every binding of `new` written into `old` -/
def amerge {α β} [BEq α] (new old : List (α × β)) : List (α × β) :=
  new.foldl (fun acc kv => aset kv.1 kv.2 acc) old

end Ft
