/-
  FtModel.Graph — the tracks state of the session model and its read-only views.

  Python                                         | here
  -----------------------------------------------+------------------------------------------
  tracks.graph (networkx DiGraph, insertion-     | `St.nodes : List NodeRec` (insertion order),
    ordered nodes / adjacency)                   | `St.edges : List EdgeRec` (insertion order;
                                                 |   successors(u) = edges with source u, in order)
  graph.nodes[n][time/track_id/lineage_id]       | `NodeRec.time / tid / lin`
  every other node attribute (pos, area, custom) | `NodeRec.other : List (Key × Val)`
  tracks.segmentation (t, [z], y, x)             | `Seg` : flat label list + frame size
  tracks.features (FeatureDict keys)             | `regNode`, `regEdge`, `linOn` (+ time/track id
                                                 |   always registered)
  annotators.all_features (key -> active flag)   | `rpAvail/rpActive`, `iouKey/iouActive`
  TrackAnnotator bookkeeping                     | `t2n`, `l2n`, `maxTid`, `maxLin`
  tracks.node_id_counter                         | `counter`
  action_history, refresh signal                 | `hist`, `refreshes`, `lastPayload`

  Attribute keys are small naturals assigned by the harness; keys 0,1,2 are reserved for
  time, track id and lineage id (only used to express *attempts* to update them).
  `Val` tokens: values the logic only moves around are opaque (`tok`); a regionprops value is
  represented by the mask it was computed from (`mask`), an IoU by its exact counts.
-/
import FtModel.History
namespace Ft

abbrev Key := Nat
abbrev Pix := Nat
abbrev Edge := Node × Node

def keyTime : Key := 0
def keyTid : Key := 1
def keyLin : Key := 2

inductive Val where
  | tok (n : Int)                 -- opaque user value
  | mask (ps : List Pix)          -- regionprops value computed from exactly these pixels
  | iou (inter union : Nat)       -- inter > 0
  | zero                          -- the literal 0 written by the IoU code paths
  | none                          -- Python None (treated like "absent" by every reader)
deriving Repr, DecidableEq, BEq

structure NodeRec where
  id : Node
  time : Nat
  tid : Nat
  lin : Option Nat
  other : List (Key × Val) := []
deriving Repr, DecidableEq, BEq

structure EdgeRec where
  e : Edge
  attrs : List (Key × Val) := []
deriving Repr, DecidableEq, BEq

structure Seg where
  frame : Nat            -- pixels per frame
  data : List Nat        -- length = (number of frames) * frame
deriving Repr, DecidableEq, BEq

/-- a recorded primitive action (what the Python action object keeps for `inverse()`) -/
inductive PrimRec where
  | addNode (n : NodeRec) (pixels : Option (List Pix))
  | delNode (n : NodeRec) (pixels : Option (List Pix))     -- saved attributes, saved pixels
  | addEdge (e : Edge) (attrs : List (Key × Val))
  | delEdge (e : Edge) (attrs : List (Key × Val))          -- saved attributes
  | updTid (start : Node) (oldT newT : Nat) (oldL newL : Option Nat)
  | updSeg (n : Node) (pixels : List Pix) (added : Bool)
  | updAttrs (n : Node) (prev new : List (Key × Val))
deriving Repr, DecidableEq, BEq

/-- a recorded (top-level) user action: its primitives in execution order (nested groups
    flattened; `ActionGroup.inverse` inverts exactly this list in reverse) -/
abbrev ActRec := List PrimRec

structure St where
  nodes : List NodeRec := []
  edges : List EdgeRec := []
  seg : Option Seg := none
  -- registry
  linOn : Bool := true               -- lineage feature registered and active
  posKeys : List Key := []           -- position key(s) (single key, or one per axis)
  regNode : List Key := []           -- registered node features besides time/track id/lineage
  regEdge : List Key := []
  rpAvail : List Key := []           -- regionprops annotator keys (empty without segmentation)
  rpActive : List Key := []
  iouKey : Option Key := none        -- edge annotator key (none without segmentation)
  iouActive : Bool := false
  -- TrackAnnotator bookkeeping
  t2n : List (Nat × List Node) := []
  l2n : List (Nat × List Node) := []
  maxTid : Nat := 0
  maxLin : Nat := 0
  counter : Nat := 1
  -- history and refresh log
  hist : Hist ActRec := {}
  refreshes : Nat := 0
  lastPayload : Option Node := none
deriving Repr

namespace St

def findNode (s : St) (n : Node) : Option NodeRec := s.nodes.find? (·.id == n)
def hasNode (s : St) (n : Node) : Bool := (s.findNode n).isSome
def hasEdge (s : St) (e : Edge) : Bool := s.edges.any (·.e == e)
def findEdge (s : St) (e : Edge) : Option EdgeRec := s.edges.find? (·.e == e)

def succs (s : St) (u : Node) : List Node := (s.edges.filter (·.e.1 == u)).map (·.e.2)
def preds (s : St) (v : Node) : List Node := (s.edges.filter (·.e.2 == v)).map (·.e.1)
def outdeg (s : St) (u : Node) : Nat := (s.succs u).length
def indeg (s : St) (v : Node) : Nat := (s.preds v).length

def timeOf (s : St) (n : Node) : Option Nat := (s.findNode n).map (·.time)
def tidOf (s : St) (n : Node) : Option Nat := (s.findNode n).map (·.tid)
def linOf (s : St) (n : Node) : Option Nat := (s.findNode n).bind (·.lin)

def updNode (s : St) (n : Node) (f : NodeRec → NodeRec) : St :=
  { s with nodes := s.nodes.map (fun r => if r.id == n then f r else r) }

def setTid (s : St) (n : Node) (t : Nat) : St := s.updNode n (fun r => { r with tid := t })
def setLin (s : St) (n : Node) (l : Option Nat) : St := s.updNode n (fun r => { r with lin := l })
def setOther (s : St) (n : Node) (k : Key) (v : Val) : St :=
  s.updNode n (fun r => { r with other := aset k v r.other })

def setEdgeAttr (s : St) (e : Edge) (k : Key) (v : Val) : St :=
  { s with edges := s.edges.map (fun r => if r.e == e then { r with attrs := aset k v r.attrs } else r) }

/-- `get_node_attr(n, k)` with None ≡ absent -/
def otherOf (s : St) (n : Node) (k : Key) : Val :=
  match s.findNode n with
  | some r => (alook k r.other).getD Val.none
  | none => Val.none

end St

/-! ### segmentation views -/
namespace Seg

def nframes (g : Seg) : Nat := if g.frame = 0 then 0 else g.data.length / g.frame

/-- `segmentation[pixels] = value` (flat indices; an index outside the array is an IndexError
    in Python — the harness never produces one) -/
def setPixels (g : Seg) (ps : List Pix) (v : Nat) : Seg :=
  { g with data := ps.foldl (fun d p => d.set p v) g.data }

/-- offsets (within the frame) of the pixels of frame `t` that carry label `l` -/
def offsetsOf (g : Seg) (t : Nat) (l : Nat) : List Nat :=
  (List.range g.frame).filter (fun o => g.data.getD (t * g.frame + o) 0 == l)

/-- `np.nonzero(segmentation[t] == l)` as flat indices, ascending -/
def pixelsOf (g : Seg) (t : Nat) (l : Nat) : List Pix :=
  (g.offsetsOf t l).map (fun o => t * g.frame + o)

/-- sorted distinct non-zero labels of frame `t` (regionprops / np.unique order) -/
def labelsOf (g : Seg) (t : Nat) : List Nat :=
  let ls := (List.range g.frame).map (fun o => g.data.getD (t * g.frame + o) 0)
  (sortNat (ls.filter (· != 0))).eraseDups

end Seg

namespace St

/-- `tracks.get_pixels(node)` -/
def getPixels (s : St) (n : Node) : Option (List Pix) :=
  match s.seg, s.timeOf n with
  | some g, some t => some (g.pixelsOf t n)
  | _, _ => none

end St
end Ft
