/-
  FtModel.ImportExt — the parts of the import pipeline that FtModel/Import.lean lists under
  "NOT modelled" (work package R8I, property C12): `_preprocess_name_map`, the order of the checks
  in `TracksBuilder.build` / `validate_name_map`, and GEFF edge properties with their own
  `edge_name_map`.  Core Lean only.  Nothing of Import.lean is changed: the node side of every
  function below IS `importTable` / `importGeff` applied to the preprocessed map.

  Python ↔ Lean
  ---------------------------------------------------------------------------------------------
  node_name_map / edge_name_map as the caller gives them:      RawNameMap = List (String × RawSrc)
      value None | "col" | ["c1", …] ([] = empty list)             RawSrc.none | .one c | .many cs
  `v is None or v == []`                                        RawSrc.blank
  _preprocess_name_map, first block:                            legacyFold
      `if "pos" not in self.node_name_map`                          (alook "pos" raw).isSome
      `for coord in ["z", "y", "x"]: if coord in map:`              coordKeys.foldl legacyStep
          `if source_col is not None and isinstance(.., str):       (only `.one c` is appended;
               pos_components.append(source_col)`                     `None` and lists are not)
          `del self.node_name_map[coord]`                            adelAll coord (ALWAYS, also
                                                                      for a None / list value)
      `if len(pos_components) >= 2: map["pos"] = pos_components`    appended at the END of the dict
  second / third block: delete the keys whose value is blank    dropBlank
  the whole function on the node map / on the edge map          preprocess / dropBlank
  import_from_geff: `{k: v … if v is not None and v != "None"}` wrapperFilter (GEFF wrapper only;
      on node_name_map and edge_name_map, BEFORE the builder        `tracks_from_df` has no such
                                                                      filter)
  TracksBuilder.build, in this order:
    `if not self.node_name_map: raise`  (the RAW dict)          raw.isEmpty → nmEmpty
    self.ndim from the RAW "pos" entry (list ⇒ len + 1,         ndimEarly (only the edge-map
        also for [])                                                spatial check can see the
                                                                     difference, see edgeExpect)
    validate_name_map: _preprocess_name_map,                     preprocess,
        validate_node_name_map                                      validateNameMap (Import.lean);
            a map that is empty AFTER preprocessing fails in          its `nmEmpty` is rewritten to
            `none_mappings` ("cannot contain None values")            missingRequired (liftEmpty)
        validate_edge_name_map (if edge_name_map is not None):
            non-existent edge properties (if the store has any)     colsOk eheader enm
                                                                       → edgeUnknownColumn
            validate_spatial_dims_in_name_map(edge_name_map, …)     edgeSpatialOk → spatialDims
        validate_feature_key_collisions                              keysCollide → keyCollision
    load_source → geff read_to_memory(node_props=…, edge_props=…)  loadCheck: a mapped property of
        `zarr.open_group(… "edges/props/<name>")`                      a store that has NO property
                                                                       of that kind (the existence
                                                                       check was skipped) →
                                                                       storeMissingProp (zarr
                                                                       GroupNotFoundError, a
                                                                       subclass of ValueError)
    rename loop over flatten_name_map(edge_name_map),            edgePlan: the SAME `renameRow` /
    _combine_multi_value_props(edge_props, edge_name_map)          `combine` of Import.lean, run on
        (both act on whole columns; which columns exist            the row of column NAMES
        afterwards depends on names only)                           (symRow): key ↦ `.sc c` (copy of
                                                                     column c) | `.vec cs` (columns
                                                                     cs stacked)
        combined "missing" = OR of the components' masks          resolve (.vec cs): all present
    edge_name_map is None (direct builder use without            edgePlan … none = symRow: every
        prepare()): all edge properties, own names                  stored column
    validate() / geff.construct: per edge, a property is set     edgeAttrs = plan.filterMap resolve
        unless its `missing` flag is set
  has_segmentation=True (validation only)                       validateNameMapSeg (some d)
  ---------------------------------------------------------------------------------------------
  A GEFF source with edge properties: `eheader` = names in `metadata.edge_props_metadata`;
  every edge carries `Attrs` = the stored value tokens of that edge, a property whose `missing`
  flag is set on the edge is ABSENT from the list.

  Checked against the real code with throw-away scripts (GeffTracksBuilder / import_from_geff on
  stores written to /tmp, tracks_from_df; ≈ 4000 random raw node maps × edge maps incl. None / [] /
  "None" values, legacy keys in any order, blank "pos", unknown columns, colliding keys, stacked and
  nested edge entries with missing values, stores without edge properties, malformed graphs): the
  compiled driver (family IMX) and the real code agree on every outcome and every ErrKind.
  Observations that are not modelled: `tracks_from_df(df, node_name_map=d)` mutates the caller's
  dict `d` (preprocessing is in place); `import_from_geff(…, edge_name_map=None)` does NOT mean "no
  edge map": `prepare()` has inferred one (fuzzy matching, family NM) — give the inferred map
  explicitly; a GEFF store without ANY node property makes Import.lean's `importGeff` accept
  (header = [] skips the column check) where the real code fails in zarr: `importGeffX` refuses it
  (`loadCheck`).
-/
import FtModel.Import
namespace Ft.ImportExt
open Ft.Import

/-- a value of a caller-supplied name map -/
inductive RawSrc where
  | none
  | one (c : String)
  | many (cs : List String)
  deriving DecidableEq, Repr

abbrev RawNameMap := List (String × RawSrc)

/-- `v is None or v == []` -/
def RawSrc.blank : RawSrc → Bool
  | .none => true
  | .one _ => false
  | .many cs => cs.isEmpty

/-- `coord_keys = ["z", "y", "x"]  # Order matters` -/
def coordKeys : List String := ["z", "y", "x"]

/-- one round of `for coord in coord_keys:` — state = (the dict, pos_components) -/
def legacyStep (st : RawNameMap × List String) (coord : String) : RawNameMap × List String :=
  match alook coord st.1 with
  | Option.none => st
  | Option.some v =>
    (adelAll coord st.1,
      match v with
      | .one c => st.2 ++ [c]
      | _ => st.2)

/-- first block of `_preprocess_name_map` -/
def legacyFold (raw : RawNameMap) : RawNameMap :=
  if (alook "pos" raw).isSome then raw
  else
    let st := coordKeys.foldl legacyStep (raw, [])
    if st.2.length ≥ 2 then st.1 ++ [("pos", RawSrc.many st.2)] else st.1

/-- `keys_to_remove = [k for k, v in d.items() if v is None or v == []]; del d[k]` -/
def dropBlank (raw : RawNameMap) : RawNameMap := raw.filter (fun e => !e.2.blank)

/-- `_preprocess_name_map` on the node map (on the edge map it is `dropBlank`) -/
def preprocess (raw : RawNameMap) : RawNameMap := dropBlank (legacyFold raw)

def toSrc : RawSrc → Option Src
  | .none => Option.none
  | .one c => some (.one c)
  | .many cs => some (.many cs)

/-- reading a map without `None` values (every preprocessed map) as a `NameMap` -/
def toNameMap (raw : RawNameMap) : NameMap := raw.filterMap (fun e => (toSrc e.2).map (fun s => (e.1, s)))

/-- `import_from_geff`: entries whose value is `None` or the string "None" are dropped before the
    builder sees the map -/
def wrapperFilter (raw : RawNameMap) : RawNameMap :=
  raw.filter (fun e => e.2 != RawSrc.none && e.2 != RawSrc.one "None")

/-- a map that is empty only AFTER preprocessing is refused by the `none_mappings` check -/
def liftEmpty {α} : Except ErrKind α → Except ErrKind α
  | .error .nmEmpty => .error .missingRequired
  | r => r

/-- `tracks_from_df(df, node_name_map=raw)` / `CSVTracksBuilder.build` with a raw map -/
def importTableRaw (spatial : List String) (raw : RawNameMap) (t : Table) : Except ErrKind Graph :=
  if raw.isEmpty then .error .nmEmpty
  else liftEmpty (importTable spatial (toNameMap (preprocess raw)) t)

/-- GEFF builder with a raw node map, no edge map semantics (nodes and bare edges only) -/
def importGeffRaw (spatial : List String) (raw : RawNameMap) (header : List String)
    (nodes : List (Int × Attrs)) (edges : List (Int × Int)) : Except ErrKind Graph :=
  if raw.isEmpty then .error .nmEmpty
  else liftEmpty (importGeff spatial (toNameMap (preprocess raw)) header nodes edges)

/-! ### validation with a segmentation (validation stage only) -/

/-- the "pos" checks of `validate_node_name_map(…, has_segmentation)`; `seg` = `some d` when a
    segmentation with `d` spatial axes is given -/
def posCheckSeg (seg : Option Nat) (nm : NameMap) : Option ErrKind :=
  match alook "pos" nm with
  | Option.none => if seg.isSome then Option.none else some .posMissing
  | some (.many cs) => if cs.length < 2 then some .posShort else Option.none
  | some (.one _) => Option.none

/-- `validate_spatial_dims_in_name_map` when `self.ndim` was read from the segmentation -/
def spatialOkSeg (seg : Option Nat) (spatial : List String) (nm : NameMap) : Bool :=
  match seg with
  | Option.none => spatialOk spatial nm
  | some d =>
    nm.all (fun e => !spatial.contains e.1 ||
      (match e.2 with
       | .many cs => cs.length == d
       | .one _ => true))

def validateNameMapSeg (seg : Option Nat) (required header spatial : List String) (nm : NameMap) :
    Except ErrKind Unit :=
  if nm.isEmpty then .error .nmEmpty
  else if required.any (fun k => (alook k nm).isNone) then .error .missingRequired
  else
    match posCheckSeg seg nm with
    | some e => .error e
    | Option.none =>
      if !colsOk header nm then .error .unknownColumn
      else if !spatialOkSeg seg spatial nm then .error .spatialDims
      else .ok ()

/-- the validation stage of `build(source, segmentation)` on a raw map -/
def validateRawSeg (seg : Option Nat) (required header spatial : List String) (raw : RawNameMap) :
    Except ErrKind Unit :=
  if raw.isEmpty then .error .nmEmpty
  else liftEmpty (validateNameMapSeg seg required header spatial (toNameMap (preprocess raw)))

/-! ### GEFF edge properties -/

inductive ErrX where
  | base (e : ErrKind)   -- an error of the node pipeline (Import.lean)
  | edgeUnknownColumn    -- "edge_name_map contains mappings to non-existent properties"
  | keyCollision         -- "Feature keys cannot be shared between nodes and edges"
  | storeMissingProp     -- zarr GroupNotFoundError (a ValueError subclass): a mapped property
                         -- of a store that has no property of that kind at all
  deriving DecidableEq, Repr

structure GraphX where
  nodes : List (Int × Attrs)
  edges : List ((Int × Int) × Attrs)
  deriving DecidableEq, Repr

/-- `self.ndim` as `build()` sets it before validation: from the RAW "pos" entry if it is a list
    (`len + 1`, also for the empty list); here as the number of spatial axes -/
def ndimEarly (rawN : RawNameMap) : Option Nat :=
  match alook "pos" rawN with
  | some (.many cs) => some cs.length
  | _ => Option.none

/-- `expect_spatial_dims` and `ndim_from_pos` of `validate_spatial_dims_in_name_map(edge_name_map,
    available, self.ndim)`; `nd` = `ndimEarly` of the raw node map -/
def edgeExpect (nd : Option Nat) (enm : NameMap) : Option (Nat × Bool) :=
  match nd with
  | some d => some (d, false)
  | Option.none =>
    match alook "pos" enm with
    | some (.many cs) => some (cs.length, true)
    | _ => Option.none

def edgeSpatialOk (spatial : List String) (nd : Option Nat) (enm : NameMap) : Bool :=
  match edgeExpect nd enm with
  | Option.none => true
  | some (d, fromPos) =>
    enm.all (fun e => (fromPos && e.1 == "pos") || !spatial.contains e.1 ||
      (match e.2 with
       | .many cs => cs.length == d
       | .one _ => true))

/-- `set(name_map.keys()) & set(edge_name_map.keys())` is non-empty -/
def keysCollide (nm enm : NameMap) : Bool := nm.any (fun e => (alook e.1 enm).isSome)

/-- `validate_edge_name_map`, then `validate_feature_key_collisions` -/
def validateEdgeMap (spatial : List String) (nd : Option Nat) (nm : NameMap)
    (eheader : List String) : Option NameMap → Option ErrX
  | Option.none => Option.none
  | some enm =>
    if !colsOk eheader enm then some .edgeUnknownColumn
    else if !edgeSpatialOk spatial nd enm then some (.base .spatialDims)
    else if keysCollide nm enm then some .keyCollision
    else Option.none

def mapsSomething (nm : NameMap) : Bool := nm.any (fun e => !e.2.cols.isEmpty)

/-- `read_to_memory`: a requested property is opened by name; when the store has no property of
    that kind the existence check of the validation was skipped (`if importable_…_props:`) -/
def loadCheck (header eheader : List String) (nm : NameMap) (enm : Option NameMap) : Option ErrX :=
  if header.isEmpty && mapsSomething nm then some .storeMissingProp
  else
    match enm with
    | Option.none => Option.none
    | some enm => if eheader.isEmpty && mapsSomething enm then some .storeMissingProp else Option.none

/-- the row of column names: column `c` holds the token `c` -/
def symRow (eheader : List String) : Attrs := eheader.map (fun c => (c, Val.sc c))

/-- the edge property columns after renaming and combining, each described by where it comes
    from: `.sc c` = a copy of stored column `c`, `.vec cs` = the stored columns `cs` stacked -/
def edgePlan (eheader : List String) : Option NameMap → Attrs
  | Option.none => symRow eheader
  | some enm => combine enm (renameRow eheader enm (symRow eheader))

/-- value of a planned column on one edge (`none` = missing there: not set by geff.construct) -/
def resolve (cells : Attrs) : Val → Option Val
  | .sc c => alook c cells
  | .vec cs => if cs.all (fun c => (alook c cells).isSome) then some (stack cs cells) else Option.none

def edgeAttrs (plan : Attrs) (cells : Attrs) : Attrs :=
  plan.filterMap (fun kv => (resolve cells kv.2).map (fun v => (kv.1, v)))

/-- `GeffTracksBuilder.build` after the emptiness test, on the preprocessed maps; `nd` = the
    spatial extent `build()` derived from the RAW "pos" entry (`ndimEarly`) -/
def importGeffCore (spatial : List String) (nd : Option Nat) (nm : NameMap) (enm : Option NameMap)
    (header eheader : List String) (nodes : List (Int × Attrs))
    (edges : List ((Int × Int) × Attrs)) : Except ErrX GraphX :=
  match validateNameMap ["time"] header spatial nm with
  | .error .nmEmpty => .error (.base .missingRequired)
  | .error e => .error (.base e)
  | .ok _ =>
    match validateEdgeMap spatial nd nm eheader enm with
    | some e => .error e
    | Option.none =>
      match loadCheck header eheader nm enm with
      | some e => .error e
      | Option.none =>
        match importGeff spatial nm header nodes (edges.map (·.1)) with
        | .error e => .error (.base e)
        | .ok g =>
          .ok ⟨g.nodes, edges.map (fun e => (e.1, edgeAttrs (edgePlan eheader enm) e.2))⟩

/-- `GeffTracksBuilder.build` (builder level: `rawE = none` ⇔ `builder.edge_name_map is None`) -/
def importGeffX (spatial : List String) (rawN : RawNameMap) (rawE : Option RawNameMap)
    (header eheader : List String) (nodes : List (Int × Attrs))
    (edges : List ((Int × Int) × Attrs)) : Except ErrX GraphX :=
  if rawN.isEmpty then .error (.base .nmEmpty)
  else
    importGeffCore spatial (ndimEarly rawN) (toNameMap (preprocess rawN))
      (rawE.map (fun r => toNameMap (dropBlank r))) header eheader nodes edges

/-- `import_from_geff(store, node_name_map=rawN, edge_name_map=rawE)` with both maps explicit -/
def importFromGeffX (spatial : List String) (rawN rawE : RawNameMap)
    (header eheader : List String) (nodes : List (Int × Attrs))
    (edges : List ((Int × Int) × Attrs)) : Except ErrX GraphX :=
  importGeffX spatial (wrapperFilter rawN) (some (wrapperFilter rawE)) header eheader nodes edges

end Ft.ImportExt
