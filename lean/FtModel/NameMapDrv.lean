/-
  Driver handler of the NameMap family (tag "NM", stateless).

  Input (tokens after the tag; strings hex-encoded, "-" = empty string; lists `n x1 … xn`):
    mode                       node | edge | node-orig | edge-orig
    cols                       list of strings      importable properties
    required                   list of strings      required_features (ignored in edge modes)
    feats                      list of  key ftype numValues hasDisplay display valueNames
                               (hasDisplay 0|1; display is "-" when 0; valueNames a list)
    transcript                 list of  query cands hasAnswer answer
                               recorded calls of difflib.get_close_matches, in call order
  Output:
    ok n (key 0 col | key 1 k col1 … colk)*      entries sorted by hex-encoded key
    fz-miss                                       the model asked the fuzzy matcher a
                                                  (query, candidates) pair that is not in the
                                                  transcript (with non-empty candidates)
    bad-op                                        malformed input
  The fuzzy matcher handed to the model is "look (query, candidates) up in the transcript".
  To detect a question that was never recorded, the model is run twice: unrecorded questions
  are answered `none` in one run and "first candidate" in the other; if the two results differ
  the answer is `fz-miss`.
-/
import FtModel.NameMap
namespace Ft.NameMap

/-! ### hex strings -/

def hexDigit (c : Char) : Option Nat :=
  if '0' ≤ c ∧ c ≤ '9' then some (c.toNat - '0'.toNat)
  else if 'a' ≤ c ∧ c ≤ 'f' then some (c.toNat - 'a'.toNat + 10)
  else none

def hexBytes : List Char → Option (List UInt8)
  | [] => some []
  | [_] => none
  | a :: b :: r => do
      let x ← hexDigit a
      let y ← hexDigit b
      let t ← hexBytes r
      pure (UInt8.ofNat (16 * x + y) :: t)

def unhex (t : String) : Option String :=
  if t == "-" then some ""
  else if t.isEmpty then none
  else do
    let bs ← hexBytes t.toList
    String.fromUTF8? (ByteArray.mk bs.toArray)

def hexChar (n : Nat) : Char :=
  if n < 10 then Char.ofNat ('0'.toNat + n) else Char.ofNat ('a'.toNat + (n - 10))

def hex (s : String) : String :=
  if s.isEmpty then "-"
  else String.ofList (s.toUTF8.toList.flatMap (fun b => [hexChar (b.toNat / 16), hexChar (b.toNat % 16)]))

/-! ### token parser -/

abbrev P (α : Type) := List String → Option (α × List String)

def pNat : P Nat
  | t :: r => t.toNat?.map (fun n => (n, r))
  | [] => none

def pStr : P String
  | t :: r => (unhex t).map (fun s => (s, r))
  | [] => none

def pMany {α} (p : P α) : Nat → P (List α)
  | 0, ts => some ([], ts)
  | n + 1, ts => do
      let (x, r) ← p ts
      let (xs, r') ← pMany p n r
      pure (x :: xs, r')

def pList {α} (p : P α) : P (List α) := fun ts => do
  let (n, r) ← pNat ts
  pMany p n r

def pOptStr : P (Option String) := fun ts => do
  let (flag, r) ← pNat ts
  let (s, r') ← pStr r
  match flag with
  | 0 => if s.isEmpty then pure (none, r') else none
  | 1 => pure (some s, r')
  | _ => none

def pFeat : P Feat := fun ts => do
  let (key, r) ← pStr ts
  let (ftype, r) ← pStr r
  let (nv, r) ← pNat r
  let (dn, r) ← pOptStr r
  let (vns, r) ← pList pStr r
  pure ({ key := key, ftype := ftype, numValues := nv, displayName := dn, valueNames := vns }, r)

abbrev Rec := String × List String × Option String

def pRec : P Rec := fun ts => do
  let (q, r) ← pStr ts
  let (cs, r) ← pList pStr r
  let (a, r) ← pOptStr r
  pure ((q, cs, a), r)

/-! ### transcript as fuzzy matcher -/

def fzOf (miss : List String → Option String) (tr : List Rec) (q : String) (cs : List String) :
    Option String :=
  match tr.find? (fun r => r.1 == q && r.2.1 == cs) with
  | some r => r.2.2
  | none => miss cs

/-! ### canonical output -/

def insertStr (x : String × String) : List (String × String) → List (String × String)
  | [] => [x]
  | y :: ys => if x.1 ≤ y.1 then x :: y :: ys else y :: insertStr x ys

def renderVal : Val → String
  | .one c => joinSp ["0", hex c]
  | .many cs => joinSp (["1", toString cs.length] ++ cs.map hex)

def render (m : Mapping) : String :=
  let es := (m.map (fun e => (hex e.1, renderVal e.2))).foldr insertStr []
  joinSp (["ok", toString es.length] ++ es.map (fun e => joinSp [e.1, e.2]))

def runMode (mode : String) (fz : String → List String → Option String)
    (cols req : List String) (feats : List Feat) : Option Mapping :=
  let lower := String.toLower
  match mode with
  | "node" => some (inferNode fz lower cols req feats)
  | "edge" => some (inferEdge fz lower cols feats)
  | "node-orig" => some (inferNodeOrig fz lower cols req feats)
  | "edge-orig" => some (inferEdgeOrig fz lower cols feats)
  | _ => none

def handle (ts : List String) : String :=
  match ts with
  | mode :: rest =>
    let parsed : Option ((List String × List String × List Feat × List Rec) × List String) := do
      let (cols, r) ← pList pStr rest
      let (req, r) ← pList pStr r
      let (feats, r) ← pList pFeat r
      let (tr, r) ← pList pRec r
      pure ((cols, req, feats, tr), r)
    match parsed with
    | some ((cols, req, feats, tr), []) =>
      match runMode mode (fzOf (fun _ => none) tr) cols req feats,
            runMode mode (fzOf (fun cs => cs.head?) tr) cols req feats with
      | some m1, some m2 => if m1 == m2 then render m1 else "fz-miss"
      | _, _ => "bad-op"
    | _ => "bad-op"
  | [] => "bad-op"

end Ft.NameMap
