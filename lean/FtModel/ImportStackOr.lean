/-
  FtModel.ImportStackOr — `_combine_multi_value_props` on NODE properties that carry GEFF `missing`
  masks, column-wise as the real code does it (package R9C, part 2).

  `FtModel/Import.lean` (`combine`, used per node row by `importGeff` and so by
  `ImportExt.importGeffCore`) stacks per ROW: a row in which a component of a list-mapped key is
  absent is left as it is. The real code (`_tracks_builder.py`, `_combine_multi_value_props`) works
  on whole COLUMNS: when all component columns EXIST in the property dict it builds the stacked
  column with `missing` = OR of the components' masks, and deletes the component columns — for
  every node. This file models that; `FtProofs/Props/C12_R9C.lean` compares the two.

  Python                                                     | here
  -----------------------------------------------------------+--------------------------------------
  props (dict: column name → values + missing mask)          | `cols` = the column names, and per
                                                             |   node its `Attrs`: a column whose
                                                             |   mask is set on the node is ABSENT
  keys of `renamed_node_props` (import_graph_from_geff)      | `renamedColsG header nm`
  `if not isinstance(source_cols, list) or len == 0`         | `.one _` / `cs.isEmpty`: skipped
  `missing_cols = [c … if c not in props]` → continue        | `cs.all cols.contains` else unchanged
  combined / combined_missing (OR; `None` when no component  | per node: all components present →
      has a mask: then every component is present)           |   `stack`, else the key is absent
  `props[std_key] = …` (replaces an existing column)         | `aset` / `adelAll` of the key
  `del props[c]` for c in source_cols if c != std_key        | `delComps` on every node, `cols` filtered
  geff.construct: a property is set unless `missing`         | the `Attrs` themselves
-/
import FtModel.ImportExt
namespace Ft.R9C
open Ft Ft.Import Ft.ImportExt

/-- the keys of `renamed_node_props`: the rename loop run on the row of column names -/
def renamedColsG (header : List String) (nm : NameMap) : List String :=
  (renameRow header nm (symRow header)).map (·.1)

/-- one node under one list-mapped entry whose component columns all exist -/
def stackRowOr (k : String) (cs : List String) (row : Attrs) : Attrs :=
  delComps k cs
    (if cs.all (fun c => (alook c row).isSome) then aset k (stack cs row) row else adelAll k row)

/-- one iteration of the loop of `_combine_multi_value_props` over (column names, node rows) -/
def combineStepOr (st : List String × List (Int × Attrs)) (e : String × Src) :
    List String × List (Int × Attrs) :=
  match e.2 with
  | .one _ => st
  | .many cs =>
    if cs.isEmpty then st
    else if cs.all (fun c => st.1.contains c) then
      ((if st.1.contains e.1 then st.1 else st.1 ++ [e.1]).filter (fun c => !(cs.contains c) || c == e.1),
       st.2.map (fun n => (n.1, stackRowOr e.1 cs n.2)))
    else st

/-- `_combine_multi_value_props(node_props, name_map)` with OR-ed masks -/
def combineOr (nm : NameMap) (cols : List String) (nodes : List (Int × Attrs)) : List (Int × Attrs) :=
  (nm.foldl combineStepOr (cols, nodes)).2

/-- node attributes of a GEFF import, masks OR-ed (rename per node as in `importGeff`) -/
def geffNodesOr (nm : NameMap) (header : List String) (nodes : List (Int × Attrs)) : List (Int × Attrs) :=
  combineOr nm (renamedColsG header nm) (nodes.map (fun n => (n.1, renameRow header nm n.2)))

/-- node attributes of a GEFF import as `Import.importGeff` computes them (per row) -/
def geffNodesPerRow (nm : NameMap) (header : List String) (nodes : List (Int × Attrs)) : List (Int × Attrs) :=
  (nodes.map (fun n => (n.1, renameRow header nm n.2))).map (fun n => (n.1, combine nm n.2))

end Ft.R9C
