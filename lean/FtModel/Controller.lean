/-
  FtModel.Controller — `funtracks.data_model.tracks_controller.TracksController` (deprecated, still
  shipped): every entry point as the composition of top-level user actions it is in the code.

  `ctlStep : St → CtlOp → St × Out` is built from `St.step` (one top-level user action: history
  entry + refresh) and, for `update_node_attrs`, from the primitive `pUpdAttrs` + `commit`.
  An exception raised by the k-th element of a call propagates with the earlier elements applied
  (`runOps` stops at the first `.err`), exactly as the Python `for` loops do.

  Python (tracks_controller.py)                       | here
  ----------------------------------------------------+------------------------------------------
  `attributes` of add_nodes (dict of columns)         | `AddCols` (typed columns time / track id /
                                                      |   lineage / "node_id" + the other columns)
  `{key: val[i] for key, val in attributes.items()}`  | `rowOp` / `attrRow` (`none` = IndexError of a
     , `pixels[i]`                                    |   column shorter than the element index)
  add_nodes / _add_nodes                              | `ctlAddNodes`  (`times = attributes[time_key]`
                                                      |   KeyError; pixels given: ids = column
                                                      |   "node_id" (KeyError), else
                                                      |   `_get_new_node_ids(len(times))`; then one
                                                      |   top-level `UserAddNode` per element; the
                                                      |   returned ActionGroup is dropped)
  delete_nodes / _delete_nodes                        | `ctlDeleteNodes`
  is_valid                                            | `isValid`  (orientation by time for the checks
                                                      |   only; `Reject` = which warning)
  add_edges / _add_edges                              | `checkEdges` (all edges against the state
                                                      |   BEFORE the call, first refusal returns),
                                                      |   then `UserAddEdge` with the ORIGINAL pair
  delete_edges / _delete_edges                        | `ctlDeleteEdges` (all must exist, else silent)
  swap_predecessors (InvalidActionError -> warning)   | `ctlSwap` (`.invalid` / `.forceable` swallowed,
                                                      |   the state is whatever the action left)
  update_node_attrs / _update_node_attrs              | `updLoop` (UpdateNodeAttrs per node, applied
                                                      |   at construction), `updRows` (as repaired by
                                                      |   a7bb82b: a raising element rolls the earlier
                                                      |   ones back, then propagates out of
                                                      |   `_update_node_attrs` BEFORE `add_new_action`:
                                                      |   nothing registered, no refresh) + ONE
                                                      |   `commit`; `updRowsUnfixed` = before the repair
  update_segmentations                                | `St.step (.paint …)` (the caller paints first /
                                                      |   restores on refusal, as in `Session`;
                                                      |   `current_timepoint` is unused by the code)
  undo / redo                                         | `St.step .undo / .redo`

  Known deviation inherited from `pUpdAttrs` (Prim.lean): `UpdateNodeAttrs(tracks, unknown_node, {})`
  (NO attribute column at all) succeeds in Python (nothing is looked up), the model answers
  `err:key`. Not reachable with at least one column.
  Silent refusals return `None` like an accepted call: `ctlStep` answers `.ok`; which warning was
  issued is `ctlSilent` (printed by the driver as `refused:<why>`).
-/
import FtModel.Session
namespace Ft

/-- the `attributes` argument of `add_nodes`: a dict of columns (`none` = key absent) -/
structure AddCols where
  time : Option (List Nat) := none         -- `features.time_key`
  tid : Option (List Nat) := none          -- `features.tracklet_key`
  lin : Option (List Nat) := none          -- `features.lineage_key`
  nodeId : Option (List Node) := none      -- the literal key "node_id"
  other : List (Key × List Val) := []      -- every other column
deriving Repr

structure AddNodesArgs where
  cols : AddCols
  pixels : Option (List (List Pix))        -- `pixels` (None | one mask per element)
  force : Bool
  idKey : Key                              -- the attribute key the column "node_id" is stored under
deriving Repr

/-- which warning `is_valid` issued -/
inductive Reject where
  | exists_        -- "Edge is rejected because it exists already."
  | horizontal     -- "Edge is rejected because it is horizontal."
  | triple         -- "… triple divisions are currently not allowed."
  | closest        -- "Please connect to the closest node"
deriving Repr, DecidableEq, BEq

/-- a silent refusal (warning + `return`) of a controller call -/
inductive Silent where
  | reject (r : Reject)     -- add_edges: `is_valid` said no
  | missingEdge             -- delete_edges: "Cannot delete non-existing edge!"
  | swapInvalid             -- swap_predecessors: InvalidActionError turned into a warning
deriving Repr, DecidableEq, BEq

inductive CtlOp where
  | addNodes (a : AddNodesArgs)
  | deleteNodes (ns : List Node)
  | addEdges (es : List Edge) (force : Bool)
  | deleteEdges (es : List Edge)
  | swapPredecessors (n1 n2 : Node)
  | updateNodeAttrs (ns : List Node) (cols : List (Key × List Val))
  | updateSegmentations (newValue : Nat) (groups : List (List Pix × Nat)) (curTid : Nat) (force : Bool)
  | undo
  | redo
  | isValid (e : Edge)                      -- the public query `is_valid(edge)`

namespace St

/-- a Python `for` loop of top-level actions: the first one that raises ends the call, the earlier
    ones stay applied (each has made its own history entry and refresh). `none` = building the
    arguments of that element raised IndexError (a column shorter than the element index). -/
def runOps : St → List (Option Op) → St × Out
  | s, [] => (s, .ok)
  | s, none :: _ => (s, .err .other)
  | s, some op :: ops =>
    match s.step op with
    | (s', .err e) => (s', .err e)
    | (s', _) => runOps s' ops

/-- entry `i` of an optional column: `none` = IndexError, `some none` = column absent -/
def colAt {α : Type} (c : Option (List α)) (i : Nat) : Option (Option α) :=
  match c with
  | none => some none
  | some l => (l[i]?).map some

/-- `{key: val[i] for key, val in attributes.items()}` over the untyped columns -/
def attrRow (cols : List (Key × List Val)) (i : Nat) : Option (List (Key × Val)) :=
  if cols.all (fun kv => decide (i < kv.2.length)) then
    some (cols.map (fun kv => (kv.1, kv.2.getD i Val.none)))
  else none

/-- the `UserAddNode(tracks, node=nodes[i], attributes={…[i]}, pixels=pixels[i], force)` call of
    element `i`; the "node_id" column, when present, is an ordinary attribute of the new node -/
def rowOp (a : AddNodesArgs) (i : Nat) (node : Node) : Option Op :=
  match colAt a.cols.time i, colAt a.cols.tid i, colAt a.cols.lin i, colAt a.cols.nodeId i,
        attrRow a.cols.other i, colAt a.pixels i with
  | some time, some tid, some lin, some nid, some other, some px =>
    some (.addNode { node := node, time := time, tid := tid, lin := lin,
                     other := other ++ (match nid with
                                        | some v => [(a.idKey, Val.tok (Int.ofNat v))]
                                        | none => []),
                     pixels := px, force := a.force })
  | _, _, _, _, _, _ => none

def indexed {α : Type} (l : List α) : List (Nat × α) := List.zip (List.range l.length) l

def ctlAddNodes (s : St) (a : AddNodesArgs) : St × Out :=
  match a.cols.time with
  | none => (s, .err .key)                                   -- times = attributes[time_key]
  | some times =>
    match a.pixels with
    | some _ =>
      match a.cols.nodeId with
      | none => (s, .err .key)                               -- nodes = attributes["node_id"]
      | some ids => runOps s ((indexed ids).map (fun p => rowOp a p.1 p.2))
    | none =>
      let r := s.newNodeIds times.length
      runOps r.1 ((indexed r.2).map (fun p => rowOp a p.1 p.2))

def ctlDeleteNodes (s : St) (ns : List Node) : St × Out :=
  runOps s (ns.map (fun n => some (.delNode n)))

/-- `is_valid(edge)`: `.error .key` = `get_time` of an unknown node; `.ok none` = valid -/
def isValid (s : St) (e : Edge) : Except Err (Option Reject) :=
  match s.timeOf e.1, s.timeOf e.2 with
  | some ta, some tb =>
    -- make sure node2 is downstream of node1 (for the checks only)
    let e' : Edge := if ta > tb then (e.2, e.1) else e
    let t1 := if ta > tb then tb else ta
    let t2 := if ta > tb then ta else tb
    if s.hasEdge e' then .ok (some .exists_)
    else if t1 == t2 then .ok (some .horizontal)
    else if s.outdeg e'.1 > 1 then .ok (some .triple)
    else if t2 - t1 > 1 then
      match s.tidOf e'.2 with
      | none => .error .key
      | some tid2 =>
        if s.nodes.any (fun r => decide (t1 < r.time) && decide (r.time < t2) && r.tid == tid2)
        then .ok (some .closest) else .ok none
    else .ok none
  | _, _ => .error .key

/-- the validation loop of `add_edges`: in list order, against the state before the call; the
    first refusal (or exception) ends it -/
def checkEdges (s : St) : List Edge → Except Err (Option Reject)
  | [] => .ok none
  | e :: es =>
    match s.isValid e with
    | .error x => .error x
    | .ok (some r) => .ok (some r)
    | .ok none => checkEdges s es

def ctlAddEdges (s : St) (es : List Edge) (force : Bool) : St × Out :=
  match s.checkEdges es with
  | .error x => (s, .err x)
  | .ok (some _) => (s, .ok)                                 -- warning was printed; return
  | .ok none => runOps s (es.map (fun e => some (.addEdge e force)))

def ctlDeleteEdges (s : St) (es : List Edge) : St × Out :=
  if es.all (fun e => s.hasEdge e) then runOps s (es.map (fun e => some (.delEdge e)))
  else (s, .ok)                                              -- "Cannot delete non-existing edge!"

def ctlSwap (s : St) (n1 n2 : Node) : St × Out :=
  match s.step (.swap n1 n2) with
  | (s', .err .invalid) => (s', .ok)                         -- except InvalidActionError: warn
  | (s', .err .forceable) => (s', .ok)
  | r => r

/-- the loop of `_update_node_attrs`: one `UpdateNodeAttrs` per node, applied at construction.
    Result: the state reached, the records of the primitives applied so far (the Python list
    `actions`), and the exception that ended the loop (`none`: every node was updated). -/
def updLoop (s : St) (ns : List Node) (cols : List (Key × List Val)) : St × List PrimRec × Option Err :=
  (indexed ns).foldl (fun (acc : St × List PrimRec × Option Err) p =>
    match acc.2.2 with
    | some _ => acc
    | none =>
      match attrRow cols p.1 with
      | none => (acc.1, acc.2.1, some .other)                -- IndexError in the comprehension
      | some row =>
        match acc.1.pUpdAttrs p.2 row with
        | .ok (s', r) => (s', acc.2.1 ++ [r], none)
        | .error e => (acc.1, acc.2.1, some e)) (s, [], none)

/-- `_update_node_attrs` as repaired (`fix:` commit a7bb82b): `except Exception:
    ActionGroup(self.tracks, actions)._rollback(); raise` — the updates already applied to earlier
    nodes are inverted in reverse order before the exception propagates -/
def updRows (s : St) (ns : List Node) (cols : List (Key × List Val)) : UOut :=
  let r := s.updLoop ns cols
  match r.2.2 with
  | none => (r.1, .ok r.2.1)
  | some e => (r.1.rollback r.2.1, .error e)

/-- `_update_node_attrs` BEFORE the repair (no try/except): the exception of the k-th node
    propagates with the first k-1 nodes updated. Not used by `ctlStep`; kept for the defect witness
    `C11_controller_update_attrs_counterexample_unfixed`. -/
def updRowsUnfixed (s : St) (ns : List Node) (cols : List (Key × List Val)) : UOut :=
  let r := s.updLoop ns cols
  match r.2.2 with
  | none => (r.1, .ok r.2.1)
  | some e => (r.1, .error e)

/-- `update_node_attrs`: `action = self._update_node_attrs(…)` (may raise — then nothing below
    runs: nothing registered, no refresh); `action_history.add_new_action(action)`; `refresh.emit()` -/
def ctlUpdateNodeAttrs (s : St) (ns : List Node) (cols : List (Key × List Val)) : St × Out :=
  commit (s.updRows ns cols) none

def ctlUpdateNodeAttrsUnfixed (s : St) (ns : List Node) (cols : List (Key × List Val)) : St × Out :=
  commit (s.updRowsUnfixed ns cols) none

def ctlStep (s : St) : CtlOp → St × Out
  | .addNodes a => s.ctlAddNodes a
  | .deleteNodes ns => s.ctlDeleteNodes ns
  | .addEdges es f => s.ctlAddEdges es f
  | .deleteEdges es => s.ctlDeleteEdges es
  | .swapPredecessors a b => s.ctlSwap a b
  | .updateNodeAttrs ns cols => s.ctlUpdateNodeAttrs ns cols
  | .updateSegmentations v groups tid f => s.step (.paint v groups tid f)
  | .undo => s.step .undo
  | .redo => s.step .redo
  | .isValid e =>
    match s.isValid e with
    | .error x => (s, .err x)
    | .ok r => (s, .bool r.isNone)

/-- which silent refusal (warning + return) the call took, if any -/
def ctlSilent (s : St) : CtlOp → Option Silent
  | .addEdges es _ =>
    match s.checkEdges es with
    | .ok (some r) => some (.reject r)
    | _ => none
  | .deleteEdges es => if es.all (fun e => s.hasEdge e) then none else some .missingEdge
  | .swapPredecessors a b =>
    match (s.step (.swap a b)).2 with
    | .err .invalid => some .swapInvalid
    | .err .forceable => some .swapInvalid
    | _ => none
  | _ => none

end St
end Ft
