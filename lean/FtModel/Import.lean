/-
  FtModel.Import — executable model of the table / GEFF import pipeline (property C12).
  Core Lean only.  The pipeline is modelled AS REPAIRED by the fixes D9 (unknown parent with
  non-integer ids is rejected), D9b (the id / parent columns are found through the name map) and
  D9c (an empty-string parent cell means "no parent" also with integer ids); the unrepaired id
  remapping is kept as `mapParentOrig` / `importTableOrig` and refuted in Props/C12.lean.

  A DataFrame / property dictionary is a list of ROWS; a column operation of the Python code that
  acts element-wise (rename, copy, np.column_stack, del) is the same operation on every row.

  Python ↔ Lean
  ---------------------------------------------------------------------------------------------
  cell value the logic only moves around (time, coordinates,   Tok  (opaque token; the harness
      custom values; float/NaN/str all alike)                       gives equal values equal tokens)
  scalar property value / row of a 2-D property array          Val.sc t / Val.vec ts
  node_name_map : dict[str, str | list[str]]                   NameMap = List (String × Src),
                                                                   Src.one col | Src.many cols
  df.columns / importable_node_props                           Table.header / `header`
  pd.api.types.is_integer_dtype(df[id_col])                    Table.intIds   (TRUSTED flag, read
                                                                   from pandas by the harness)
  id cell / parent cell of a row                               Row.id : Tok / Row.parent : Option Tok
      (`none` = NaN / None / pd.NA).  Token grammar of id and parent cells (harness `idtok`):
      integer-valued number → its decimal numeral ("-1", "17"); other float → "f"+repr;
      str → "s"+text.  So  -1 ↦ "-1",  "" ↦ "s",  "-1" ↦ "s-1".
  _is_no_parent(value)                                         isNoParent / Option.none
  flatten_name_map(name_map)                                   flatten
  TracksBuilder.build: `if not self.node_name_map: raise`      validateNameMap (nmEmpty)
  validate_node_name_map: none_mappings, pos checks,           validateNameMap (missingRequired,
      non-existent properties; validate_spatial_dims_in_name_map   posMissing, posShort,
                                                                   unknownColumn, spatialDims)
  load_source: `df[id_col].is_unique`                          loadRows (dupId)
  _ensure_integer_ids: df[id].unique(); enumerate(…, start=1)  uniq / idMapping
      parent in id_mapping → new id; else no-parent encoding     mapParent (unknownParent)
      → NA; else ValueError (fix D9)
      unrepaired: df[parent].map(id_mapping)  (miss → NA)       mapParentOrig
  edge_tuples: (int(parent), int(child)) if not no-parent      parseParent / parseId (badInt),
      int(x) on an integer token                                  tokInt
                                                                   linksOf
  new_df_data loop: `if source_col in df.columns and            renameAux / renameRow
      target_key not in new_df_data`
  df_dict.pop("id"), pop("parent_id")                          popKeys (adelAll)
  _combine_multi_value_props                                   combineStep / combine
      np.column_stack(cols)                                        Val.vec (cols.flatMap flat)
      `del props[c]` for c in source_cols if c != std_key          adelAll
  validate_spatial_dims (array shapes)                         checkDims (dimsMismatch)
  validate_in_memory_geff: unique ids, nodes for edges,        validateGraph (dupNode, edgeUnknown,
      self edges, repeated edges — in this order                   selfEdge, repeatedEdge)
  geff.construct                                               Graph.mk nodes edges
  tracks_from_df(df, node_name_map=nm) / CSVTracksBuilder      importTable
  import_from_geff(store, node_name_map=nm)                    importGeff
  ---------------------------------------------------------------------------------------------
  Result: `Except ErrKind Graph` — every ErrKind is a ValueError of the real code; there is no
  partial result.

  NOT modelled (opaque carriers, see trusted base): pandas dtype inference / CSV parsing, NaN
  handling of floats, `ast.literal_eval` of "[…]" strings in component columns, zarr/GEFF I/O,
  GEFF `missing` masks (a missing value is just another token), `_preprocess_name_map`
  (legacy z/y/x keys, None / [] entries: generators never use them; the driver refuses `[]`),
  node_features/extended_name_map, track_id / lineage_id validation, segmentation.
  A key other than "id" mapped to the id column sees the renumbered ids in Python; the model
  keeps the source token (generators do this only for integer ids, where nothing is renumbered).
-/
import FtModel.Basic
namespace Ft.Import

abbrev Tok := String

/-- a property value of one node: scalar, or one row of a 2-D array -/
inductive Val where
  | sc (t : Tok)
  | vec (ts : List Tok)
  deriving DecidableEq, Repr

def Val.flat : Val → List Tok
  | .sc t => [t]
  | .vec ts => ts

/-- `values.shape[1] if values.ndim == 2 else 1` -/
def Val.dims : Val → Nat
  | .sc _ => 1
  | .vec ts => ts.length

inductive Src where
  | one (c : String)
  | many (cs : List String)
  deriving DecidableEq, Repr

/-- every source column an entry names -/
def Src.cols : Src → List String
  | .one c => [c]
  | .many cs => cs

/-- the columns an entry asks to be stacked -/
def Src.comps : Src → List String
  | .one _ => []
  | .many cs => cs

abbrev NameMap := List (String × Src)
abbrev Attrs := List (String × Val)

inductive ErrKind where
  | nmEmpty          -- "self.node_name_map must be set"
  | missingRequired  -- "The name_map cannot contain None values"
  | posMissing       -- "name_map must contain 'pos' mapping"
  | posShort         -- "Position mapping as list must have at least 2 coordinate columns"
  | unknownColumn    -- "name_map contains mappings to non-existent properties"
  | spatialDims      -- "Feature … has k values but expected d spatial dimensions. Mapping: …"
  | dupId            -- "The 'id' column must contain unique values"
  | unknownParent    -- "Some parent ids do not refer to any node id"            (fix D9)
  | badInt           -- int(...) : "invalid literal for int()"
  | dimsMismatch     -- "Feature … has k values but expected d spatial dimensions."
  | dupNode          -- "Some node ids are not unique"
  | edgeUnknown      -- "Some edges are missing nodes"
  | selfEdge         -- "Self edges found in data"
  | repeatedEdge     -- "Repeated edges found in data"
  deriving DecidableEq, Repr

structure Row where
  id : Tok
  parent : Option Tok
  cells : Attrs
  deriving DecidableEq, Repr

structure Table where
  header : List String
  intIds : Bool
  rows : List Row
  deriving Repr

/-- a row after id resolution -/
structure IRow where
  id : Int
  parent : Option Int
  cells : Attrs
  deriving DecidableEq, Repr

structure Graph where
  nodes : List (Int × Attrs)
  edges : List (Int × Int)
  deriving DecidableEq, Repr

/-! ### small helpers -/

def mapE {α β ε} (f : α → Except ε β) : List α → Except ε (List β)
  | [] => .ok []
  | a :: as =>
    match f a with
    | .error e => .error e
    | .ok b =>
      match mapE f as with
      | .error e => .error e
      | .ok bs => .ok (b :: bs)

/-- `del d[k]` on a dict (keys are unique; all bindings of `k` go) -/
def adelAll {β} (k : String) (l : List (String × β)) : List (String × β) :=
  l.filter (fun p => p.1 != k)

def nodupB {α} [BEq α] : List α → Bool
  | [] => true
  | x :: xs => !xs.contains x && nodupB xs

/-! ### name map -/

def flatten : NameMap → List (String × String)
  | [] => []
  | (k, .one c) :: r => (k, c) :: flatten r
  | (_, .many cs) :: r => cs.map (fun c => (c, c)) ++ flatten r

/-- spatial extent known before loading: `len(pos)` when "pos" is mapped to a list -/
def expectDims (nm : NameMap) : Option Nat :=
  match alook "pos" nm with
  | some (.many cs) => some cs.length
  | _ => none

/-- the "pos" checks of `validate_node_name_map` (no segmentation is given) -/
def posCheck (nm : NameMap) : Option ErrKind :=
  match alook "pos" nm with
  | none => some .posMissing
  | some (.many cs) => if cs.length < 2 then some .posShort else none
  | some (.one _) => none

/-- `if importable_node_props:` every mapped property exists -/
def colsOk (header : List String) (nm : NameMap) : Bool :=
  header.isEmpty || nm.all (fun e => e.2.cols.all (fun c => header.contains c))

/-- `validate_spatial_dims_in_name_map` -/
def spatialOk (spatial : List String) (nm : NameMap) : Bool :=
  match expectDims nm with
  | none => true
  | some d =>
    nm.all (fun e => !spatial.contains e.1 ||
      (match e.2 with
       | .many cs => cs.length == d
       | .one _ => true))

def validateNameMap (required header spatial : List String) (nm : NameMap) : Except ErrKind Unit :=
  if nm.isEmpty then .error .nmEmpty
  else if required.any (fun k => (alook k nm).isNone) then .error .missingRequired
  else
    match posCheck nm with
    | some e => .error e
    | none =>
      if !colsOk header nm then .error .unknownColumn
      else if !spatialOk spatial nm then .error .spatialDims
      else .ok ()

/-! ### rename (new_df_data loop / renamed_node_props loop) -/

def renameAux (header : List String) (cells : Attrs) :
    List (String × String) → Attrs → Attrs
  | [], acc => acc
  | (tgt, src) :: rest, acc =>
    if header.contains src && (alook tgt acc).isNone then
      match alook src cells with
      | some v => renameAux header cells rest (acc ++ [(tgt, v)])
      | none => renameAux header cells rest acc
    else renameAux header cells rest acc

def renameRow (header : List String) (nm : NameMap) (cells : Attrs) : Attrs :=
  renameAux header cells (flatten nm) []

def popKeys (ks : List String) (a : Attrs) : Attrs := ks.foldl (fun acc k => adelAll k acc) a

/-! ### _combine_multi_value_props -/

def stack (cs : List String) (props : Attrs) : Val :=
  .vec (cs.flatMap (fun c => ((alook c props).map Val.flat).getD []))

def delComps (k : String) (cs : List String) (props : Attrs) : Attrs :=
  cs.foldl (fun p c => if c != k then adelAll c p else p) props

def combineStep (props : Attrs) (e : String × Src) : Attrs :=
  match e.2 with
  | .one _ => props
  | .many cs =>
    if cs.isEmpty then props
    else if cs.all (fun c => (alook c props).isSome) then
      delComps e.1 cs (aset e.1 (stack cs props) props)
    else props

def combine (nm : NameMap) (props : Attrs) : Attrs := nm.foldl combineStep props

/-- attributes of one node: rename, drop the id columns, stack the list-mapped columns -/
def nodeAttrs (header : List String) (nm : NameMap) (pops : List String) (cells : Attrs) : Attrs :=
  combine nm (popKeys pops (renameRow header nm cells))

/-! ### validation of the loaded data -/

/-- `validate_spatial_dims`: `d` = ndim − 1 -/
def dimsOk (spatial : List String) (d : Nat) (a : Attrs) : Bool :=
  a.all (fun kv => !spatial.contains kv.1 || kv.2.dims == d)

def validateGraph (ids : List Int) (edges : List (Int × Int)) : Except ErrKind Unit :=
  if !nodupB ids then .error .dupNode
  else if edges.any (fun e => !ids.contains e.1 || !ids.contains e.2) then .error .edgeUnknown
  else if edges.any (fun e => e.1 == e.2) then .error .selfEdge
  else if !nodupB edges then .error .repeatedEdge
  else .ok ()

/-- `validate_spatial_dims` over all nodes; `d` = ndim − 1 (`none` = unknown, no shape check) -/
def dimsBad (spatial : List String) (d : Option Nat) (nodes : List (Int × Attrs)) : Bool :=
  match d with
  | none => false
  | some d => nodes.any (fun n => !dimsOk spatial d n.2)

/-- steps 3–4 of `TracksBuilder.build` on loaded, combined data -/
def finish (spatial : List String) (d : Option Nat)
    (nodes : List (Int × Attrs)) (edges : List (Int × Int)) : Except ErrKind Graph :=
  if dimsBad spatial d nodes then .error .dimsMismatch
  else
    match validateGraph (nodes.map (·.1)) edges with
    | .error e => .error e
    | .ok _ => .ok ⟨nodes, edges⟩

/-! ### CSV / DataFrame: ids -/

/-- `df[id].unique()`: first occurrences in order -/
def uniqAux : List Tok → List Tok → List Tok
  | [], seen => seen
  | t :: ts, seen => if seen.contains t then uniqAux ts seen else uniqAux ts (seen ++ [t])

def uniq (ids : List Tok) : List Tok := uniqAux ids []

/-- `{orig: new for new, orig in enumerate(unique_ids, start=1)}` -/
def idMapping (ids : List Tok) : List (Tok × Int) :=
  (uniq ids).zipIdx.map (fun p => (p.1, (p.2 : Int) + 1))

/-- `_is_no_parent` on a non-missing cell: -1, "", "-1" -/
def isNoParent (t : Tok) : Bool := t == "-1" || t == "s" || t == "s-1"

/-- repaired `_ensure_integer_ids` on one parent cell -/
def mapParent (m : List (Tok × Int)) : Option Tok → Except ErrKind (Option Int)
  | none => .ok none
  | some p =>
    match alook p m with
    | some k => .ok (some k)
    | none => if isNoParent p then .ok none else .error .unknownParent

/-- unrepaired: `df["parent_id"].map(id_mapping)` — a miss becomes NA -/
def mapParentOrig (m : List (Tok × Int)) : Option Tok → Option Int
  | none => none
  | some p => alook p m

/-- value of a run of decimal digits (`none` if empty or not all digits) -/
def digitsVal : List Char → Option Nat
  | [] => none
  | cs => cs.foldl (fun acc c => acc.bind (fun n =>
      if '0' ≤ c ∧ c ≤ '9' then some (10 * n + (c.toNat - '0'.toNat)) else none)) (some 0)

/-- `int(x)` for an integer token (decimal numeral with optional leading '-'); written out so
    that concrete instances evaluate in the kernel -/
def tokInt (s : Tok) : Option Int :=
  match s.toList with
  | '-' :: r => (digitsVal r).map (fun n => - (n : Int))
  | cs => (digitsVal cs).map (fun n => (n : Int))

/-- integer-dtype ids: `int(child_id)` -/
def parseId (t : Tok) : Except ErrKind Int :=
  match tokInt t with
  | some k => .ok k
  | none => .error .badInt

/-- integer-dtype ids: `if not _is_no_parent(parent_id): int(parent_id)` -/
def parseParent : Option Tok → Except ErrKind (Option Int)
  | none => .ok none
  | some p =>
    if isNoParent p then .ok none
    else match tokInt p with
      | some k => .ok (some k)
      | none => .error .badInt

def resolveInt (r : Row) : Except ErrKind IRow :=
  match parseId r.id with
  | .error e => .error e
  | .ok i =>
    match parseParent r.parent with
    | .error e => .error e
    | .ok p => .ok ⟨i, p, r.cells⟩

def resolveMapped (m : List (Tok × Int)) (r : Row) : Except ErrKind IRow :=
  match mapParent m r.parent with
  | .error e => .error e
  | .ok p => .ok ⟨(alook r.id m).getD 0, p, r.cells⟩

def resolveMappedOrig (m : List (Tok × Int)) (r : Row) : IRow :=
  ⟨(alook r.id m).getD 0, mapParentOrig m r.parent, r.cells⟩

/-- uniqueness check, then `_ensure_integer_ids` (repaired), then the int() conversions -/
def loadRows (t : Table) : Except ErrKind (List IRow) :=
  let ids := t.rows.map (·.id)
  if !nodupB ids then .error .dupId
  else if t.intIds then mapE resolveInt t.rows
  else mapE (resolveMapped (idMapping ids)) t.rows

def loadRowsOrig (t : Table) : Except ErrKind (List IRow) :=
  let ids := t.rows.map (·.id)
  if !nodupB ids then .error .dupId
  else if t.intIds then mapE resolveInt t.rows
  else .ok (t.rows.map (resolveMappedOrig (idMapping ids)))

/-- `edge_tuples` -/
def linksOf (rows : List IRow) : List (Int × Int) :=
  rows.filterMap (fun r => r.parent.map (fun p => (p, r.id)))

def csvRequired : List String := ["time", "id", "parent_id"]
def csvPops : List String := ["id", "parent_id"]

/-- columns of the frame after the rename loop -/
def renamedCols (header : List String) (nm : NameMap) : List String :=
  ((flatten nm).filter (fun p => header.contains p.2)).map (·.1)

/-- ndim − 1 for the CSV builder: `len(pos)`; with a single-column "pos":
    `4 if "z" in df.columns else 3` -/
def csvDims (nm : NameMap) (header : List String) : Option Nat :=
  match expectDims nm with
  | some d => some d
  | none => some (if (renamedCols header nm).contains "z" then 3 else 2)

def importRows (spatial : List String) (nm : NameMap) (header : List String)
    (rows : List IRow) : Except ErrKind Graph :=
  finish spatial (csvDims nm header)
    (rows.map (fun r => (r.id, nodeAttrs header nm csvPops r.cells))) (linksOf rows)

/-- `tracks_from_df(df, node_name_map=nm)` / `CSVTracksBuilder.build` (as repaired) -/
def importTable (spatial : List String) (nm : NameMap) (t : Table) : Except ErrKind Graph :=
  match validateNameMap csvRequired t.header spatial nm with
  | .error e => .error e
  | .ok _ =>
    match loadRows t with
    | .error e => .error e
    | .ok rows => importRows spatial nm t.header rows

/-- the same pipeline with the UNREPAIRED id remapping (defect D9) -/
def importTableOrig (spatial : List String) (nm : NameMap) (t : Table) : Except ErrKind Graph :=
  match validateNameMap csvRequired t.header spatial nm with
  | .error e => .error e
  | .ok _ =>
    match loadRowsOrig t with
    | .error e => .error e
    | .ok rows => importRows spatial nm t.header rows

/-! ### GEFF -/

/-- ndim − 1 for the GEFF builder: `len(pos)`, or the width of the stored "pos" array (read by
    `load_source` from the RENAMED props, before the columns are combined) -/
def geffDims (nm : NameMap) (renamed : List (Int × Attrs)) : Option Nat :=
  match expectDims nm with
  | some d => some d
  | none => (renamed.head?.bind (fun n => alook "pos" n.2)).map Val.dims

/-- `import_from_geff(store, node_name_map=nm)`: `header` = property names in the metadata,
    `nodes` = (id, stored properties), `edges` = stored edge ids -/
def importGeff (spatial : List String) (nm : NameMap) (header : List String)
    (nodes : List (Int × Attrs)) (edges : List (Int × Int)) : Except ErrKind Graph :=
  match validateNameMap ["time"] header spatial nm with
  | .error e => .error e
  | .ok _ =>
    let renamed := nodes.map (fun n => (n.1, renameRow header nm n.2))
    finish spatial (geffDims nm renamed) (renamed.map (fun n => (n.1, combine nm n.2))) edges

end Ft.Import
