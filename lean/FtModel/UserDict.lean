/-
  FtModel.UserDict — `UserAddNode(tracks, node, attributes, …)` as seen by a caller who keeps ONE
  attributes dict object (defect D23, fixed by commit 2ffa171 "UserAddNode works on a copy of the
  caller's attributes dict").

  `St.uAddNode` takes the attributes as a value; this file adds the third component "the caller's
  dict after the call". The state and the outcome of a call are those of `St.step (.addNode …)`,
  whatever `fixed` is: the only thing the fix changes is what is left in the caller's dict.

  Python (user_actions/user_add_node.py)                  | here
  --------------------------------------------------------+-----------------------------------------
  the caller's `attributes` dict                          | `Dict` (time, track id, lineage id: `none`
                                                          |   = key absent; every other key in `other`)
  `attributes = dict(attributes)` (2ffa171)               | `fixed = true`: the dict comes back unchanged
  before 2ffa171, in execution order:                     | `dictAfterUnfixed`
    time / track id missing, node exists: raise           |   dict unchanged
    `if has_track_id_at_time: attributes[tid_key] = next` |   `tid := some s.nextTid`
    division checks raise (forceable)                     |   only the track id write has happened
    `if lineage_key is not None and lineage_key not in    |   `s.linOn && d.lin.isNone`
        attributes:` … `if lineage_id is not None:        |   the lineage `uAddNode` determines
        attributes[lineage_key] = lineage_id`             |   (`none` is not written)
    AddNode raises ValueError (rollback)                  |   the writes above stay in the dict
  a caller loop re-using one dict, setting time, track id | `addMany` (`overwrite` before every call)
    and position before every call                        |
  the same loop with a new dict per call                  | `addManyFresh`

  Not distinguished: a lineage key that is present with value `None` (Python: `in` is true, nothing
  is written; here `lin = none` means "absent"). The position is ONE key `pk` (single position key
  configuration); a caller writing a different set of position keys per call is not covered.
  `divCheck` is a copy of the division checks inside `St.uAddNode` (that function does not expose
  its intermediate values); `FtProofs/Props/C05_R9C.lean` proves it equal to the decomposition
  `St.addNodePre` that the proofs about `uAddNode` use (`uAddNode_eq`, by `rfl`).
-/
import FtModel.Session
namespace Ft
namespace R9C
open St

/-- the caller's attributes dict -/
structure Dict where
  time : Option Nat := none
  tid : Option Nat := none
  lin : Option Nat := none
  other : List (Key × Val) := []
deriving Repr, DecidableEq

/-- the arguments `UserAddNode` reads out of the dict -/
def Dict.args (d : Dict) (node : Node) (pixels : Option (List Pix)) (force : Bool) : AddNodeArgs :=
  { node := node, time := d.time, tid := d.tid, lin := d.lin, other := d.other,
    pixels := pixels, force := force }

/-- the division checks of `UserAddNode` with their forced removals (text of `St.uAddNode`) -/
def divCheck (sN : St) (pred succ : Option Node) (force : Bool) : UOut :=
  match pred with
  | some p =>
    if sN.outdeg p == 2 then
      if !force then (sN, .error .forceable)
      else match sN.succs p with
        | [c1, c2] =>
          let b := thenUser (sN, .ok []) (fun st => st.uDeleteEdge (p, c1))
          thenUser b (fun st => st.uDeleteEdge (p, c2))
        | _ => (sN, .error .other)
    else
      match succ with
      | some sc =>
        match (sN.preds sc).head? with
        | some pos =>
          if sN.outdeg pos == 2 then
            if !force then (sN, .error .forceable)
            else thenUser (sN, .ok []) (fun st => st.uDeleteEdge (pos, sc))
          else (sN, .ok [])
        | none => (sN, .ok [])
      | none => (sN, .ok [])
  | none =>
    match succ with
    | some sc =>
      match (sN.preds sc).head? with
      | some pos =>
        if sN.outdeg pos == 2 then
          if !force then (sN, .error .forceable)
          else thenUser (sN, .ok []) (fun st => st.uDeleteEdge (pos, sc))
        else (sN, .ok [])
      | none => (sN, .ok [])
    | none => (sN, .ok [])

/-- the lineage id `UserAddNode` determines when the dict has none
    (`get_lineage_id(pred)` / `get_lineage_id(succ)` / `get_next_lineage_id()`) -/
def determinedLin (s0 : St) (pred succ : Option Node) : Option Nat :=
  match pred, succ with
  | some p, _ => s0.linOf p
  | none, some sc => s0.linOf sc
  | none, none => some s0.nextLin

/-- the caller's dict after the constructor BEFORE commit 2ffa171 has run (returned or raised) -/
def dictAfterUnfixed (s : St) (node : Node) (force : Bool) (d : Dict) : Dict :=
  match d.time, d.tid with
  | none, _ => d
  | _, none => d
  | some time, some tid0 =>
    if s.hasNode node then d else
    let newTrack := s.hasTrackAt tid0 time
    let tid := if newTrack then s.nextTid else tid0
    let d1 : Dict := if newTrack then { d with tid := some tid } else d
    let r := s.trackNeighbors tid time
    let a0 := divCheck r.1 r.2.1 r.2.2 force
    match a0.2 with
    | .error _ => d1
    | .ok _ =>
      if s.linOn && d1.lin.isNone then
        match determinedLin a0.1 r.2.1 r.2.2 with
        | some l => { d1 with lin := some l }
        | none => d1
      else d1

/-- one call `UserAddNode(tracks, node, d, pixels, force)`: new state, outcome, and the caller's
    dict afterwards -/
def addWithDict (fixed : Bool) (s : St) (node : Node) (pixels : Option (List Pix)) (force : Bool)
    (d : Dict) : St × Out × Dict :=
  let r := s.step (.addNode (d.args node pixels force))
  (r.1, r.2, if fixed then d else dictAfterUnfixed s node force d)

/-- what the caller decides per node: (node id, time, track id, position value) -/
abbrev Call := Node × Nat × Nat × Val

/-- the caller sets time, track id and position (key `pk`) and leaves every other key alone -/
def overwrite (pk : Key) (d : Dict) (c : Call) : Dict :=
  { d with time := some c.2.1, tid := some c.2.2.1, other := aset pk c.2.2.2 d.other }

/-- the caller loop with ONE dict object: returns the final state, the outcomes in call order and
    the dict as it is after the last call -/
def addMany (fixed : Bool) (pk : Key) : St → List Call → Dict → St × List Out × Dict
  | s, [], d => (s, [], d)
  | s, c :: cs, d =>
    let r := addWithDict fixed s c.1 none false (overwrite pk d c)
    let rest := addMany fixed pk r.1 cs r.2.2
    (rest.1, r.2.1 :: rest.2.1, rest.2.2)

/-- the caller loop that builds a NEW dict (a copy of the template `d0`) for every call -/
def addManyFresh (fixed : Bool) (pk : Key) : St → List Call → Dict → St × List Out
  | s, [], _ => (s, [])
  | s, c :: cs, d0 =>
    let r := addWithDict fixed s c.1 none false (overwrite pk d0 c)
    let rest := addManyFresh fixed pk r.1 cs d0
    (rest.1, r.2.1 :: rest.2)

/-- the operations the calls amount to when every call gets its own copy of the template -/
def freshOps (pk : Key) (d0 : Dict) (calls : List Call) : List Op :=
  calls.map (fun c => Op.addNode ((overwrite pk d0 c).args c.1 none false))

end R9C
end Ft
