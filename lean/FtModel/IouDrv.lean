/-
  FtModel.IouDrv — line protocol for the IoU code paths (family tag `IOU`, stateless) and the
  driver-level cross-check faithful model ↔ per-edge model.

  The driver runs BOTH models of the IoU computation on the same input:
    * `bulk`  — `St.iouComputeFaithful`      (EdgeAnnotator.compute as written, FtModel/IouFaithful.lean)
    * `model` — `St.iouCompute`              (the per-edge model the C09 theorems are about)
    * `incr`  — `St.iouUpdateIncrFaithful e` (EdgeAnnotator.update as written), for every edge
                separately, starting from the input state
  and answers `bad-model` in place of `ok` when they disagree on some edge (by
  `C09_faithful_bulk_eq` / `C09_faithful_incr_eq` this cannot happen for unique non-zero node
  ids), so the correspondence check compares the real code with the faithful model and at the
  same time with the model the proofs describe.

  input   (all tokens decimal naturals)
    <frame> <T> d_1 … d_{T·frame}  <NN> (id time)*  <NE> (u v)*
        frame = pixels per frame, T frames of flat labels (C order; T = 2 for a single frame
        pair), the nodes in graph insertion order (this fixes the `graph.edges()` order) with
        their times, the edges in insertion order (adjacency order of each node).
  output
    ok|bad-model bulk <NE> (u v val)* model <NE> (u v val)* incr <NE> (u v val)*
        val := `z` (the literal 0) | `i` inter union (the float inter/union) | `-` (no attribute)
        each edge list sorted lexicographically by (u, v)
    bad-op   malformed input: non-numeric token, wrong number of tokens, node time ≥ T,
             duplicate node id, duplicate edge, edge endpoint that is not a node
             (Python: IndexError / impossible in networkx / KeyError — never produced by the harness)
  A node id 0 is accepted: there `bulk`/`incr` give `z` (the code ignores label 0) while `model`
  counts background pixels — the answer is `bad-model` (witness `C09_faithful_hyp_nonzero_needed`).

  Wiring (not done here — existing files are not edited by this package):
    FtModel.lean : `import FtModel.IouFaithful`, `import FtModel.IouDrv`
    Main.lean    : `| "IOU" :: rest => (d, IouDrv.handle rest)`
    SessDrv.lean : `import FtModel.IouDrv`; rename `step` to `stepRaw` and add
                   `def step (s) (ts) := let (s', out) := stepRaw s ts;
                                         if IouDrv.crossCheck s' then (s', out) else (s', "bad-model")`
-/
import FtModel.IouFaithful
namespace Ft.IouDrv
open Ft

/-- the key under which the driver stores the IoU (keys 0,1,2 are reserved) -/
def key : Key := 3

def takeN : Nat → List Nat → Option (List Nat × List Nat)
  | 0, xs => some ([], xs)
  | _ + 1, [] => none
  | n + 1, x :: xs => do
      let (a, b) ← takeN n xs
      pure (x :: a, b)

def toPairs : List Nat → Option (List (Nat × Nat))
  | [] => some []
  | [_] => none
  | a :: b :: r => do
      let ps ← toPairs r
      pure ((a, b) :: ps)

def nodupB {α} [BEq α] : List α → Bool
  | [] => true
  | x :: xs => !(xs.contains x) && nodupB xs

def insertBy {α} (lt : α → α → Bool) (x : α) : List α → List α
  | [] => [x]
  | y :: ys => if lt y x then y :: insertBy lt x ys else x :: y :: ys

def sortBy {α} (lt : α → α → Bool) (xs : List α) : List α := xs.foldr (insertBy lt) []

def pairLt (a b : Nat × Nat) : Bool := a.1 < b.1 || (a.1 == b.1 && a.2 < b.2)

def showVal : Option Val → List String
  | some (.iou a b) => ["i", toString a, toString b]
  | some .zero => ["z"]
  | _ => ["-"]

def attrOf (s : St) (e : Edge) : Option Val :=
  match s.findEdge e with
  | some r => alook key r.attrs
  | none => none

def render (tag : String) (vals : List (Edge × Option Val)) : List String :=
  [tag, toString vals.length] ++
    (sortBy (fun a b => pairLt a.1 b.1) vals).flatMap (fun x =>
      [toString x.1.1, toString x.1.2] ++ showVal x.2)

def mkState (frame : Nat) (data : List Nat) (nodes edges : List (Nat × Nat)) : St :=
  { nodes := nodes.map (fun p => { id := p.1, time := p.2, tid := 0, lin := none }),
    edges := edges.map (fun e => { e := e }),
    seg := some { frame := frame, data := data },
    iouKey := some key, iouActive := true, regEdge := [key] }

/-- the three per-edge value tables -/
def tables (s : St) : List (Edge × Option Val) × List (Edge × Option Val) × List (Edge × Option Val) :=
  let es := s.edges.map (·.e)
  let bulk := s.iouComputeFaithful
  let model := s.iouCompute
  (es.map (fun e => (e, attrOf bulk e)),
   es.map (fun e => (e, attrOf model e)),
   es.map (fun e => (e, attrOf (s.iouUpdateIncrFaithful e) e)))

/-- **Cross-check for the session driver.**  `true` iff on state `s` the faithful bulk path yields
    the same edge records as `iouCompute`, and for every edge the faithful incremental path the
    same edge records as `iouUpdateEdge`. (Trivially `true` without array / key / active flag.) -/
def crossCheck (s : St) : Bool :=
  (s.iouComputeFaithful.edges == s.iouCompute.edges) &&
  s.edges.all (fun r => (s.iouUpdateIncrFaithful r.e).edges == (s.iouUpdateEdge r.e).edges)

def run (frame T : Nat) (data : List Nat) (nodes edges : List (Nat × Nat)) : String :=
  let ids := nodes.map (·.1)
  if !(nodupB ids) || !(nodupB edges) then "bad-op" else
  if nodes.any (fun p => p.2 ≥ T) then "bad-op" else
  if edges.any (fun e => !(ids.contains e.1) || !(ids.contains e.2)) then "bad-op" else
  let s := mkState frame data nodes edges
  let (b, m, i) := tables s
  let agree := b == m && i == m && crossCheck s
  joinSp ([if agree then "ok" else "bad-model"] ++ render "bulk" b ++ render "model" m ++ render "incr" i)

def handle (ts : List String) : String :=
  match parseNats ts with
  | none => "bad-op"
  | some nums =>
    match nums with
    | frame :: T :: rest =>
      match takeN (T * frame) rest with
      | some (data, nn :: rest2) =>
        match takeN (2 * nn) rest2 with
        | some (nodeToks, ne :: rest3) =>
          if rest3.length != 2 * ne then "bad-op" else
          match toPairs nodeToks, toPairs rest3 with
          | some nodes, some edges => run frame T data nodes edges
          | _, _ => "bad-op"
        | _ => "bad-op"
      | _ => "bad-op"
    | _ => "bad-op"

end Ft.IouDrv
