/-
  Driver for the History model, instantiated with a toy but non-trivial action semantics
  used by the correspondence check of C02:
    state  σ = Nat  (an opaque state token supplied by the harness)
    action α = (pre, post) : the tokens of the states the recorded transition led from/to
    inverse of (pre, post) applied anywhere yields state `pre` and records (post, pre).
  The harness hashes the real canonical tracks state to a token, so the model's predicted
  token sequence can be compared with the real one after every call.
-/
import FtModel.History
namespace Ft.HistDrv

abbrev Act := Nat × Nat

structure St where
  h : Hist Act := {}
  cur : Nat := 0
  tl : Timeline Nat := ⟨[0], 0⟩

def inv (_s : Nat) (a : Act) : Nat × Act := (a.1, (a.2, a.1))

def render (s : St) (ret : String) : String :=
  joinSp [ret, toString s.cur, toString s.h.undo.length, toString s.h.redo.length,
          toString (s.tl.states.getD s.tl.cur 0), toString s.tl.cur, toString s.tl.states.length]

/-- ops: `init s0` | `edit s'` | `undo` | `redo` -/
def step (s : St) : List String → St × String
  | ["init", t] => match t.toNat? with
      | some n => let s' : St := { h := {}, cur := n, tl := ⟨[n], 0⟩ }; (s', render s' "ok")
      | none => (s, "bad-op")
  | ["edit", t] => match t.toNat? with
      | some n =>
        let s' : St := { h := s.h.add (s.cur, n), cur := n, tl := s.tl.edit n }
        (s', render s' "ok")
      | none => (s, "bad-op")
  | ["undo"] =>
      let (h, c, b) := s.h.undoStep inv s.cur
      let (tl, _) := s.tl.undo
      let s' : St := { h := h, cur := c, tl := tl }
      (s', render s' (if b then "true" else "false"))
  | ["redo"] =>
      let (h, c, b) := s.h.redoStep inv s.cur
      let (tl, _) := s.tl.redo
      let s' : St := { h := h, cur := c, tl := tl }
      (s', render s' (if b then "true" else "false"))
  | _ => (s, "bad-op")

end Ft.HistDrv
