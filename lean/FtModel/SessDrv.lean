/-
  FtModel.SessDrv — line protocol for the session model (family tag `S`).

  Token grammar (all naturals unless noted; `opt x` = `-1` for none, integer otherwise):
    val     := `t` int | `m` n p1…pn | `i` inter union | `z` | `n`
    attrs   := n (key val)*
    pixels  := n p1…pn            optpixels := `-` | pixels
  Lines:
    init  NN (id time tid optlin attrs)*  NE (u v attrs)*  seg: `-` | frame ndata d*
          linOn  K posKeys  K regNode  K regEdge  K rpAvail  K rpActive  optIouKey iouActive
          NT (tid K nodes)*  NL (lin K nodes)*  maxTid maxLin counter  assignFlag
    addedge u v force | deledge u v | addnode id opttime opttid optlin attrs optpixels force
    delnode n | swap a b | paint v NG (pixels old)* curTid force | updattrs n attrs
    undo | redo | enable K keys recompute | disable K keys
    qnb tid time | qhas tid time | qnew n | show
  Answer: `<out> | <canonical state>`.
-/
import FtModel.Session
import FtModel.IouDrv
namespace Ft.SessDrv
open Ft

abbrev P := StateT (List String) Option

def tok : P String := do
  let ts ← get
  match ts with
  | [] => failure
  | t :: r => set r; pure t

def nat : P Nat := do
  let t ← tok
  match t.toNat? with
  | some n => pure n
  | none => failure

def int : P Int := do
  let t ← tok
  match t.toInt? with
  | some n => pure n
  | none => failure

def optNat : P (Option Nat) := do
  let i ← int
  pure (if i < 0 then none else some i.toNat)

def bool : P Bool := do
  let n ← nat
  pure (n != 0)

def many {α} (p : P α) : Nat → P (List α)
  | 0 => pure []
  | n + 1 => do
    let x ← p
    let xs ← many p n
    pure (x :: xs)

def listOf {α} (p : P α) : P (List α) := do
  let n ← nat
  many p n

def val : P Val := do
  let t ← tok
  match t with
  | "t" => do let i ← int; pure (Val.tok i)
  | "m" => do let ps ← listOf nat; pure (Val.mask ps)
  | "i" => do let a ← nat; let b ← nat; pure (Val.iou a b)
  | "z" => pure Val.zero
  | "n" => pure Val.none
  | _ => failure

def attrs : P (List (Key × Val)) := listOf (do let k ← nat; let v ← val; pure (k, v))

def optPixels : P (Option (List Pix)) := do
  let ts ← get
  match ts with
  | "-" :: r => set r; pure none
  | _ => do let ps ← listOf nat; pure (some ps)

def nodeRec : P NodeRec := do
  let id ← nat; let time ← nat; let tid ← nat; let lin ← optNat; let o ← attrs
  pure { id := id, time := time, tid := tid, lin := lin, other := o }

def edgeRec : P EdgeRec := do
  let u ← nat; let v ← nat; let a ← attrs
  pure { e := (u, v), attrs := a }

def segP : P (Option Seg) := do
  let ts ← get
  match ts with
  | "-" :: r => set r; pure none
  | _ => do
    let f ← nat
    let d ← listOf nat
    pure (some { frame := f, data := d })

def book : P (List (Nat × List Node)) :=
  listOf (do let id ← nat; let ns ← listOf nat; pure (id, ns))

def initP : P St := do
  let nodes ← listOf nodeRec
  let edges ← listOf edgeRec
  let seg ← segP
  let linOn ← bool
  let posKeys ← listOf nat
  let regNode ← listOf nat
  let regEdge ← listOf nat
  let rpAvail ← listOf nat
  let rpActive ← listOf nat
  let iouKey ← optNat
  let iouActive ← bool
  let t2n ← book
  let l2n ← book
  let maxTid ← nat
  let maxLin ← nat
  let counter ← nat
  let assign ← bool
  let s : St := { nodes := nodes, edges := edges, seg := seg, linOn := linOn, posKeys := posKeys,
                  regNode := regNode, regEdge := regEdge, rpAvail := rpAvail, rpActive := rpActive,
                  iouKey := iouKey, iouActive := iouActive, t2n := t2n, l2n := l2n,
                  maxTid := maxTid, maxLin := maxLin, counter := counter }
  pure (if assign then (s.assignTracklets).assignLineages else s)

def opP : P Op := do
  let t ← tok
  match t with
  | "addedge" => do let u ← nat; let v ← nat; let f ← bool; pure (.addEdge (u, v) f)
  | "deledge" => do let u ← nat; let v ← nat; pure (.delEdge (u, v))
  | "addnode" => do
      let id ← nat; let time ← optNat; let tid ← optNat; let lin ← optNat
      let o ← attrs; let px ← optPixels; let f ← bool
      pure (.addNode { node := id, time := time, tid := tid, lin := lin, other := o, pixels := px, force := f })
  | "delnode" => do let n ← nat; pure (.delNode n)
  | "swap" => do let a ← nat; let b ← nat; pure (.swap a b)
  | "paint" => do
      let v ← nat
      let gs ← listOf (do let ps ← listOf nat; let old ← nat; pure (ps, old))
      let tid ← nat; let f ← bool
      pure (.paint v gs tid f)
  | "updattrs" => do let n ← nat; let a ← attrs; pure (.updAttrs n a)
  | "undo" => pure .undo
  | "redo" => pure .redo
  | "enable" => do let ks ← listOf nat; let rc ← bool; pure (.enable ks rc)
  | "disable" => do let ks ← listOf nat; pure (.disable ks)
  | "qnb" => do let a ← nat; let b ← nat; pure (.qNeighbors a b)
  | "qhas" => do let a ← nat; let b ← nat; pure (.qHasTrack a b)
  | "qnew" => do let n ← nat; pure (.qNewIds n)
  | "show" => pure .nop
  | _ => failure

/-! ### canonical printing -/

def insBy {α} (le : α → α → Bool) (x : α) : List α → List α
  | [] => [x]
  | y :: ys => if le x y then x :: y :: ys else y :: insBy le x ys

def sortBy {α} (le : α → α → Bool) (l : List α) : List α := l.foldr (insBy le) []

def showVal : Val → List String
  | .tok i => ["t", toString i]
  | .mask ps => "m" :: toString ps.length :: ps.map toString
  | .iou a b => ["i", toString a, toString b]
  | .zero => ["z"]
  | .none => ["n"]

def showAttrs (a : List (Key × Val)) : List String :=
  let a' := sortBy (fun x y => x.1 ≤ y.1) (a.filter (fun kv => kv.2 != Val.none))
  toString a'.length :: a'.flatMap (fun kv => toString kv.1 :: showVal kv.2)

def showOptNat : Option Nat → String
  | some n => toString n
  | none => "-1"

def showBook (m : List (Nat × List Node)) : List String :=
  let m' := sortBy (fun x y => x.1 ≤ y.1) m
  toString m'.length :: m'.flatMap (fun p =>
    let ns := sortNat p.2
    toString p.1 :: toString ns.length :: ns.map toString)

def showState (s : St) : List String :=
  let ns := sortBy (fun (x y : NodeRec) => x.id ≤ y.id) s.nodes
  let es := sortBy (fun (x y : EdgeRec) => x.e.1 < y.e.1 || (x.e.1 == y.e.1 && x.e.2 ≤ y.e.2)) s.edges
  ["N", toString ns.length] ++
  ns.flatMap (fun r => [toString r.id, toString r.time, toString r.tid, showOptNat r.lin] ++ showAttrs r.other) ++
  ["E", toString es.length] ++
  es.flatMap (fun r => [toString r.e.1, toString r.e.2] ++ showAttrs r.attrs) ++
  ["G"] ++ (match s.seg with
    | none => ["-"]
    | some g => toString g.frame :: toString g.data.length :: g.data.map toString) ++
  ["T"] ++ showBook s.t2n ++ ["L"] ++ showBook s.l2n ++
  ["M", toString s.nextTid, toString s.nextLin, toString s.counter] ++
  ["H", toString s.hist.undo.length, toString s.hist.redo.length] ++
  ["R", toString s.refreshes, showOptNat s.lastPayload] ++
  ["F", if s.linOn then "1" else "0"] ++
  (let l := sortNat s.regNode; toString l.length :: l.map toString) ++
  (let l := sortNat s.regEdge; toString l.length :: l.map toString) ++
  (let l := sortNat s.rpActive; toString l.length :: l.map toString) ++
  [if s.iouActive then "1" else "0"]

def showOut : Out → List String
  | .ok => ["ok"]
  | .err e => ["err:" ++ e.toStr]
  | .bool b => [if b then "true" else "false"]
  | .nodes l => "nodes" :: l.map showOptNat

/-- successor order (insertion order of adjacency) is observable through forced edits; print it
    for every node with ≥ 2 children -/
def showSuccOrder (s : St) : List String :=
  let ns := sortNat (s.nodes.map (·.id))
  let multi := ns.filter (fun n => s.outdeg n ≥ 2)
  "O" :: toString multi.length :: multi.flatMap (fun n =>
    let sc := s.succs n
    toString n :: toString sc.length :: sc.map toString)

def stepRaw (s : St) (ts : List String) : St × String :=
  match ts with
  | "init" :: rest =>
    match (initP.run rest) with
    | some (s', []) => (s', joinSp (["ok", "|"] ++ showState s' ++ showSuccOrder s'))
    | _ => (s, "bad-op")
  | ["reg", kind, k] =>
    -- harness-level configuration change (not an `Op`): a custom feature is registered in the
    -- FeatureDict mid-session (`tracks.features[...] = …`, `.update`, `|=`, `setdefault`)
    match k.toNat? with
    | some key =>
      let s' : St :=
        if kind == "node" then { s with regNode := if s.regNode.contains key then s.regNode else s.regNode ++ [key] }
        else { s with regEdge := if s.regEdge.contains key then s.regEdge else s.regEdge ++ [key] }
      (s', joinSp (["ok", "|"] ++ showState s' ++ showSuccOrder s'))
    | none => (s, "bad-op")
  | "delnodepx" :: rest =>
    -- `UserDeleteNode(tracks, node, pixels=<known mask>)`: same user action as `delnode`, with the
    -- optional pixels argument given (top level: history entry + refresh, via `St.commit`)
    match ((do let n ← nat; let px ← listOf nat; pure (n, px)) : P (Node × List Pix)).run rest with
    | some ((n, px), []) =>
      let (s', out) := St.commit (s.uDeleteNode n (some px)) none
      (s', joinSp (showOut out ++ ["|"] ++ showState s' ++ showSuccOrder s'))
    | _ => (s, "bad-op")
  | _ =>
    match (opP.run ts) with
    | some (op, []) =>
      let (s', out) := s.step op
      (s', joinSp (showOut out ++ ["|"] ++ showState s' ++ showSuccOrder s'))
    | _ => (s, "bad-op")

/-- One protocol step, plus the run-both check of the IoU code paths: on the state reached, the
    model of `EdgeAnnotator.compute/_iou_update/update` *as written* (`FtModel/IouFaithful.lean`:
    frame-pair grouping, removal from the edge list, leftovers ↦ 0, first entry of the masked list)
    must give the same edge records as the per-edge functions the session model uses (they are
    proved equal for duplicate-free graphs with non-zero ids: `C09_faithful_bulk_eq`,
    `C09_faithful_incr_eq`). A mismatch is answered `bad-model` instead of a state. -/
def step (s : St) (ts : List String) : St × String :=
  let (s', out) := stepRaw s ts
  if IouDrv.crossCheck s' then (s', out) else (s', "bad-model")

end Ft.SessDrv
