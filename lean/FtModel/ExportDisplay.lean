/-
  FtModel.ExportDisplay — executable model of the DISPLAY-NAME CSV layout
  (`export_to_csv(tracks, file, use_display_names=True)`) and of its re-import with
  `tracks_from_df(df, node_name_map={"id": "ID", "parent_id": "Parent ID", "time": <col>,
  "pos": [<cols>], "track_id": <col>, "lineage_id": <col>, k: <col or list> …})`.
  Core Lean only.  Table level, like FtModel/Export.lean: values are opaque tokens (`Val`),
  node-feature keys are interned (`Key`); COLUMN NAMES and the standard keys of the importer are
  real strings (`Name`), because the exporter builds names (`f"{base}_{i}"`) and the importer's
  behaviour depends on which strings coincide.

  Python ↔ Lean
  ---------------------------------------------------------------------------------------------
  --- csv/_export.py, branch `use_display_names` ------------------------------------------------
  a value of `tracks.features` (Feature TypedDict) as     FeatSpec   (key, key string, role,
      far as the exporter reads it                             num_values, value_names, display_name)
  `num_values = feature_dict.get("num_values", 1)`          colsOfSpec
      > 1: value_names | display_name if list of that          .many names
           length | f"{display_name or key}_{i}"                (`suffixed`)
      else: display_name or key                                 .one name
      (a list display name of another length / on a            none  = outside the model (Python
       single-value feature is formatted with repr())                   repr of a list): `unmodelled`
  `column_map[feature_name] = names`                        FeatDesc.cols ; colMapGet (a feature whose
                                                            KEY is "id" / "parent_id" overwrites
                                                            `column_map["id"]` / `["parent_id"]`)
  header = ["ID", "Parent ID"] + names of every feature     headerD
  tracks.get_node_attr(node, key)  (None when absent)       attrOf   (time / track id / lineage id are
                                                            ints: `AVal.nat`; position and every
                                                            other attribute token lists: `AVal.vals`)
  row = {} ; row[id col] = node ; row[parent col] = …       rowWrites (the sequence of `row[c] = v`),
      cols is a list: value None → continue (D19)             writes: .many, none ↦ no write
                      zip(cols, value, strict=True)           writes: .many ↦ cs.zip cells ;
                      (assert list/tuple, equal lengths)      writeOk (false = the export raises)
      else: row[cols] = value                                 writes: .one ↦ one write, None ↦ empty
  later assignment to the same name overwrites              rawRow = foldl `aset`
  pd.DataFrame(rows, columns=header).to_csv(index=False)    complete header (a name the row dict lacks
                                                            ↦ empty cell; a name that occurs twice in
                                                            the header shows the same cell twice)
  node_ids None → graph.nodes() | ancestors closure         Export.exported s sel
  --- csv/_import.py  CSVTracksBuilder.load_source + _tracks_builder.py  build -------------------
  node_name_map : dict[str, str | list[str]]                NameMap = List (Name × Cols)
  _preprocess_name_map (legacy z/y/x → "pos"; drop [])      prepMap
  validate_node_name_map: required time/id/parent_id,       validMap   (false = ValueError)
      "pos" mapped (no segmentation here), list ≥ 2,
      every mapped column exists in the header
  `df[id_col].is_unique`                                    idsUnique
  flatten_name_map: str ↦ (std_key, col);                   flattenMap
      list ↦ (col, col) for every col
  `if source in df.columns and target not in new_df`        renameCols / keepStep  (FIRST writer of a
                                                            target wins, later ones are dropped)
  new_df[target] = df[source]                               loadRow   (pd.read_csv of a file with a
                                                            repeated name renames the 2nd to "X.1":
                                                            a lookup finds the first, as `alook`)
  NaN → None ; df_dict.pop("id") ; pop("parent_id")         decodeRowD (empty cell = NaN = no value)
  parent cell NaN / "" / -1 → no edge                       parent `.empty` ↦ none
  _combine_multi_value_props: for (std_key, [cols]):        combineStep / combine ; stackCells
      any col missing → skip; props[std_key] =              (a component without value makes the
      column_stack; del every col ≠ std_key                  node's stacked value NaN-valued: treated
                                                             as "no value", like harness `_snap_feats`)
  validate_in_memory_geff: unique ids, edges name           graphOk    (false = ValueError)
      nodes, no self edges, no repeated edges
  create_props_metadata(prop) on an all-None column         loadOk     (false = AttributeError)
  validate_tracklets / validate_lineages (geff library):    parameters `tv` / `lv` (true = passed); failed ⇒
      failed ⇒ `del node_props[...]`, ids recomputed        the node's `tid` / `lin` is `none`
  geff.construct + SolutionTracks(pos_attr="pos",           nodeOfProps (time and pos required; track /
      time_attr="time")                                     lineage id loaded when mapped: `some`)
  (Order in Python: loadOk's check runs inside load_source, before the combination; both only
  raise, so the order is immaterial for the result.)
  NOT modelled: `_ensure_integer_ids` for non-integer ids (driver: `unmodelled`), ast.literal_eval
  of string cells, spatial_dims checks, segmentation / `export_seg` / `color_dict`, a stored value
  that is itself NaN (pandas writes an empty cell), a numpy array as the value of a list-named
  feature (`assert isinstance(value, (list, tuple))`).  Float formatting is outside Lean
  (harness: ulp snap).  "No value" on the import side: pandas reads an empty cell as NaN and the
  real importer stores NaN (a list of NaN for a stacked key); the harness canonicalises NaN ≙ no
  value, and so does this model (`DNode.feats` lists only attributes with a value).
-/
import FtModel.Export
namespace Ft.ExportDisplay
open Ft Ft.Export

abbrev Name := String
abbrev DictD := List (Name × Cell)

inductive Role where
  | time | pos | axis (i : Nat) | tid | lin | other
  deriving DecidableEq, Repr

inductive DName where
  | str (s : Name) | list (l : List Name)
  deriving DecidableEq, Repr

/-- `column_map[feature]`: one column name, or a list of them -/
inductive Cols where
  | one (c : Name) | many (cs : List Name)
  deriving DecidableEq, Repr

def Cols.names : Cols → List Name
  | .one c => [c]
  | .many cs => cs

/-- a `Feature` of the registry as the exporter reads it -/
structure FeatSpec where
  key : Key                          -- interned key (lookup in `NodeRec.feats`)
  keyName : Name                     -- the key itself
  role : Role                        -- which attribute of `NodeRec` the key names
  numValues : Option Nat             -- feature_dict.get("num_values")
  valueNames : Option (List Name)    -- feature_dict.get("value_names")
  displayName : Option DName         -- feature_dict.get("display_name")
  deriving DecidableEq, Repr

/-- feature description after name resolution: key, role, column name(s) -/
structure FeatDesc where
  key : Key
  keyName : Name
  role : Role
  cols : Cols
  deriving DecidableEq, Repr

def FeatDesc.names (f : FeatDesc) : List Name := f.cols.names

/-- `[f"{base}_{i}" for i in range(nv)]` -/
def suffixed (base : Name) (nv : Nat) : List Name :=
  (List.range nv).map (fun i => base ++ "_" ++ toString i)

def colsOfSpec (f : FeatSpec) : Option Cols :=
  let nv := f.numValues.getD 1
  if nv > 1 then
    match f.valueNames with
    | some vn => some (.many vn)
    | none =>
      match f.displayName with
      | some (.list l) => if l.length = nv then some (.many l) else none
      | some (.str b) => some (.many (suffixed b nv))
      | none => some (.many (suffixed f.keyName nv))
  else
    match f.displayName with
    | some (.str b) => some (.one b)
    | some (.list _) => none
    | none => some (.one f.keyName)

def describe (f : FeatSpec) : Option FeatDesc :=
  (colsOfSpec f).map (fun c => ⟨f.key, f.keyName, f.role, c⟩)

def describeAll (fs : List FeatSpec) : Option (List FeatDesc) := allSome (fs.map describe)

/-! ### export -/

def idName : Name := "ID"
def parentName : Name := "Parent ID"

/-- a stored attribute value: an int, or a (list of) value token(s) -/
inductive AVal where
  | nat (n : Nat) | vals (vs : List Val)
  deriving DecidableEq, Repr

/-- `tracks.get_node_attr(node, key)` -/
def attrOf (n : NodeRec) (f : FeatDesc) : Option AVal :=
  match f.role with
  | .time => some (.nat n.time)
  | .tid => some (.nat n.tid)
  | .lin => some (.nat n.lin)
  | .pos => match n.pos with
            | [] => none
            | p => some (.vals p)
  | .axis i => (n.pos[i]?).map (fun v => .vals [v])
  | .other => (alook f.key n.feats).map .vals

/-- `row[col] = value` for a single-value feature -/
def singleCell : Option AVal → Cell
  | none => .empty
  | some (.nat k) => .nat k
  | some (.vals [v]) => .val v
  | some (.vals vs) => .vals vs

/-- the assignments `row[c] = v` one feature makes -/
def writes (n : NodeRec) (f : FeatDesc) : List (Name × Cell) :=
  match f.cols with
  | .one c => [(c, singleCell (attrOf n f))]
  | .many cs =>
    match attrOf n f with
    | some (.vals vs) => cs.zip (vs.map Cell.val)
    | _ => []

/-- false = the loop body raises (`assert isinstance(value, (list, tuple))`, `zip(strict=True)`) -/
def writeOk (n : NodeRec) (f : FeatDesc) : Bool :=
  match f.cols, attrOf n f with
  | .many cs, some (.vals vs) => cs.length == vs.length
  | .many _, some (.nat _) => false
  | _, _ => true

/-- `column_map[k]` after the header loop, for `k` = "id" / "parent_id" (initial value `dflt`);
    `none`: the entry is a list, `row[list] = …` raises -/
def colMapGet (feats : List FeatDesc) (k : Name) (dflt : Name) : Option Name :=
  match feats.reverse.find? (fun f => f.keyName == k) with
  | none => some dflt
  | some f => match f.cols with
              | .one c => some c
              | .many _ => none

def parentCell (s : Tracks) (n : NodeRec) : Cell :=
  match parentOf s n.id with
  | some p => .nat p
  | none => .empty

def rowWrites (s : Tracks) (feats : List FeatDesc) (n : NodeRec) : List (Name × Cell) :=
  [((colMapGet feats "id" idName).getD idName, Cell.nat n.id),
   ((colMapGet feats "parent_id" parentName).getD parentName, parentCell s n)] ++
    feats.flatMap (writes n)

def put (r : DictD) (p : Name × Cell) : DictD := aset p.1 p.2 r

/-- the row dict after all assignments -/
def rawRow (s : Tracks) (feats : List FeatDesc) (n : NodeRec) : DictD :=
  (rowWrites s feats n).foldl put []

def headerD (feats : List FeatDesc) : List Name :=
  [idName, parentName] ++ feats.flatMap FeatDesc.names

/-- `pd.DataFrame([row], columns=header)` -/
def complete (header : List Name) (raw : DictD) : DictD :=
  header.map (fun c => (c, (alook c raw).getD .empty))

def rowD (s : Tracks) (feats : List FeatDesc) (n : NodeRec) : DictD :=
  complete (headerD feats) (rawRow s feats n)

structure CsvD where
  header : List Name
  rows : List DictD
  deriving DecidableEq, Repr

def encodeCsvDisplay (s : Tracks) (feats : List FeatDesc) (sel : Option (List Nat)) : CsvD :=
  ⟨headerD feats, (exported s sel).map (rowD s feats)⟩

/-- the export returns normally (otherwise AssertionError / ValueError / TypeError) -/
def exportOk (s : Tracks) (feats : List FeatDesc) (sel : Option (List Nat)) : Bool :=
  ((exported s sel).isEmpty ||
    ((colMapGet feats "id" idName).isSome && (colMapGet feats "parent_id" parentName).isSome)) &&
  (exported s sel).all (fun n => feats.all (writeOk n))

/-! ### re-import -/

abbrev NameMap := List (Name × Cols)

def mapKeys (m : NameMap) : List Name := m.map Prod.fst

/-- `_preprocess_name_map` -/
def prepMap (m : NameMap) : NameMap :=
  let m1 :=
    if (mapKeys m).contains "pos" then m
    else
      let comps := ["z", "y", "x"].filterMap (fun c =>
        match alook c m with
        | some (.one src) => some src
        | _ => none)
      let m' := ["z", "y", "x"].foldl (fun acc c => adel c acc) m
      if 2 ≤ comps.length then m' ++ [("pos", Cols.many comps)] else m'
  m1.filter (fun e => e.2 != Cols.many [])

/-- `flatten_name_map` : (target key, source column) -/
def flattenMap (m : NameMap) : List (Name × Name) :=
  m.flatMap (fun e =>
    match e.2 with
    | .one c => [(e.1, c)]
    | .many cs => cs.map (fun c => (c, c)))

def targets (m : NameMap) : List Name := (flattenMap m).map Prod.fst
def sources (m : NameMap) : List Name := (flattenMap m).map Prod.snd

/-- `validate_node_name_map` (no segmentation) -/
def validMap (header : List Name) (m : NameMap) : Bool :=
  ["time", "id", "parent_id"].all (fun k => (mapKeys m).contains k) &&
  (match alook "pos" m with
   | some (.many cs) => decide (2 ≤ cs.length)
   | some (.one _) => true
   | none => false) &&
  (header.isEmpty || (sources m).all (fun c => header.contains c))

def keepStep (header : List Name) (acc : List (Name × Name)) (ts : Name × Name) :
    List (Name × Name) :=
  if header.contains ts.2 && !((acc.map Prod.fst).contains ts.1) then acc ++ [ts] else acc

/-- the (target, source) pairs that make it into `new_df_data` -/
def renameCols (header : List Name) (fl : List (Name × Name)) : List (Name × Name) :=
  fl.foldl (keepStep header) []

def loadRow (kept : List (Name × Name)) (d : DictD) : DictD :=
  kept.map (fun ts => (ts.1, (alook ts.2 d).getD .empty))

def cellVals : Cell → Option (List Val)
  | .val v => some [v]
  | .vals vs => some vs
  | _ => none

def cellNat : Cell → Option Nat
  | .nat n => some n
  | _ => none

def cellVal : Cell → Option Val
  | .val v => some v
  | _ => none

/-- `np.column_stack` of one node's components; a component without value ↦ no value -/
def stackCells (cs : List Cell) : Cell :=
  match allSome (cs.map cellVal) with
  | some vs => .vals vs
  | none => .empty

def hasKey (p : DictD) (k : Name) : Bool := (p.map Prod.fst).contains k

def combineStep (props : DictD) (e : Name × Cols) : DictD :=
  match e.2 with
  | .one _ => props
  | .many cs =>
    if cs.isEmpty || !(cs.all (hasKey props)) then props
    else
      cs.foldl (fun p c => if c != e.1 then adel c p else p)
        (aset e.1 (stackCells (cs.map (fun c => (alook c props).getD .empty))) props)

/-- `_combine_multi_value_props` -/
def combine (m : NameMap) (props : DictD) : DictD := m.foldl combineStep props

def coreKeys : List Name := ["time", "pos", "track_id", "lineage_id"]

/-- a re-imported node: `tid` / `lin` are `none` when not loaded (the importer recomputes them);
    `feats`: every other loaded attribute that has a value, by key STRING; `ints`: integer-valued
    ones (none in a display file unless columns collide) -/
structure DNode where
  id : Nat
  time : Nat
  tid : Option Nat
  lin : Option Nat
  pos : List Val
  feats : List (Name × List Val)
  ints : List (Name × Nat)
  deriving DecidableEq, Repr

structure CsvDTracks where
  nodes : List DNode
  edges : List (Nat × Nat)
  deriving DecidableEq, Repr

def otherFeats (props : DictD) : List (Name × List Val) :=
  props.filterMap (fun kc =>
    if coreKeys.contains kc.1 then none else (cellVals kc.2).map (fun vs => (kc.1, vs)))

def otherInts (props : DictD) : List (Name × Nat) :=
  props.filterMap (fun kc =>
    if coreKeys.contains kc.1 then none else (cellNat kc.2).map (fun k => (kc.1, k)))

/-- `tv` / `lv`: outcome of geff's `validate_tracklets` / `validate_lineages` on the loaded ids
    (library calls: parameters).  On failure `validate_in_memory_geff` deletes the property and
    the importer recomputes the ids: `none`. -/
def nodeOfProps (tv lv : Bool) (id : Nat) (props : DictD) : Option DNode :=
  match (alook "time" props).bind cellNat, (alook "pos" props).bind cellVals with
  | some t, some p =>
    some ⟨id, t, if tv then (alook "track_id" props).bind cellNat else none,
          if lv then (alook "lineage_id" props).bind cellNat else none, p,
          otherFeats props, otherInts props⟩
  | _, _ => none

/-- parent cell: `some (some p)` a parent, `some none` no parent, `none` not modelled -/
def parentOfCell : Cell → Option (Option Nat)
  | .nat p => some (some p)
  | .empty => some none
  | _ => none

/-- one row: the node and its parent link -/
def decodeRowD (tv lv : Bool) (kept : List (Name × Name)) (m : NameMap) (d : DictD) :
    Option (DNode × Option Nat) :=
  let props0 := loadRow kept d
  match (alook "id" props0).bind cellNat, (alook "parent_id" props0).bind parentOfCell with
  | some i, some par =>
    (nodeOfProps tv lv i (combine m (adel "parent_id" (adel "id" props0)))).map (fun nd => (nd, par))
  | _, _ => none

def linkOf (r : DNode × Option Nat) : Option (Nat × Nat) := r.2.map (fun p => (p, r.1.id))

/-- `validate_in_memory_geff`, graph-structure part -/
def graphOk (ids : List Nat) (edges : List (Nat × Nat)) : Bool :=
  decide ids.Nodup && edges.all (fun e => ids.contains e.1 && e.1 != e.2) && decide edges.Nodup

def idsUnique (idc : Name) (c : CsvD) : Bool :=
  !(c.header.contains idc) || decide (c.rows.map (fun d => (alook idc d).getD .empty)).Nodup

/-- no cell of the column carries a value -/
def columnEmpty (rows : List DictD) (src : Name) : Bool :=
  rows.all (fun d => (alook src d).getD .empty == Cell.empty)

/-- `create_props_metadata` on every loaded column but id / parent id: a column that is None in
    every row is an object array of None and `values[0].dtype` raises AttributeError -/
def loadOk (kept : List (Name × Name)) (rows : List DictD) : Bool :=
  rows.isEmpty ||
    kept.all (fun ts => ts.1 == "id" || ts.1 == "parent_id" || !columnEmpty rows ts.2)

/-- `tracks_from_df(df, node_name_map=m0)` on the file `c`; `none` = the importer raises (or the
    case is not modelled, see the header); `tv` / `lv` see `nodeOfProps` -/
def decodeCsvDisplay (tv lv : Bool) (m0 : NameMap) (c : CsvD) : Option CsvDTracks :=
  let m := prepMap m0
  if !validMap c.header m then none
  else
    match alook "id" m with
    | some (.one idc) =>
      if !idsUnique idc c then none
      else if !loadOk (renameCols c.header (flattenMap m)) c.rows then none
      else
        match allSome (c.rows.map (decodeRowD tv lv (renameCols c.header (flattenMap m)) m)) with
        | none => none
        | some rs =>
          let nodes := rs.map Prod.fst
          let edges := rs.filterMap linkOf
          if graphOk (nodes.map DNode.id) edges then some ⟨nodes, edges⟩ else none
    | _ => none

/-! ### the key map that corresponds to a registry -/

def stdKey (f : FeatDesc) : Name :=
  match f.role with
  | .time => "time"
  | .pos => "pos"
  | .axis _ => "pos"
  | .tid => "track_id"
  | .lin => "lineage_id"
  | .other => f.keyName

def oneName : Cols → Option Name
  | .one c => some c
  | .many _ => none

/-- per-axis position storage: the columns of the axis features, in axis order -/
def axisCols (nax : Nat) (feats : List FeatDesc) : List Name :=
  (List.range nax).filterMap (fun i =>
    (feats.find? (fun f => f.role == Role.axis i)).bind (fun f => oneName f.cols))

/-- some node of `ns` carries a value of the feature (a column that is empty in every row cannot
    be loaded, see `loadOk`; the harness maps exactly the features with a value) -/
def live (ns : List NodeRec) (f : FeatDesc) : Bool :=
  ns.any (fun n => (alook f.key n.feats).isSome)

def entriesOf (nax : Nat) (feats : List FeatDesc) (ns : List NodeRec) (f : FeatDesc) : NameMap :=
  match f.role with
  | .axis 0 => [("pos", Cols.many (axisCols nax feats))]
  | .axis _ => []
  | .other => if live ns f then [(f.keyName, f.cols)] else []
  | _ => [(stdKey f, f.cols)]

/-- `{"id": "ID", "parent_id": "Parent ID", "time": <col>, "pos": [<cols>], "track_id": <col>,
     "lineage_id": <col>, k: <col or list> …}` in registry order; `ns` = the exported nodes -/
def nameMapOf (nax : Nat) (feats : List FeatDesc) (ns : List NodeRec) : NameMap :=
  [("id", Cols.one idName), ("parent_id", Cols.one parentName)] ++
    feats.flatMap (entriesOf nax feats ns)

end Ft.ExportDisplay
