/-
  FtModel.Annot — annotators: TrackAnnotator bookkeeping + relabel walk + bulk id assignment,
  RegionpropsAnnotator (update / compute), EdgeAnnotator (update / compute), feature switching.

  Python (src/funtracks/annotators/…)                 | here
  ----------------------------------------------------+---------------------------------------
  _add_to_/_remove_from_/_update_tracklet_bookkeeping | `bookAddT / bookRemT / bookMoveT`
  … lineage …                                         | `bookAddL / bookRemL / bookMoveL`
  _handle_update_track_ids (BFS, one flag)            | `walk`
  _handle_add_node / _handle_delete_node              | `trackOnAdd / trackOnDelete`
  _assign_ids/_assign_tracklet_ids/_assign_lineage_ids| `assignTracklets / assignLineages`
  get_track_neighbors / has_track_id_at_time          | `trackNeighbors / hasTrackAt`
  get_next_track_id / get_next_lineage_id             | `nextTid / nextLin`
  Tracks._get_new_node_ids                            | `newNodeIds`
  RegionpropsAnnotator.update / compute               | `rpUpdate / rpCompute`
  EdgeAnnotator.update (one edge) / compute           | `iouOf`, `iouUpdateEdge`, `iouCompute`
  Tracks.enable_features / disable_features           | `enable / disable`
-/
import FtModel.Graph
namespace Ft
namespace St

/-! ### TrackAnnotator bookkeeping -/

def bookRem (m : List (Nat × List Node)) (nodes : List Node) (id : Nat) : List (Nat × List Node) :=
  match alook id m with
  | none => m                       -- warning branch: id not found, nothing removed
  | some l =>
    -- `list.remove(node)` removes the first occurrence of each node
    let l' := nodes.foldl (fun acc n => acc.erase n) l
    if l'.isEmpty then adel id m else aset id l' m

def bookAddT (s : St) (nodes : List Node) (id : Nat) : St :=
  let cur := (alook id s.t2n).getD []
  { s with t2n := aset id (cur ++ nodes) s.t2n, maxTid := if id > s.maxTid then id else s.maxTid }

def bookRemT (s : St) (nodes : List Node) (id : Nat) : St :=
  { s with t2n := bookRem s.t2n nodes id }

def bookAddL (s : St) (nodes : List Node) (id : Nat) : St :=
  let cur := (alook id s.l2n).getD []
  let cur' := nodes.foldl (fun acc n => if acc.contains n then acc else acc ++ [n]) cur
  { s with l2n := aset id cur' s.l2n, maxLin := if id > s.maxLin then id else s.maxLin }

def bookRemL (s : St) (nodes : List Node) (id : Nat) : St :=
  { s with l2n := bookRem s.l2n nodes id }

def bookMoveT (s : St) (nodes : List Node) (old new : Nat) : St :=
  (s.bookRemT nodes old).bookAddT nodes new

def bookMoveL (s : St) (nodes : List Node) (old : Option Nat) (new : Nat) : St :=
  let s1 := match old with
    | some o => s.bookRemL nodes o
    | none => s
  s1.bookAddL nodes new

def nextTid (s : St) : Nat := s.maxTid + 1
def nextLin (s : St) : Nat := s.maxLin + 1

/-- stable insertion sort of nodes by time (Python `list.sort(key=get_time)`) -/
def insByTime (s : St) (x : Node) : List Node → List Node
  | [] => [x]
  | y :: ys => if (s.timeOf y).getD 0 ≤ (s.timeOf x).getD 0 then y :: insByTime s x ys else x :: y :: ys

def sortByTime (s : St) (l : List Node) : List Node :=
  l.foldl (fun acc x => insByTime s x acc) []

/-- the scan of `get_track_neighbors` over the time-sorted candidates -/
def scanNeighbors (s : St) (time : Nat) : List Node → Option Node → Option Node × Option Node
  | [], pred => (pred, none)
  | c :: cs, pred =>
    let tc := (s.timeOf c).getD 0
    if tc < time then scanNeighbors s time cs (some c)
    else if tc > time then (pred, some c)
    else scanNeighbors s time cs pred

/-- `get_track_neighbors`: also sorts the bookkeeping list in place (returned state) -/
def trackNeighbors (s : St) (tid time : Nat) : St × Option Node × Option Node :=
  match alook tid s.t2n with
  | none => (s, none, none)
  | some [] => (s, none, none)
  | some cands =>
    let sorted := s.sortByTime cands
    let s' := { s with t2n := aset tid sorted s.t2n }
    let r := scanNeighbors s time sorted none
    (s', r.1, r.2)

def hasTrackAt (s : St) (tid time : Nat) : Bool :=
  match alook tid s.t2n with
  | none => false
  | some l => l.any (fun n => s.timeOf n == some time)

/-- `_get_new_node_ids(n)`; the inner `while graph.has_node(_id)` loop gets fuel |nodes|+1 -/
def freshFrom (s : St) (fuel : Nat) (id counter : Nat) : Nat × Nat :=
  match fuel with
  | 0 => (id, counter)
  | f + 1 => if s.hasNode id then freshFrom s f counter (counter + 1) else (id, counter)

def newNodeIds (s : St) (n : Nat) : St × List Node :=
  let ids := (List.range n).map (fun i => s.counter + i)
  let c0 := s.counter + n
  let r := ids.foldl (fun (acc : List Node × Nat) id =>
      let p := freshFrom s (s.nodes.length + 1) id acc.2
      (acc.1 ++ [p.1], p.2)) ([], c0)
  ({ s with counter := r.2 }, r.1)

/-! ### the relabel walk of `_handle_update_track_ids` -/

structure WalkAcc where
  s : St
  flag : Bool
  tNodes : List Node
  lNodes : List Node
  next : List Node

def walkNode (old new : Nat) (newLin : Option Nat) (updLin : Bool) (a : WalkAcc) (n : Node) : WalkAcc :=
  let s1 := if updLin then a.s.setLin n newLin else a.s
  let lN := if updLin then a.lNodes ++ [n] else a.lNodes
  let (s2, flag, tN) :=
    if a.flag then
      if s1.tidOf n == some old then (s1.setTid n new, true, a.tNodes ++ [n])
      else (s1, false, a.tNodes)
    else (s1, false, a.tNodes)
  { s := s2, flag := flag, tNodes := tN, lNodes := lN, next := a.next ++ s2.succs n }

def walkLevels (old new : Nat) (newLin : Option Nat) (updLin : Bool) :
    Nat → WalkAcc → WalkAcc
  | 0, a => a
  | fuel + 1, a =>
    match a.next with
    | [] => a
    | curr =>
      let a' := curr.foldl (walkNode old new newLin updLin) { a with next := [] }
      walkLevels old new newLin updLin fuel a'

/-- TrackAnnotator.update(UpdateTrackIDs) -/
def walk (s : St) (start : Node) (oldT newT : Nat) (oldL newL : Option Nat) : St :=
  let updLin := newL.isSome && s.linOn
  let a := walkLevels oldT newT newL updLin (s.nodes.length + 1)
             { s := s, flag := true, tNodes := [], lNodes := [], next := [start] }
  let s1 := a.s.bookMoveT a.tNodes oldT newT
  match updLin, newL with
  | true, some nl => s1.bookMoveL a.lNodes oldL nl
  | _, _ => s1

def trackOnAdd (s : St) (r : NodeRec) : St :=
  let s1 := s.bookAddT [r.id] r.tid
  match s.linOn, r.lin with
  | true, some l => s1.bookAddL [r.id] l
  | _, _ => s1

/-- `_handle_delete_node` reads the ids from the *saved attributes* of the DeleteNode action -/
def trackOnDelete (s : St) (saved : NodeRec) : St :=
  let s1 := s.bookRemT [saved.id] saved.tid
  match s.linOn, saved.lin with
  | true, some l => s1.bookRemL [saved.id] l
  | _, _ => s1

/-! ### bulk id assignment (`nx.weakly_connected_components` discovery order) -/

/-- undirected neighbours in an edge list -/
def nbrs (es : List Edge) (n : Node) : List Node :=
  (es.filter (·.1 == n)).map (·.2) ++ (es.filter (·.2 == n)).map (·.1)

/-- connected component of `n` (BFS closure with fuel) -/
def component (es : List Edge) (fuel : Nat) (seen : List Node) : List Node → List Node
  | [] => seen
  | frontier@(_ :: _) =>
    match fuel with
    | 0 => seen
    | f + 1 =>
      let new := (frontier.flatMap (nbrs es)).eraseDups.filter (fun x => !seen.contains x)
      component es f (seen ++ new) new

def components (nodes : List Node) (es : List Edge) : List (List Node) :=
  nodes.foldl (fun acc n =>
    if acc.any (·.contains n) then acc
    else acc ++ [component es (nodes.length + 1) [n] [n]]) []

def trackletEdges (s : St) : List Edge :=
  (s.edges.map (·.e)).filter (fun e => s.outdeg e.1 < 2)

/-- `_assign_ids`: ids 1,2,… in component order; resets the bookkeeping map and maximum -/
def assignTracklets (s : St) : St :=
  let comps := components (s.nodes.map (·.id)) s.trackletEdges
  let idx := List.zip (List.range comps.length) comps
  let s1 := idx.foldl (fun st p => p.2.foldl (fun st2 n => st2.setTid n (p.1 + 1)) st) s
  { s1 with t2n := idx.map (fun p => (p.1 + 1, p.2)), maxTid := comps.length }

def assignLineages (s : St) : St :=
  let comps := components (s.nodes.map (·.id)) (s.edges.map (·.e))
  let idx := List.zip (List.range comps.length) comps
  let s1 := idx.foldl (fun st p => p.2.foldl (fun st2 n => st2.setLin n (some (p.1 + 1))) st) s
  { s1 with l2n := idx.map (fun p => (p.1 + 1, p.2)), maxLin := comps.length }

/-! ### RegionpropsAnnotator -/

/-- incremental: AddNode / UpdateNodeSeg on `n` recompute every active key from the current mask -/
def rpUpdate (s : St) (n : Node) : St :=
  match s.seg, s.timeOf n with
  | some g, some t =>
    if s.rpActive.isEmpty then s else
    let ps := g.pixelsOf t n
    let v := if ps.isEmpty then Val.none else Val.mask ps
    s.rpActive.foldl (fun st k => st.setOther n k v) s
  | _, _ => s

/-- bulk: every frame, every label of the frame that is a node, every requested active key -/
def rpCompute (s : St) (keys : List Key) : St :=
  match s.seg with
  | none => s
  | some g =>
    let ks := keys.filter (s.rpActive.contains ·)
    if ks.isEmpty then s else
    (List.range g.nframes).foldl (fun st t =>
      (g.labelsOf t).foldl (fun st2 l =>
        if st2.hasNode l then ks.foldl (fun st3 k => st3.setOther l k (Val.mask (g.pixelsOf t l))) st2
        else st2) st) s

/-! ### EdgeAnnotator -/

def iouOf (s : St) (e : Edge) : Val :=
  match s.seg, s.timeOf e.1, s.timeOf e.2 with
  | some g, some t1, some t2 =>
    let a := g.offsetsOf t1 e.1
    let b := g.offsetsOf t2 e.2
    let inter := (a.filter (b.contains ·)).length
    if a.isEmpty || b.isEmpty || inter == 0 then Val.zero
    else Val.iou inter (a.length + b.length - inter)
  | _, _, _ => Val.zero

def iouUpdateEdge (s : St) (e : Edge) : St :=
  match s.iouKey with
  | some k => if s.iouActive && s.seg.isSome then s.setEdgeAttr e k (s.iouOf e) else s
  | none => s

/-- UpdateNodeSeg: all in-edges then all out-edges of the node -/
def iouUpdateNode (s : St) (n : Node) : St :=
  let es := (s.edges.filter (·.e.2 == n)).map (·.e) ++ (s.edges.filter (·.e.1 == n)).map (·.e)
  es.foldl iouUpdateEdge s

/-- bulk (as repaired): edges grouped by the frames of their endpoints; per edge the label-pair
    table of those two frames gives exactly `iouOf` -/
def iouCompute (s : St) : St :=
  (s.edges.map (·.e)).foldl iouUpdateEdge s

/-! ### feature switching -/

def annotKeys (s : St) : List Key :=
  [keyTid, keyLin] ++ s.rpAvail ++ (match s.iouKey with | some k => [k] | none => [])

/-- `Tracks.enable_features(keys, recompute)`; `none` = KeyError (nothing changed) -/
def enable (s : St) (keys : List Key) (recompute : Bool) : Option St :=
  if keys.any (fun k => !(s.annotKeys.contains k)) then none else
  let rpNew := keys.filter (fun k => s.rpAvail.contains k && !(s.rpActive.contains k))
  let iouOn := match s.iouKey with | some k => keys.contains k | none => false
  let s1 := { s with
    rpActive := s.rpActive ++ rpNew.eraseDups,
    iouActive := s.iouActive || iouOn,
    linOn := s.linOn || keys.contains keyLin,
    regNode := s.regNode ++ ((keys.filter (fun k => s.rpAvail.contains k && !(s.regNode.contains k))).eraseDups),
    regEdge := match s.iouKey with
      | some k => if keys.contains k && !(s.regEdge.contains k) then s.regEdge ++ [k] else s.regEdge
      | none => s.regEdge }
  if !recompute then some s1 else
  let s2 := s1.rpCompute keys
  let s3 := if iouOn then s2.iouCompute else s2
  let s4 := if keys.contains keyTid then s3.assignTracklets else s3
  let s5 := if keys.contains keyLin && s4.linOn then s4.assignLineages else s4
  some s5

/-- `Tracks.disable_features(keys)`; `none` = KeyError. (Track id is never disabled by the
    harness: the model keeps it permanently active.) -/
def disable (s : St) (keys : List Key) : Option St :=
  if keys.any (fun k => !(s.annotKeys.contains k)) then none else
  some { s with
    rpActive := s.rpActive.filter (fun k => !(keys.contains k)),
    iouActive := match s.iouKey with
      | some k => if keys.contains k then false else s.iouActive
      | none => s.iouActive,
    linOn := if keys.contains keyLin then false else s.linOn,
    regNode := s.regNode.filter (fun k => !(keys.contains k)),
    regEdge := s.regEdge.filter (fun k => !(keys.contains k)) }

end St
end Ft
