/-
  Driver of the extended import model (family tag `IMX`, stateless).  Work package R8I.

  Tokens as in FtModel/ImportDrv.lean (its parsers are reused): strings hex-encoded ("-" = empty),
  naturals / integers decimal, lists `n x1 … xn`.
    val     := s <tok> | v <list tok>
    cells   := <list (col val)>
    rentry  := <key> 0 <col>            value is the string <col>
             | <key> 1 <list col>       value is a list (the EMPTY list `1 0` is allowed)
             | <key> 2                  value is None
    rmap    := <list rentry>            a dict: a key may occur only once (else `bad-op`)
    emap    := ~ | rmap                 `~` = `builder.edge_name_map is None`
  input (after the family tag)
    csv  <list spatialKey> rmap <list headerCol> <intIds 0|1> <list row>
            row := <idTok> <parentTok | ~> cells          (exactly the `IM csv fixed` conventions:
                                                           `~` = missing parent cell)
            = `tracks_from_df(df, node_name_map=rmap)` / `CSVTracksBuilder` with `node_name_map = rmap`
    geff <b|w> <list spatialKey> rmap <list headerCol> emap <list edgeHeaderCol> <list node> <list xedge>
            node  := <int id> cells                       cells = the stored values of the node
            xedge := <int u> <int v> cells                cells = the stored edge property values of
                                                          that edge; a property whose `missing` flag
                                                          is set on the edge is left out
            b = builder level: `GeffTracksBuilder(); read_header(store); node_name_map = rmap;
                edge_name_map = emap (left None for `~`); build(store)`
            w = `import_from_geff(store, node_name_map=rmap, edge_name_map=emap)`: entries whose value
                is None or the string "None" are dropped first; `~` is outside the model here
                (the wrapper would use the map inferred by prepare()) → `bad-op`
            headerCol / edgeHeaderCol = `metadata.node_props_metadata` / `edge_props_metadata` keys
  output
    csv:   as family IM:  ok nodes <n> (id <k> (key val)*)* edges <m> (u v)*   |  err:<ErrKind>
    geff:  ok nodes <n> (id <k> (key val)*)* edges <m> (u v <k> (key val)*)*
               nodes by id, edges lexicographically, attributes by hex key
           err:<ErrKind>              the ErrKinds of family IM, and
           err:edgeUnknownColumn      "edge_name_map contains mappings to non-existent properties"
           err:keyCollision           "Feature keys cannot be shared between nodes and edges"
           err:GroupNotFoundError     zarr.errors.GroupNotFoundError (a subclass of ValueError; the
                                      harness should classify by exact type name first): a mapped
                                      property of a store that has no node / no edge property at all
           (the edge-map variant of "… spatial dimensions. Mapping: …" is err:spatialDims)
    bad-op                 malformed input / outside the input language
-/
import FtModel.ImportExt
import FtModel.ImportDrv
namespace Ft.ImportExt
open Ft.Import
open Ft.NameMap (P pNat pStr pMany pList hex)

def pRawEntry : P (String × RawSrc) := fun ts => do
  let (k, r) ← pStr ts
  let (kind, r) ← pNat r
  match kind with
  | 0 => let (c, r) ← pStr r; pure ((k, RawSrc.one c), r)
  | 1 => let (cs, r) ← pList pStr r; pure ((k, RawSrc.many cs), r)
  | 2 => pure ((k, RawSrc.none), r)
  | _ => Option.none

def pRawMap : P RawNameMap := fun ts => do
  let (m, r) ← pList pRawEntry ts
  if nodupB (m.map (·.1)) then pure (m, r) else Option.none

def pEMap : P (Option RawNameMap)
  | "~" :: r => some (Option.none, r)
  | ts => (pRawMap ts).map (fun x => (some x.1, x.2))

def pXEdge : P ((Int × Int) × Attrs) := fun ts => do
  let (u, r) ← pInt ts
  let (v, r) ← pInt r
  let (cs, r) ← pList pCell r
  pure (((u, v), cs), r)

def renderErrX : ErrX → String
  | .base e => renderErr e
  | .edgeUnknownColumn => "err:edgeUnknownColumn"
  | .keyCollision => "err:keyCollision"
  | .storeMissingProp => "err:GroupNotFoundError"

def renderX : Except ErrX GraphX → String
  | .error e => renderErrX e
  | .ok g =>
    let ns := sortBy (fun x y => x.1 ≤ y.1) g.nodes
    let es := sortBy (fun x y => edgeLe x.1 y.1) g.edges
    joinSp (["ok", "nodes", toString ns.length] ++
      ns.flatMap (fun n => toString n.1 :: renderAttrs n.2) ++
      ["edges", toString es.length] ++
      es.flatMap (fun e => toString e.1.1 :: toString e.1.2 :: renderAttrs e.2))

def handleCsvX (ts : List String) : String :=
  let parsed : Option (List String × RawNameMap × List String × Nat × List Row) := do
    let (sp, r) ← pList pStr ts
    let (nm, r) ← pRawMap r
    let (hd, r) ← pList pStr r
    let (flag, r) ← pNat r
    let (rows, r) ← pList pRow r
    if r.isEmpty then pure (sp, nm, hd, flag, rows) else Option.none
  match parsed with
  | some (sp, nm, hd, flag, rows) =>
    if flag > 1 then "bad-op"
    else if !rectangular hd (rows.map (·.cells)) then "bad-op"
    else if flag == 1 && !intTokens rows then "bad-op"
    else render (importTableRaw sp nm ⟨hd, flag == 1, rows⟩)
  | Option.none => "bad-op"

def handleGeffX (wrapper : Bool) (ts : List String) : String :=
  let parsed : Option (List String × RawNameMap × List String × Option RawNameMap × List String ×
      List (Int × Attrs) × List ((Int × Int) × Attrs)) := do
    let (sp, r) ← pList pStr ts
    let (nm, r) ← pRawMap r
    let (hd, r) ← pList pStr r
    let (em, r) ← pEMap r
    let (ehd, r) ← pList pStr r
    let (nodes, r) ← pList pNode r
    let (edges, r) ← pList pXEdge r
    if r.isEmpty then pure (sp, nm, hd, em, ehd, nodes, edges) else Option.none
  match parsed with
  | some (sp, nm, hd, em, ehd, nodes, edges) =>
    if wrapper then
      match em with
      | Option.none => "bad-op"
      | some e => renderX (importFromGeffX sp nm e hd ehd nodes edges)
    else renderX (importGeffX sp nm em hd ehd nodes edges)
  | Option.none => "bad-op"

def handle : List String → String
  | "csv" :: rest => handleCsvX rest
  | "geff" :: "b" :: rest => handleGeffX false rest
  | "geff" :: "w" :: rest => handleGeffX true rest
  | _ => "bad-op"

end Ft.ImportExt
