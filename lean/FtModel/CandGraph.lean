/-
  FtModel.CandGraph — executable model of funtracks.candidate_graph (property C18).
  Core Lean only.

  Python ↔ Lean
  ---------------------------------------------------------------------------------------
  node_frame_dict : dict[int, list]              FrameDict = List (Nat × List Node), insertion order
  d[t] / `t in d`                                dget d t  (first binding; keys are unique in a dict)
  `if t not in d: d[t] = []` ; d[t].append(n)    dappend d t n
  d[t].extend(ns)  (after the same guard)        dextend d t ns
  sorted(d.keys())                               sortedKeys d            (insertion sort `sortNat`)
  cand_graph.add_edge(u, v)  (DiGraph: idempotent)  addEdge es (u,v)
  KDTree(prev).query_ball_tree(KDTree(next), r) + the zip/for loops that add the edges
                                                 ballQuery near prev next   (`near u v` stands for
                                                 "distance(pos u, pos v) ≤ max_edge_distance";
                                                 scipy's answer is TRUSTED to be all such pairs)
  add_cand_edges, repaired loop (fix D7):        frameStep / addCandEdges
      for frame in sorted(d): if frame+1 not in d: continue
          prev = d[frame]; next = d[frame+1]; add all near pairs
  add_cand_edges, unrepaired loop:               frameStepOrig / addCandEdgesOrig
      prev = d[frames[0]]   (IndexError when d is empty → `none`)
      for frame in frames: if frame+1 not in d: continue   (prev NOT advanced)
          next = d[frame+1]; add all near pairs (prev, next); prev = next
  `if not node_frame_dict: node_frame_dict = _compute_node_frame_dict(cand_graph)`
                                                 orCompute nodes d / computeNodeFrameDict
  nodes_from_points_list(points, scale)          nodesFromPoints s0 times
      id = row index, time = row[0]*scale[0]; positions are values the logic only moves
      around (they enter through `near`); rows are given by their (integer) frame number
  nodes_from_segmentation(seg, scale)            nodesFromSeg shape frames
      for t, frame: for region in regionprops(frame)  (labels > 0, ascending): labelsOf
          if label already a node: raise ValueError("Duplicate values found among nodes") → none
          node(label): time t, area = pixel count (·∏scale, numerics checked by the harness),
          pos = centroid = coordinate sums / count (sums modelled, division/scale in harness)
      if nodes_in_frame: d[t].extend(nodes_in_frame)
  _compute_ious(f1, f2)                          computeIous f1 f2 : entries ((l1,l2),(inter,union))
      for every pair of non-zero labels sharing a pixel: inter = #shared pixels,
      union = size1 + size2 − inter   (np.unique's ordering of the distinct pairs is immaterial:
      they are distinct keys of a dict)
  _get_iou_dict(seg)  (multiseg=False)           getIouDict frames : pair-keyed assoc list
      for f in range(T-1): dict[l1][l2] = iou     (nested dict ≙ pair key; later overwrites earlier)
  add_iou(cand_graph, seg, d)                    addIou frames d edges
      for frame in sorted(d): if frame+1 not in d: continue
          for u in d[frame]: for v in d[frame+1]:
              iou = ious.get(u,{}).get(v,0); if (u,v) in edges: edges[(u,v)]["iou"] = iou
      IoU value: `none` = the literal default 0, `some (i,u)` = the float i/u
  compute_graph_from_points_list / _from_seg     graphFromPoints / graphFromSeg
-/
import FtModel.Basic
namespace Ft.CandGraph

abbrev Edge := Node × Node
abbrev FrameDict := List (Nat × List Node)

/-! ### frame dictionary -/

def dget (d : FrameDict) (t : Nat) : Option (List Node) := alook t d

def keys (d : FrameDict) : List Nat := d.map Prod.fst

/-- `if t not in d: d[t] = []` followed by `d[t].extend(ns)` -/
def dextend : FrameDict → Nat → List Node → FrameDict
  | [], t, ns => [(t, ns)]
  | (t', l) :: r, t, ns => if t' == t then (t', l ++ ns) :: r else (t', l) :: dextend r t ns

def dappend (d : FrameDict) (t : Nat) (n : Node) : FrameDict := dextend d t [n]

def sortedKeys (d : FrameDict) : List Nat := sortNat (keys d)

/-- `_compute_node_frame_dict`: nodes in graph insertion order, each with its time -/
def computeNodeFrameDict (nodes : List (Node × Nat)) : FrameDict :=
  nodes.foldl (fun d nt => dappend d nt.2 nt.1) []

def orCompute (nodes : List (Node × Nat)) (d : FrameDict) : FrameDict :=
  if d.isEmpty then computeNodeFrameDict nodes else d

/-! ### edges -/

def addEdge (es : List Edge) (e : Edge) : List Edge := if es.contains e then es else es ++ [e]

/-- all (u,v), u ∈ prev, v ∈ next, within the ball — what the KD-tree query plus the two
    nested loops add -/
def ballQuery (near : Node → Node → Bool) (prev next : List Node) : List Edge :=
  prev.flatMap (fun u => (next.filter (near u)).map (fun v => (u, v)))

/-- one iteration of the repaired loop -/
def frameStep (near : Node → Node → Bool) (d : FrameDict) (es : List Edge) (frame : Nat) :
    List Edge :=
  match dget d (frame + 1) with
  | none => es
  | some next =>
    -- `frame` is a key of `d` (the loop runs over the keys), see `dget_of_mem_keys`
    let prev := (dget d frame).getD []
    (ballQuery near prev next).foldl addEdge es

def addCandEdgesD (near : Node → Node → Bool) (d : FrameDict) (es : List Edge) : List Edge :=
  (sortedKeys d).foldl (frameStep near d) es

/-- `add_cand_edges(cand_graph, max_edge_distance, node_frame_dict)` on a graph without edges -/
def addCandEdges (near : Node → Node → Bool) (nodes : List (Node × Nat)) (d : FrameDict) :
    List Edge :=
  addCandEdgesD near (orCompute nodes d) []

/-- one iteration of the unrepaired loop: state = (prev_node_ids, edges) -/
def frameStepOrig (near : Node → Node → Bool) (d : FrameDict)
    (st : List Node × List Edge) (frame : Nat) : List Node × List Edge :=
  match dget d (frame + 1) with
  | none => st
  | some next => (next, (ballQuery near st.1 next).foldl addEdge st.2)

def addCandEdgesOrigD (near : Node → Node → Bool) (d : FrameDict) (es : List Edge) :
    Option (List Edge) :=
  match sortedKeys d with
  | [] => none                                  -- frames[0] → IndexError
  | f0 :: fs =>
    some ((f0 :: fs).foldl (frameStepOrig near d) ((dget d f0).getD [], es)).2

def addCandEdgesOrig (near : Node → Node → Bool) (nodes : List (Node × Nat)) (d : FrameDict) :
    Option (List Edge) :=
  addCandEdgesOrigD near (orCompute nodes d) []

/-! ### nodes from a points list -/

/-- rows given by their frame numbers; id = row index; time = frame * scale[0] -/
def nodesFromPointsAux (s0 : Nat) : List Nat → Nat → List (Node × Nat) → FrameDict →
    List (Node × Nat) × FrameDict
  | [], _, nodes, d => (nodes, d)
  | t :: rest, i, nodes, d =>
    nodesFromPointsAux s0 rest (i + 1) (nodes ++ [(i, t * s0)]) (dappend d (t * s0) i)

def nodesFromPoints (s0 : Nat) (times : List Nat) : List (Node × Nat) × FrameDict :=
  nodesFromPointsAux s0 times 0 [] []

def graphFromPoints (near : Node → Node → Bool) (s0 : Nat) (times : List Nat) :
    List (Node × Nat) × List Edge :=
  let (nodes, d) := nodesFromPoints s0 times
  (nodes, addCandEdges near nodes d)

/-! ### nodes from a label array -/

def dedup : List Nat → List Nat
  | [] => []
  | x :: xs => if xs.contains x then dedup xs else x :: dedup xs

/-- labels of the regions of one frame, as regionprops lists them: non-zero, ascending -/
def labelsOf (frame : List Nat) : List Nat := sortNat (dedup (frame.filter (· != 0)))

/-- C-order coordinates of a flat index -/
def unravel : List Nat → Nat → List Nat
  | [], _ => []
  | _ :: ds, i => let stride := ds.foldl (· * ·) 1; (i / stride) :: unravel ds (i % stride)

def addVec : List Nat → List Nat → List Nat
  | x :: xs, y :: ys => (x + y) :: addVec xs ys
  | _, _ => []

/-- per-axis coordinate sums of the pixels of label `l` (centroid = sums / area) -/
def posSum (shape : List Nat) (frame : List Nat) (l : Nat) : List Nat :=
  (frame.zipIdx.filter (fun p => p.1 == l)).foldl (fun acc p => addVec acc (unravel shape p.2))
    (shape.map (fun _ => 0))

structure Det where
  id : Node
  time : Nat
  area : Nat            -- pixel count
  psum : List Nat       -- per-axis coordinate sums
  deriving Repr, DecidableEq

/-- inner loop over the regions of frame `t` -/
def addRegions (shape : List Nat) (frame : List Nat) (t : Nat) :
    List Nat → List Det → Option (List Det)
  | [], nodes => some nodes
  | l :: ls, nodes =>
    if (nodes.map Det.id).contains l then none      -- ValueError("Duplicate values …")
    else addRegions shape frame t ls (nodes ++ [⟨l, t, frame.count l, posSum shape frame l⟩])

def nodesFromSegAux (shape : List Nat) : List (List Nat) → Nat → List Det → FrameDict →
    Option (List Det × FrameDict)
  | [], _, nodes, d => some (nodes, d)
  | frame :: rest, t, nodes, d =>
    let ls := labelsOf frame
    match addRegions shape frame t ls nodes with
    | none => none
    | some nodes' =>
      nodesFromSegAux shape rest (t + 1) nodes' (if ls.isEmpty then d else dextend d t ls)

def nodesFromSeg (shape : List Nat) (frames : List (List Nat)) : Option (List Det × FrameDict) :=
  nodesFromSegAux shape frames 0 [] []

def detTimes (nodes : List Det) : List (Node × Nat) := nodes.map (fun n => (n.id, n.time))

/-! ### IoU -/

/-- `none` = the literal default `0`; `some (i, u)` = the float `i / u` -/
abbrev IouVal := Option (Nat × Nat)
abbrev IouDict := List ((Nat × Nat) × (Nat × Nat))

def dedupP : List (Nat × Nat) → List (Nat × Nat)
  | [] => []
  | x :: xs => if xs.contains x then dedupP xs else x :: dedupP xs

/-- pixel positions (as label pairs) where both frames are non-zero -/
def nzPairs (f1 f2 : List Nat) : List (Nat × Nat) :=
  (f1.zip f2).filter (fun p => p.1 != 0 && p.2 != 0)

def computeIous (f1 f2 : List Nat) : IouDict :=
  let nz := nzPairs f1 f2
  (dedupP nz).map (fun p =>
    let inter := nz.count p
    (p, (inter, f1.count p.1 + f2.count p.2 - inter)))

def insertAll (acc : IouDict) (entries : IouDict) : IouDict :=
  entries.foldl (fun a e => aset e.1 e.2 a) acc

def getIouDict (frames : List (List Nat)) : IouDict :=
  (List.range (frames.length - 1)).foldl
    (fun acc f => insertAll acc (computeIous (frames.getD f []) (frames.getD (f + 1) []))) []

abbrev EdgeIou := List (Edge × IouVal)

/-- the two inner loops of `add_iou` for one frame pair -/
def iouPairs (prev next : List Node) : List Edge :=
  prev.flatMap (fun u => next.map (fun v => (u, v)))

def iouSet (ious : IouDict) (edges : List Edge) (attrs : EdgeIou) (e : Edge) : EdgeIou :=
  if edges.contains e then aset e (alook e ious) attrs else attrs

def iouStep (ious : IouDict) (d : FrameDict) (edges : List Edge) (attrs : EdgeIou)
    (frame : Nat) : EdgeIou :=
  match dget d (frame + 1) with
  | none => attrs
  | some next => (iouPairs ((dget d frame).getD []) next).foldl (iouSet ious edges) attrs

/-- `add_iou(cand_graph, segmentation, node_frame_dict)`; result: edge ↦ iou attribute
    (edges not visited have no "iou" attribute: absent from the list) -/
def addIou (frames : List (List Nat)) (d : FrameDict) (edges : List Edge) : EdgeIou :=
  (sortedKeys d).foldl (iouStep (getIouDict frames) d edges) []

structure SegGraph where
  nodes : List Det
  dict : FrameDict
  edges : List Edge
  iou : EdgeIou          -- [] when iou was not requested
  deriving Repr

/-- `compute_graph_from_seg(seg, max_edge_distance, iou, scale)`; `none` = ValueError -/
def graphFromSeg (near : Node → Node → Bool) (shape : List Nat) (frames : List (List Nat))
    (iou : Bool) : Option SegGraph :=
  match nodesFromSeg shape frames with
  | none => none
  | some (nodes, d) =>
    let es := addCandEdges near (detTimes nodes) d
    some ⟨nodes, d, es, if iou then addIou frames d es else []⟩

end Ft.CandGraph
