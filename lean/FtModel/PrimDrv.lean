/-
  FtModel.PrimDrv — line protocol for the seven PRIMITIVE actions (family tag `SP`), applied
  directly as `funtracks.actions.*` constructors are (no user-level validation, any graph —
  also one that is not a forest), and for `action.inverse()` of the last applied primitive.

  Lines (token grammar of SessDrv):
    init …                       same as `S init`
    addedge u v attrs            AddEdge(tracks, (u, v), attributes)
    deledge u v                  DeleteEdge(tracks, (u, v))
    addnode id time tid optlin attrs optpixels
                                 AddNode(tracks, id, {time, track_id, [lineage_id], …}, pixels)
    delnode n optpixels          DeleteNode(tracks, n, pixels)
    updtid start tid optlin      UpdateTrackIDs(tracks, start, tid, lineage)
    updseg n pixels added        UpdateNodeSeg(tracks, n, pixels, added)
    updattrs n attrs             UpdateNodeAttrs(tracks, n, attrs)
    inv                          last_action.inverse()   (the record it returns becomes the last one)
    enable K keys recompute | disable K keys      tracks.enable_features / disable_features
  Answer: `<ok|err:kind> | <canonical state>`; `inv` without a last action: `bad-op`.
-/
import FtModel.SessDrv
namespace Ft.PrimDrv
open Ft Ft.SessDrv

inductive Cmd where
  | addEdge (e : Edge) (a : List (Key × Val))
  | delEdge (e : Edge)
  | addNode (r : NodeRec) (px : Option (List Pix))
  | delNode (n : Node) (px : Option (List Pix))
  | updTid (start : Node) (tid : Nat) (lin : Option Nat)
  | updSeg (n : Node) (px : List Pix) (added : Bool)
  | updAttrs (n : Node) (a : List (Key × Val))
  | inv

def cmdP : P Cmd := do
  let t ← tok
  match t with
  | "addedge" => do let u ← nat; let v ← nat; let a ← attrs; pure (.addEdge (u, v) a)
  | "deledge" => do let u ← nat; let v ← nat; pure (.delEdge (u, v))
  | "addnode" => do let r ← nodeRec; let px ← optPixels; pure (.addNode r px)
  | "delnode" => do let n ← nat; let px ← optPixels; pure (.delNode n px)
  | "updtid" => do let s ← nat; let t ← nat; let l ← optNat; pure (.updTid s t l)
  | "updseg" => do let n ← nat; let px ← listOf nat; let a ← bool; pure (.updSeg n px a)
  | "updattrs" => do let n ← nat; let a ← attrs; pure (.updAttrs n a)
  | "inv" => pure .inv
  | _ => failure

def run (s : St) (last : Option PrimRec) : Cmd → Option (Except Err (St × PrimRec))
  | .addEdge e a => some (s.pAddEdge e a)
  | .delEdge e => some (s.pDelEdge e)
  | .addNode r px => some (s.pAddNode r px)
  | .delNode n px => some (s.pDelNode n px)
  | .updTid st t l => some (s.pUpdTid st t l)
  | .updSeg n px a => some (s.pUpdSeg n px a)
  | .updAttrs n a => some (s.pUpdAttrs n a)
  | .inv => last.map (fun r => s.invPrim r)

def stepRaw (s : St) (last : Option PrimRec) (ts : List String) : St × Option PrimRec × String :=
  match ts with
  | "init" :: rest =>
    match (initP.run rest) with
    | some (s', []) => (s', none, joinSp (["ok", "|"] ++ showState s' ++ showSuccOrder s'))
    | _ => (s, last, "bad-op")
  | "enable" :: rest =>
    match ((do let ks ← listOf nat; let rc ← bool; pure (ks, rc)) : P (List Key × Bool)).run rest with
    | some ((ks, rc), []) =>
      match s.enable ks rc with
      | some s' => (s', none, joinSp (["ok", "|"] ++ showState s' ++ showSuccOrder s'))
      | none => (s, last, joinSp (["err:key", "|"] ++ showState s ++ showSuccOrder s))
    | _ => (s, last, "bad-op")
  | "disable" :: rest =>
    match ((listOf nat) : P (List Key)).run rest with
    | some (ks, []) =>
      match s.disable ks with
      | some s' => (s', none, joinSp (["ok", "|"] ++ showState s' ++ showSuccOrder s'))
      | none => (s, last, joinSp (["err:key", "|"] ++ showState s ++ showSuccOrder s))
    | _ => (s, last, "bad-op")
  | _ =>
    match (cmdP.run ts) with
    | some (c, []) =>
      match run s last c with
      | none => (s, last, "bad-op")
      | some (.ok (s', r)) => (s', some r, joinSp (["ok", "|"] ++ showState s' ++ showSuccOrder s'))
      | some (.error e) => (s, last, joinSp (["err:" ++ e.toStr, "|"] ++ showState s ++ showSuccOrder s))
    | _ => (s, last, "bad-op")

/-- as `SessDrv.step`: the run-both check of the faithful IoU model on every reached state -/
def step (s : St) (last : Option PrimRec) (ts : List String) : St × Option PrimRec × String :=
  let (s', l', out) := stepRaw s last ts
  if IouDrv.crossCheck s' then (s', l', out) else (s', l', "bad-model")

end Ft.PrimDrv
