/-
  Driver of the candidate-graph model (family tag `CG`, stateless).

  input  (all tokens decimal naturals except the two keywords)
    pts <fixed|orig> <s0> <n> t_1 … t_n <m> u_1 v_1 … u_m v_m
        n rows given by their frame number, s0 = scale[0] (1 when scale is None),
        then the `near` relation as an explicit list of ordered pairs (brute force, harness side)
    seg <fixed|orig> <iou 0|1> <k> d_1 … d_k <T> l_1 … l_{T·P} <m> u_1 v_1 … u_m v_m
        frame shape (k axes, P = ∏ d_i), T frames of flat labels (C order), near pairs
  output
    ok nodes <n> (id time)*            dict <k> (t c id_1 … id_c)* edges <m> (u v)*          (pts)
    ok nodes <n> (id time area k s*)*  dict <k> (t c id_1 … id_c)* edges <m> (u v)*
       iou <j> (u v (z | inter union))*                                                         (seg)
    err:value   nodes_from_segmentation refused (duplicate label across frames)
    err:index   unrepaired loop on an empty frame dictionary (IndexError)
    bad-op      anything malformed
  nodes sorted by id, dict by frame (ids in stored order), edges / iou entries lexicographically.
-/
import FtModel.CandGraph
namespace Ft.CandGraph

def takeN : Nat → List Nat → Option (List Nat × List Nat)
  | 0, xs => some ([], xs)
  | _ + 1, [] => none
  | n + 1, x :: xs => do
      let (a, b) ← takeN n xs
      pure (x :: a, b)

def toPairs : List Nat → Option (List (Nat × Nat))
  | [] => some []
  | [_] => none
  | a :: b :: r => do
      let ps ← toPairs r
      pure ((a, b) :: ps)

def chunks (p : Nat) : Nat → List Nat → List (List Nat)
  | 0, _ => []
  | n + 1, xs => xs.take p :: chunks p n (xs.drop p)

def insertBy {α} (lt : α → α → Bool) (x : α) : List α → List α
  | [] => [x]
  | y :: ys => if lt y x then y :: insertBy lt x ys else x :: y :: ys

def sortBy {α} (lt : α → α → Bool) (xs : List α) : List α := xs.foldr (insertBy lt) []

def pairLt (a b : Nat × Nat) : Bool := a.1 < b.1 || (a.1 == b.1 && a.2 < b.2)

def nearOf (pairs : List (Nat × Nat)) : Node → Node → Bool := fun u v => pairs.contains (u, v)

def renderDict (d : FrameDict) : List String :=
  let ds := sortBy (fun a b => a.1 < b.1) d
  ["dict", toString ds.length] ++
    ds.flatMap (fun p => [toString p.1, toString p.2.length] ++ p.2.map toString)

def renderEdges (es : List Edge) : List String :=
  ["edges", toString es.length] ++
    (sortBy pairLt es).flatMap (fun e => [toString e.1, toString e.2])

def renderIou (a : EdgeIou) : List String :=
  ["iou", toString a.length] ++
    (sortBy (fun x y => pairLt x.1 y.1) a).flatMap (fun x =>
      [toString x.1.1, toString x.1.2] ++
        (match x.2 with
         | none => ["z"]
         | some (i, u) => [toString i, toString u]))

def handlePts (orig : Bool) (nums : List Nat) : String :=
  match nums with
  | s0 :: n :: rest =>
    match takeN n rest with
    | some (times, m :: rest2) =>
      if rest2.length != 2 * m then "bad-op" else
      match toPairs rest2 with
      | none => "bad-op"
      | some pairs =>
        let near := nearOf pairs
        let (nodes, d) := nodesFromPoints s0 times
        let es? := if orig then addCandEdgesOrig near nodes d else some (addCandEdges near nodes d)
        match es? with
        | none => "err:index"
        | some es =>
          joinSp (["ok", "nodes", toString nodes.length] ++
            (sortBy pairLt nodes).flatMap (fun p => [toString p.1, toString p.2]) ++
            renderDict d ++ renderEdges es)
    | _ => "bad-op"
  | _ => "bad-op"

def handleSeg (orig : Bool) (nums : List Nat) : String :=
  match nums with
  | iouFlag :: k :: rest =>
    if iouFlag > 1 then "bad-op" else
    match takeN k rest with
    | some (shape, T :: rest2) =>
      let P := shape.foldl (· * ·) 1
      match takeN (T * P) rest2 with
      | some (flat, m :: rest3) =>
        if rest3.length != 2 * m then "bad-op" else
        match toPairs rest3 with
        | none => "bad-op"
        | some pairs =>
          let near := nearOf pairs
          let frames := chunks P T flat
          match nodesFromSeg shape frames with
          | none => "err:value"
          | some (nodes, d) =>
            let es? := if orig then addCandEdgesOrig near (detTimes nodes) d
                       else some (addCandEdges near (detTimes nodes) d)
            match es? with
            | none => "err:index"
            | some es =>
              let iou := if iouFlag == 1 then addIou frames d es else []
              joinSp (["ok", "nodes", toString nodes.length] ++
                (sortBy (fun a b => a.id < b.id) nodes).flatMap (fun n =>
                  [toString n.id, toString n.time, toString n.area, toString n.psum.length] ++
                    n.psum.map toString) ++
                renderDict d ++ renderEdges es ++ renderIou iou)
      | _ => "bad-op"
    | _ => "bad-op"
  | _ => "bad-op"

def handle : List String → String
  | kind :: mode :: rest =>
    match parseNats rest with
    | none => "bad-op"
    | some nums =>
      match mode with
      | "fixed" | "orig" =>
        let orig := mode == "orig"
        match kind with
        | "pts" => handlePts orig nums
        | "seg" => handleSeg orig nums
        | _ => "bad-op"
      | _ => "bad-op"
  | _ => "bad-op"

end Ft.CandGraph
