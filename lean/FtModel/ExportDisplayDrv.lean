/-
  Driver of the display-name CSV model (family tag `EXD`, stateless).

  input   EXD <cmd> <feats> [<namemap>] <naturals …>
    str      := a string, hex-encoded (UTF-8 bytes, lower-case hex; "-" = the empty string)
    feats    := n feat*                                   the registry `tracks.features`, in order
    feat     := key keyName role numValues valueNames displayName
                key         natural   interned key, the one used in the `tracks` part
                keyName     str       the key itself
                role        0 time | 1 pos | 2 tid | 3 lin | 4 other | 5 <i>  (key of axis i, per-axis
                                                                               position storage)
                numValues   0 | 1 <n>                     feature.get("num_values")
                valueNames  0 | 1 <k> str*                feature.get("value_names")
                displayName 0 | 1 str | 2 <k> str*        feature.get("display_name")  (str | list)
    namemap  := n { str cols }*          cols := 0 str | 1 <k> str*       (node_name_map, in order)
    tracks, sel := exactly the token language of FtModel/ExportDrv.lean (`pTracks`, `pSel`):
                ndim perAxis nNodes { id time tid lin npos p* nfeat { key nvals v* }* }*
                nEdges { u v nfeat { key nvals v* }* }* hasSeg [T P l*] hasScale [n v*] nreg k* ;
                sel := 0 | 1 n id*
    csv     feats tracks sel             file written by export_to_csv(use_display_names=True)
    rt      feats tv lv namemap tracks sel   tracks_from_df(that file, node_name_map=namemap);  tv, lv ∈ {0,1}:
                                         geff's validate_tracklets / validate_lineages passed (1) or
                                         the importer warned "… validation failed" and recomputes (0)
    rtauto  feats tv lv tracks sel       the same with the key map `nameMapOf (ndim-1) feats (exported nodes)`
    map     feats tracks sel             that key map

  output  one line
    csv     ok hdr <n> str* rows <m> { cell* : one cell per header column }*
            cell := n<k> (integer) | v<k> (value token) | L <n> v* (list under one column) | e (empty)
            rows in graph order without selection, sorted by the ID column (stable) otherwise
    rt, rtauto
            ok nodes <n> { id time tid|- lin|- npos p* nfeat { str nvals v* }* nints { str k }* }*
               edges <m> { u v }*        nodes by id, feats / ints by hex key, edges sorted   | none
    map     ok <n> { str cols }*
    err:nx      a selected node is not in the graph
    err:raise   the exporter raises (value of a list-named feature is not a list of that length,
                a feature with key "id"/"parent_id" has a list of names)
    unmodelled  a display name that is a list of another length / a list on a single-value
                feature (Python formats it with repr());  rt: the column mapped to "id" does not hold
                integers or the one mapped to "parent_id" holds something else than integers / nothing
                (only when a feature column collides with ID / Parent ID)
    none        the importer raises
    bad-op      anything malformed
-/
import FtModel.ExportDisplay
import FtModel.ExportDrv
import FtModel.NameMapDrv
namespace Ft.ExportDisplay
open Ft Ft.Export

/-! ### parsing (string tokens; the numeric tail goes through `Export.pTracks`) -/

abbrev PS (α : Type) := List String → Option (α × List String)

def psNat : PS Nat := NameMap.pNat
def psStr : PS String := NameMap.pStr
def psList {α} (p : PS α) : PS (List α) := NameMap.pList p

def psRole : PS Role := fun ts => do
  let (c, r) ← psNat ts
  match c with
  | 0 => pure (.time, r)
  | 1 => pure (.pos, r)
  | 2 => pure (.tid, r)
  | 3 => pure (.lin, r)
  | 4 => pure (.other, r)
  | 5 => do
      let (i, r') ← psNat r
      pure (.axis i, r')
  | _ => none

def psOpt {α} (p : PS α) : PS (Option α) := fun ts => do
  let (flag, r) ← psNat ts
  match flag with
  | 0 => pure (none, r)
  | 1 => do
      let (x, r') ← p r
      pure (some x, r')
  | _ => none

def psDName : PS (Option DName) := fun ts => do
  let (flag, r) ← psNat ts
  match flag with
  | 0 => pure (none, r)
  | 1 => do
      let (s, r') ← psStr r
      pure (some (.str s), r')
  | 2 => do
      let (l, r') ← psList psStr r
      pure (some (.list l), r')
  | _ => none

def psFeat : PS FeatSpec := fun ts => do
  let (k, r) ← psNat ts
  let (kn, r) ← psStr r
  let (role, r) ← psRole r
  let (nv, r) ← psOpt psNat r
  let (vn, r) ← psOpt (psList psStr) r
  let (dn, r) ← psDName r
  pure (⟨k, kn, role, nv, vn, dn⟩, r)

def psCols : PS Cols := fun ts => do
  let (flag, r) ← psNat ts
  match flag with
  | 0 => do
      let (s, r') ← psStr r
      pure (.one s, r')
  | 1 => do
      let (l, r') ← psList psStr r
      pure (.many l, r')
  | _ => none

def psEntry : PS (Name × Cols) := fun ts => do
  let (k, r) ← psStr ts
  let (c, r) ← psCols r
  pure ((k, c), r)

/-- `tracks sel` from the numeric tail, nothing left over -/
def pTail (ts : List String) : Option (Tracks × Option (List Nat)) :=
  match parseNats ts with
  | none => none
  | some nums => done (do
      let (s, r) ← pTracks nums
      let (sel, r) ← pSel r
      pure ((s, sel), r))

/-! ### rendering -/

def hx (s : String) : String := NameMap.hex s

def rowIdD (d : DictD) : Nat :=
  match alook idName d with
  | some (.nat k) => k
  | _ => 0

def rCsvD (sorted : Bool) (c : CsvD) : List String :=
  let rows := if sorted then sortBy (fun a b => rowIdD a < rowIdD b) c.rows else c.rows
  ["hdr", toString c.header.length] ++ c.header.map hx ++ ["rows", toString rows.length] ++
    rows.flatMap (fun d => d.flatMap (fun p => rCell p.2))

def rOptN : Option Nat → String
  | none => "-"
  | some k => toString k

def rDNode (n : DNode) : List String :=
  let fs := sortBy (fun a b => decide (a.1 < b.1)) (n.feats.map (fun kv => (hx kv.1, kv.2)))
  let is := sortBy (fun a b => decide (a.1 < b.1)) (n.ints.map (fun kv => (hx kv.1, kv.2)))
  [toString n.id, toString n.time, rOptN n.tid, rOptN n.lin] ++ rNats n.pos ++
    (toString fs.length :: fs.flatMap (fun kv => kv.1 :: rNats kv.2)) ++
    (toString is.length :: is.flatMap (fun kv => [kv.1, toString kv.2]))

def rCsvDTracks (t : CsvDTracks) : List String :=
  let ns := sortBy (fun a b => a.id < b.id) t.nodes
  ["nodes", toString ns.length] ++ ns.flatMap rDNode ++ ["edges", toString t.edges.length] ++
    (sortBy pairLt t.edges).flatMap (fun e => [toString e.1, toString e.2])

def rCols : Cols → List String
  | .one c => ["0", hx c]
  | .many cs => "1" :: toString cs.length :: cs.map hx

def rNameMap (m : NameMap) : List String :=
  toString m.length :: m.flatMap (fun e => hx e.1 :: rCols e.2)

/-! ### dispatch -/

def psBool : PS Bool := fun ts => do
  let (b, r) ← psNat ts
  match b with
  | 0 => pure (false, r)
  | 1 => pure (true, r)
  | _ => none

/-- the columns mapped to "id" / "parent_id" hold integers (parent: or nothing); otherwise the
    real importer renumbers (`_ensure_integer_ids`) or parses floats: not modelled -/
def idsModelled (m : NameMap) (c : CsvD) : Bool :=
  (match alook "id" m with
   | some (.one idc) => c.rows.all (fun d => ((alook idc d).bind cellNat).isSome)
   | _ => true) &&
  (match alook "parent_id" m with
   | some (.one pc) => c.rows.all (fun d => ((alook pc d).bind parentOfCell).isSome)
   | _ => true)

def answerRt (tv lv : Bool) (m : NameMap) (s : Tracks) (feats : List FeatDesc)
    (sel : Option (List Nat)) : String :=
  if !selOk s sel then "err:nx"
  else if !exportOk s feats sel then "err:raise"
  else if !idsModelled m (encodeCsvDisplay s feats sel) then "unmodelled"
  else
    match decodeCsvDisplay tv lv m (encodeCsvDisplay s feats sel) with
    | none => "none"
    | some t => joinSp ("ok" :: rCsvDTracks t)

inductive Req where
  | csv (s : Tracks) (sel : Option (List Nat))
  | rt (tv lv : Bool) (m : NameMap) (s : Tracks) (sel : Option (List Nat))
  | rtauto (tv lv : Bool) (s : Tracks) (sel : Option (List Nat))
  | map (s : Tracks) (sel : Option (List Nat))

def parseReq (cmd : String) (r : List String) : Option Req :=
  match cmd with
  | "csv" => (pTail r).map (fun p => .csv p.1 p.2)
  | "rt" => do
      let (tv, r) ← psBool r
      let (lv, r) ← psBool r
      let (m, r') ← psList psEntry r
      let p ← pTail r'
      pure (.rt tv lv m p.1 p.2)
  | "rtauto" => do
      let (tv, r) ← psBool r
      let (lv, r) ← psBool r
      let p ← pTail r
      pure (.rtauto tv lv p.1 p.2)
  | "map" => (pTail r).map (fun p => .map p.1 p.2)
  | _ => none

def handle : List String → String
  | cmd :: rest =>
    match psList psFeat rest with
    | none => "bad-op"
    | some (specs, r) =>
      match parseReq cmd r with
      | none => "bad-op"
      | some req =>
        match describeAll specs with
        | none => "unmodelled"
        | some feats =>
          match req with
          | .csv s sel =>
            if !selOk s sel then "err:nx"
            else if !exportOk s feats sel then "err:raise"
            else joinSp ("ok" :: rCsvD sel.isSome (encodeCsvDisplay s feats sel))
          | .rt tv lv m s sel => answerRt tv lv m s feats sel
          | .rtauto tv lv s sel => answerRt tv lv (nameMapOf (nax s) feats (exported s sel)) s feats sel
          | .map s sel => joinSp ("ok" :: rNameMap (nameMapOf (nax s) feats (exported s sel)))
  | [] => "bad-op"

end Ft.ExportDisplay
