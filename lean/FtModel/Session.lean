/-
  FtModel.Session — `step : St → Op → St × Out`: top-level user actions (history entry +
  refresh), undo / redo (`Tracks.undo/redo`), feature switching, read-only queries.
-/
import FtModel.User
namespace Ft

inductive Op where
  | addEdge (e : Edge) (force : Bool)
  | delEdge (e : Edge)
  | addNode (a : St.AddNodeArgs)
  | delNode (n : Node)
  | swap (n1 n2 : Node)
  | paint (newValue : Nat) (groups : List (List Pix × Nat)) (curTid : Nat) (force : Bool)
  | updAttrs (n : Node) (attrs : List (Key × Val))
  | undo
  | redo
  | enable (keys : List Key) (recompute : Bool)
  | disable (keys : List Key)
  | qNeighbors (tid time : Nat)
  | qHasTrack (tid time : Nat)
  | qNewIds (n : Nat)
  | nop

inductive Out where
  | ok
  | err (e : Err)
  | bool (b : Bool)
  | nodes (l : List (Option Node))
deriving Repr, DecidableEq

namespace St

/-- total version of `ActionGroup.inverse` for the history (an inverse that raises midway is
    reported by `step`; it only happens in states that already violate the invariants) -/
def invTotal (s : St) (a : ActRec) : St × ActRec :=
  match s.invGroup a with
  | (s', .ok r) => (s', r)
  | (s', .error _) => (s', [])

/-- end of a top-level user action: `action_history.add_new_action(self); refresh.emit(p)` -/
def commit (r : UOut) (payload : Option Node) : St × Out :=
  match r.2 with
  | .ok recs =>
    ({ r.1 with hist := r.1.hist.add recs, refreshes := r.1.refreshes + 1, lastPayload := payload }, .ok)
  | .error e => (r.1, .err e)

def step (s : St) : Op → St × Out
  | .addEdge e f => commit (s.uAddEdge e f) none
  | .delEdge e => commit (s.uDeleteEdge e) none
  | .addNode a =>
      let r := s.uAddNode a
      commit r (some a.node)
  | .delNode n => commit (s.uDeleteNode n none) none
  | .swap a b => commit (s.uSwap a b) none
  | .paint v groups tid f =>
      -- the caller paints first …
      match s.seg with
      | none => (s, .err .value)
      | some g =>
        let sP := { s with seg := some (g.setPixels (groups.flatMap (fun (grp : List Pix × Nat) => grp.1)) v) }
        let (r, sel) := sP.uUpdateSeg v groups tid f
        match r.2 with
        | .ok _ => commit r sel
        | .error e =>
          -- … and restores the painted pixels when the update is refused
          match r.1.seg with
          | some g' =>
            let g'' := groups.foldl (fun (acc : Seg) (grp : List Pix × Nat) => acc.setPixels grp.1 grp.2) g'
            ({ r.1 with seg := some g'' }, .err e)
          | none => (r.1, .err e)
  | .updAttrs n attrs => commit (s.uUpdateAttrs n attrs) none
  | .undo =>
      let bad := match s.hist.undo[s.hist.ptr.toNat]? with
        | some a => if s.hist.ptr < 0 then false else (s.invGroup a).2.toOption.isNone
        | none => false
      let (h, s', b) := s.hist.undoStep invTotal s
      if bad then (s', .err .other) else
      if b then ({ s' with hist := h, refreshes := s'.refreshes + 1, lastPayload := none }, .bool true)
      else (s, .bool false)
  | .redo =>
      let bad := match s.hist.redo.getLast? with
        | some a => (s.invGroup a).2.toOption.isNone
        | none => false
      let (h, s', b) := s.hist.redoStep invTotal s
      if bad then (s', .err .other) else
      if b then ({ s' with hist := h, refreshes := s'.refreshes + 1, lastPayload := none }, .bool true)
      else (s, .bool false)
  | .enable ks rc =>
      match s.enable ks rc with
      | some s' => (s', .ok)
      | none => (s, .err .key)
  | .disable ks =>
      match s.disable ks with
      | some s' => (s', .ok)
      | none => (s, .err .key)
  | .qNeighbors tid time =>
      let (s', p, n) := s.trackNeighbors tid time
      (s', .nodes [p, n])
  | .qHasTrack tid time => (s, .bool (s.hasTrackAt tid time))
  | .qNewIds n =>
      let (s', ids) := s.newNodeIds n
      (s', .nodes (ids.map some))
  | .nop => (s, .ok)

end St
end Ft
