/-
  FtModel.Export — executable model of funtracks.import_export at TABLE level
  (properties C14 round trip, C15 subset export, C16 read-only operations).  Core Lean only.

  Values the logic only moves around (float positions, feature values, scale factors) are
  opaque tokens `Val`; feature keys are interned tokens `Key`.  What a file format carries is a
  table of `Dict`s (column/property name ↦ cell); the codecs below build and read those tables.

  Python ↔ Lean
  ---------------------------------------------------------------------------------------------
  tracks.graph nodes (insertion order) + attrs        Tracks.nodes : List NodeRec
        time / track_id / lineage_id                       .time .tid .lin   (naturals)
        position (single key "pos": list, or one           .pos : List Val   (one token per axis,
          attribute per axis when pos_attr is a list)             axis order z,y,x / y,x)
        every other attribute (key ↦ value(s))              .feats : List (Key × List Val)
  tracks.graph edges (insertion order) + attrs        Tracks.edges : List EdgeRec
  tracks.segmentation (T frames, C order)             Tracks.seg : Option (List (List Nat))
  tracks.scale (None or a sequence)                   Tracks.scale : Option (List Val)
  tracks.features: keys (insertion order);            Tracks.registry : List Key
        isinstance(position_key, list)                     Tracks.perAxis : Bool
  list(graph.predecessors(n))                         preds s n      (insertion order of the in-edges)
  `"" if len(parents) == 0 else parents[0]`           parentOf s n
  --- csv/_export.py  export_to_csv (use_display_names=False) --------------------------------
  header  t,[z],y,x,id,parent_id,track_id             csvHeader s
  row dict → `df = df[header]`                        csvRow s n = header.map (c ↦ csvCell s n c)
  node_ids None → graph.nodes() | else                exported s sel
      filter_graph_with_ancestors(graph, node_ids)
  export_seg: map_array(seg, ids, track_ids)          csvSeg s sel    (label ↦ track id of the kept
                                                      node with that id, everything else ↦ 0)
  --- csv/_import.py + _tracks_builder.py with the key map -----------------------------------
  {"time":"t","pos":[axes],"id":"id","parent_id":"parent_id","track_id":"track_id"}
  flatten_name_map / rename / to_dict                 getNat / getVal on the row dict
  _combine_multi_value_props (column_stack in          posOf nax d  (axis order, all present or the
      mapped order)                                    key is skipped → import fails: `none`)
  parent column → edge (parent, id) unless NaN or -1    decodeCsv … edges
  track_id present ⇒ activated, not recomputed        NodeRec.tid copied (lineage is recomputed by the
      (_check_existing_feature)                        importer: NOT in `CsvNode`)
  --- _utils.py -------------------------------------------------------------------------------
  nx.ancestors(graph, n) ∪ {n}                        up s (timeOf s n) n   (climb ALL predecessors,
                                                      fuel = time of the start node: every step up
                                                      strictly decreases time on time-increasing edges)
  filter_graph_with_ancestors(graph, sel)             ancestorsClosure s sel  (a selection naming a
                                                      node that is not in the graph makes networkx
                                                      raise: `selOk`, answered `err:nx` by the driver)
  --- geff/_export.py -------------------------------------------------------------------------
  split_position_attr: pop pos, write one attr        geffNodeProps: (.axis i ↦ pos[i]) for i < ndim-1
      per axis (or: already split → unchanged)
  axis_names = [time_key] + axes                      Geff.axisNames
  `if tracks.scale is None: tracks.scale=(1.0,)*ndim` exportGeffOrig (state written!)  — defect D5;
      repaired: local variable                        exportGeff (state untouched)
  np.where(np.isin(block, keep), block, 0) per chunk  maskSeg keep   (pointwise)
  graph.subgraph(nodes_to_keep).copy()                kept nodes, edges with both ends kept
  geff.write(axis_scales = scale)                     Geff.scale
  --- geff/_import.py with the key map {"time","pos":[axes],"track_id","lineage_id", k:k …} ---
  read_to_memory(node_props=filter) → rename →        decodeGeff nax ks eks
      combine → construct; segmentation_path →        (only the keys in the maps are loaded: `ks` node
      labels = node ids (no seg_id mapped)             features, `eks` edge features)
  --- internal_format.py ----------------------------------------------------------------------
  nx.node_link_data(graph, edges="links")             Internal.nodes / .links  (ALL attributes)
  np.save(seg) ; attrs.json {scale, ndim, features:   Internal.seg / .scale / .ndim / .registry /
      FeatureDict.dump_json()}                           .perAxis
  load_tracks = node_link_graph + np.load +           decodeInternal
      FeatureDict.from_json + SolutionTracks(features=…)
  --- queries (data_model/tracks.py, solution_tracks.py) --------------------------------------
  get_track_neighbors: `candidates.sort(key=time)`    trackNeighbors: returns the state with that
      IN PLACE on the lookup list, then scan           lookup list sorted (C16 compares lookups as sets)
-/
import FtModel.Basic
namespace Ft.Export

abbrev Val := Nat
abbrev Key := Nat

inductive Col where
  | time | axis (i : Nat) | pos | id | parent | tid | lin | feat (k : Key) | src | dst
  deriving DecidableEq, Repr

inductive Cell where
  | nat (n : Nat) | val (v : Val) | vals (vs : List Val) | empty
  deriving DecidableEq, Repr

abbrev Dict := List (Col × Cell)

structure NodeRec where
  id : Nat
  time : Nat
  tid : Nat
  lin : Nat
  pos : List Val
  feats : List (Key × List Val)
  deriving DecidableEq, Repr

structure EdgeRec where
  src : Nat
  dst : Nat
  feats : List (Key × List Val)
  deriving DecidableEq, Repr

structure Tracks where
  ndim : Nat
  nodes : List NodeRec
  edges : List EdgeRec
  seg : Option (List (List Nat))
  scale : Option (List Val)
  registry : List Key
  perAxis : Bool
  deriving DecidableEq, Repr

/-! ### graph views -/

def ids (s : Tracks) : List Nat := s.nodes.map NodeRec.id

def endpoints (e : EdgeRec) : Nat × Nat := (e.src, e.dst)

def edgePairs (s : Tracks) : List (Nat × Nat) := s.edges.map endpoints

def nodeOf (s : Tracks) (n : Nat) : Option NodeRec := s.nodes.find? (fun r => r.id == n)

def timeOf (s : Tracks) (n : Nat) : Nat := ((nodeOf s n).map NodeRec.time).getD 0

/-- `list(graph.predecessors(n))` -/
def preds (s : Tracks) (n : Nat) : List Nat :=
  (s.edges.filter (fun e => e.dst == n)).map EdgeRec.src

def succs (s : Tracks) (n : Nat) : List Nat :=
  (s.edges.filter (fun e => e.src == n)).map EdgeRec.dst

/-- `parents[0]` if any -/
def parentOf (s : Tracks) (n : Nat) : Option Nat := (preds s n).head?

def nax (s : Tracks) : Nat := s.ndim - 1

def axes (s : Tracks) : List Nat := List.range (nax s)

/-! ### dictionaries -/

def getNat (d : Dict) (c : Col) : Option Nat :=
  match alook c d with
  | some (.nat n) => some n
  | _ => none

def getVal (d : Dict) (c : Col) : Option Val :=
  match alook c d with
  | some (.val v) => some v
  | _ => none

def getVals (d : Dict) (c : Col) : Option (List Val) :=
  match alook c d with
  | some (.vals vs) => some vs
  | _ => none

def allSome {α} : List (Option α) → Option (List α)
  | [] => some []
  | none :: _ => none
  | some x :: r => (allSome r).map (x :: ·)

/-- position recombined from the per-axis columns, in axis order -/
def posOf (nax : Nat) (d : Dict) : Option (List Val) :=
  allSome ((List.range nax).map (fun i => getVal d (.axis i)))

def posCell (n : NodeRec) (i : Nat) : Cell :=
  match n.pos[i]? with
  | some v => .val v
  | none => .empty

/-- the keys of `ks` found in `fs`, in the order of `ks` -/
def restrict (ks : List Key) (fs : List (Key × List Val)) : List (Key × List Val) :=
  ks.filterMap (fun k => (alook k fs).map (fun vs => (k, vs)))

/-! ### subset export: ancestors closure -/

/-- `{n} ∪ nx.ancestors(graph, n)`: climb all predecessors; `fuel` bounds the depth -/
def up (s : Tracks) : Nat → Nat → List Nat
  | 0, n => [n]
  | f + 1, n => n :: (preds s n).flatMap (up s f)

/-- `filter_graph_with_ancestors(graph, sel)` (as a list; duplicates are immaterial: it is a set) -/
def ancestorsClosure (s : Tracks) (sel : List Nat) : List Nat :=
  sel.flatMap (fun m => up s (timeOf s m) m)

/-- networkx raises for a selected node that is not in the graph -/
def selOk (s : Tracks) (sel : Option (List Nat)) : Bool :=
  match sel with
  | none => true
  | some l => l.all (fun m => (ids s).contains m)

/-- ids to keep (`none` = no selection: all nodes) -/
def keepIds (s : Tracks) : Option (List Nat) → List Nat
  | none => ids s
  | some sel => ancestorsClosure s sel

/-- exported nodes, in graph order -/
def exported (s : Tracks) (sel : Option (List Nat)) : List NodeRec :=
  match sel with
  | none => s.nodes
  | some l => s.nodes.filter (fun n => (ancestorsClosure s l).contains n.id)

def exportedEdges (s : Tracks) (sel : Option (List Nat)) : List EdgeRec :=
  match sel with
  | none => s.edges
  | some l =>
    let k := (exported s (some l)).map NodeRec.id
    s.edges.filter (fun e => k.contains e.src && k.contains e.dst)

/-- `np.where(np.isin(block, keep), block, 0)` on every chunk = pointwise -/
def maskSeg (keep : List Nat) (seg : List (List Nat)) : List (List Nat) :=
  seg.map (fun fr => fr.map (fun l => if keep.contains l then l else 0))

/-! ### CSV -/

def csvHeader (s : Tracks) : List Col :=
  [.time] ++ (axes s).map .axis ++ [.id, .parent, .tid]

def csvCell (s : Tracks) (n : NodeRec) : Col → Cell
  | .time => .nat n.time
  | .axis i => posCell n i
  | .id => .nat n.id
  | .parent => match parentOf s n.id with
               | some p => .nat p
               | none => .empty
  | .tid => .nat n.tid
  | _ => .empty

def csvRow (s : Tracks) (n : NodeRec) : Dict := (csvHeader s).map (fun c => (c, csvCell s n c))

structure Csv where
  header : List Col
  rows : List Dict
  deriving DecidableEq, Repr

def encodeCsv (s : Tracks) (sel : Option (List Nat)) : Csv :=
  ⟨csvHeader s, (exported s sel).map (csvRow s)⟩

/-- `map_array(seg, ids, track_ids)` of the exported rows: what one label becomes -/
def csvLabel (s : Tracks) (sel : Option (List Nat)) (l : Nat) : Nat :=
  match (exported s sel).find? (fun n => n.id == l) with
  | some n => n.tid
  | none => 0

def csvSeg (s : Tracks) (sel : Option (List Nat)) (seg : List (List Nat)) : List (List Nat) :=
  seg.map (fun fr => fr.map (csvLabel s sel))

structure CsvNode where
  id : Nat
  time : Nat
  tid : Nat
  pos : List Val
  deriving DecidableEq, Repr

structure CsvTracks where
  nodes : List CsvNode
  edges : List (Nat × Nat)
  deriving DecidableEq, Repr

def core (n : NodeRec) : CsvNode := ⟨n.id, n.time, n.tid, n.pos⟩

def decodeCsvRow (nax : Nat) (d : Dict) : Option CsvNode :=
  match getNat d .id, getNat d .time, getNat d .tid, posOf nax d with
  | some i, some t, some k, some p => some ⟨i, t, k, p⟩
  | _, _, _, _ => none

def csvEdge (d : Dict) : Option (Nat × Nat) :=
  match getNat d .parent, getNat d .id with
  | some p, some i => some (p, i)
  | _, _ => none

def decodeCsv (nax : Nat) (c : Csv) : Option CsvTracks :=
  (allSome (c.rows.map (decodeCsvRow nax))).map (fun ns => ⟨ns, c.rows.filterMap csvEdge⟩)

/-! ### GEFF -/

def featCells (fs : List (Key × List Val)) : Dict := fs.map (fun kv => (.feat kv.1, .vals kv.2))

def geffNodeProps (s : Tracks) (n : NodeRec) : Dict :=
  [(.time, .nat n.time), (.tid, .nat n.tid), (.lin, .nat n.lin)] ++
    (axes s).map (fun i => (.axis i, posCell n i)) ++ featCells n.feats

structure Geff where
  axisNames : List Col
  scale : List Val
  nodes : List (Nat × Dict)
  edges : List ((Nat × Nat) × Dict)
  seg : Option (List (List Nat))
  deriving DecidableEq, Repr

/-- what `export_to_geff` writes; `one` is the token of the float 1.0 -/
def encodeGeff (one : Val) (s : Tracks) (sel : Option (List Nat)) : Geff :=
  { axisNames := .time :: (axes s).map .axis
    scale := s.scale.getD (List.replicate s.ndim one)
    nodes := (exported s sel).map (fun n => (n.id, geffNodeProps s n))
    edges := (exportedEdges s sel).map (fun e => ((e.src, e.dst), featCells e.feats))
    seg := match sel with
           | none => s.seg
           | some l => s.seg.map (maskSeg (ancestorsClosure s l)) }

structure Loaded where
  nodes : List NodeRec
  edges : List EdgeRec
  seg : Option (List (List Nat))
  deriving DecidableEq, Repr

def loadFeats (ks : List Key) (d : Dict) : List (Key × List Val) :=
  ks.filterMap (fun k => (getVals d (.feat k)).map (fun vs => (k, vs)))

def decodeGeffNode (nax : Nat) (ks : List Key) (p : Nat × Dict) : Option NodeRec :=
  match getNat p.2 .time, getNat p.2 .tid, getNat p.2 .lin, posOf nax p.2 with
  | some t, some k, some l, some ps => some ⟨p.1, t, k, l, ps, loadFeats ks p.2⟩
  | _, _, _, _ => none

def decodeGeff (nax : Nat) (ks eks : List Key) (g : Geff) : Option Loaded :=
  (allSome (g.nodes.map (decodeGeffNode nax ks))).map (fun ns =>
    ⟨ns, g.edges.map (fun e => ⟨e.1.1, e.1.2, loadFeats eks e.2⟩), g.seg⟩)

def restrictN (ks : List Key) (n : NodeRec) : NodeRec := { n with feats := restrict ks n.feats }
def restrictE (ks : List Key) (e : EdgeRec) : EdgeRec := { e with feats := restrict ks e.feats }

/-! ### internal format -/

def internalNode (s : Tracks) (n : NodeRec) : Dict :=
  [(.time, .nat n.time), (.tid, .nat n.tid), (.lin, .nat n.lin)] ++
    (if s.perAxis then (axes s).map (fun i => (.axis i, posCell n i)) else [(.pos, .vals n.pos)]) ++
    featCells n.feats ++ [(.id, .nat n.id)]

def internalLink (e : EdgeRec) : Dict :=
  featCells e.feats ++ [(.src, .nat e.src), (.dst, .nat e.dst)]

structure Internal where
  nodes : List Dict
  links : List Dict
  seg : Option (List (List Nat))
  scale : Option (List Val)
  ndim : Nat
  registry : List Key
  perAxis : Bool
  deriving DecidableEq, Repr

def encodeInternal (s : Tracks) : Internal :=
  ⟨s.nodes.map (internalNode s), s.edges.map internalLink, s.seg, s.scale, s.ndim, s.registry,
   s.perAxis⟩

/-- all attributes of a node_link dict that are not structural -/
def dictFeats : Dict → List (Key × List Val)
  | [] => []
  | (.feat k, .vals vs) :: r => (k, vs) :: dictFeats r
  | _ :: r => dictFeats r

def decodeInternalNode (perAxis : Bool) (nax : Nat) (d : Dict) : Option NodeRec :=
  match getNat d .id, getNat d .time, getNat d .tid, getNat d .lin,
        (if perAxis then posOf nax d else getVals d .pos) with
  | some i, some t, some k, some l, some p => some ⟨i, t, k, l, p, dictFeats d⟩
  | _, _, _, _, _ => none

def decodeInternalLink (d : Dict) : Option EdgeRec :=
  match getNat d .src, getNat d .dst with
  | some u, some v => some ⟨u, v, dictFeats d⟩
  | _, _ => none

def decodeInternal (f : Internal) : Option Tracks :=
  match allSome (f.nodes.map (decodeInternalNode f.perAxis (f.ndim - 1))),
        allSome (f.links.map decodeInternalLink) with
  | some ns, some es => some ⟨f.ndim, ns, es, f.seg, f.scale, f.registry, f.perAxis⟩
  | _, _ => none

/-! ### the tracks object as the read-only operations see it (C16) -/

structure State where
  tr : Tracks
  t2n : List (Nat × List Nat)      -- tracklet_id_to_nodes (lists in stored order)
  l2n : List (Nat × List Nat)
  maxTid : Nat
  maxLin : Nat
  counter : Nat                    -- node_id_counter
  undo : Nat                       -- len(undo_stack)
  redo : Nat
  active : List Key                -- annotator features switched on
  deriving DecidableEq, Repr

inductive ROp where
  | exportCsv (sel : Option (List Nat))
  | exportCsvSeg (sel : Option (List Nat))
  | exportGeff (sel : Option (List Nat))
  | save
  | getPositions (ns : List Nat)
  | getTimes (ns : List Nat)
  | getPixels (n : Nat)
  | trackNeighbors (tid t : Nat)
  | hasTrackAt (tid t : Nat)
  | nextTid
  | nextLin
  | nodes
  | edges
  | inDegree
  | outDegree
  | preds (n : Nat)
  | succs (n : Nat)
  | nodeAttr (n : Nat) (k : Key)
  | edgeAttr (u v : Nat) (k : Key)
  | features
  deriving DecidableEq, Repr

inductive Out where
  | csv (c : Csv)
  | csvSeg (c : Csv) (seg : Option (List (List Nat)))
  | geff (g : Geff)
  | internal (f : Internal)
  | nats (l : List Nat)
  | pairs (l : List (Nat × Nat))
  | poss (l : List (Option (List Val)))
  | optPair (a b : Option Nat)
  | bool (b : Bool)
  | nat (n : Nat)
  | vals (v : Option (List Val))
  | pixels (p : Option (List Nat))
  | err
  deriving DecidableEq, Repr

def insertByTime (s : Tracks) (x : Nat) : List Nat → List Nat
  | [] => [x]
  | y :: ys => if timeOf s y < timeOf s x then y :: insertByTime s x ys else x :: y :: ys

/-- `list.sort(key=time)` (stable): insertion from the right keeps equal keys in order -/
def sortByTime (s : Tracks) (l : List Nat) : List Nat := l.foldr (insertByTime s) []

/-- the scan of `get_track_neighbors` over the sorted candidates -/
def scanNeighbors (s : Tracks) (t : Nat) : List Nat → Option Nat → Option Nat × Option Nat
  | [], pred => (pred, none)
  | c :: cs, pred =>
    if timeOf s c < t then scanNeighbors s t cs (some c)
    else if timeOf s c > t then (pred, some c)
    else scanNeighbors s t cs pred

/-- flat indices (within the whole array) of the pixels of node `n`: frame `time n`, label `n` -/
def pixelsOf (s : Tracks) (n : Nat) : Option (List Nat) :=
  s.seg.map (fun frames =>
    let t := timeOf s n
    let fr := frames.getD t []
    (fr.zipIdx.filter (fun p => p.1 == n)).map (fun p => t * fr.length + p.2))

/-- every modelled read-only operation, REPAIRED code: returns the state as the code leaves it -/
def runRO (one : Val) (op : ROp) (st : State) : State × Out :=
  let s := st.tr
  match op with
  | .exportCsv sel => (st, if selOk s sel then .csv (encodeCsv s sel) else .err)
  | .exportCsvSeg sel =>
      (st, if selOk s sel then .csvSeg (encodeCsv s sel) (s.seg.map (csvSeg s sel)) else .err)
  | .exportGeff sel => (st, if selOk s sel then .geff (encodeGeff one s sel) else .err)
  | .save => (st, .internal (encodeInternal s))
  | .getPositions ns => (st, .poss (ns.map (fun n => (nodeOf s n).map NodeRec.pos)))
  | .getTimes ns => (st, .nats (ns.map (timeOf s)))
  | .getPixels n => (st, .pixels (pixelsOf s n))
  | .trackNeighbors tid t =>
      match alook tid st.t2n with
      | none => (st, .optPair none none)
      | some [] => (st, .optPair none none)
      | some cands =>
        let sorted := sortByTime s cands
        let r := scanNeighbors s t sorted none
        ({ st with t2n := aset tid sorted st.t2n }, .optPair r.1 r.2)
  | .hasTrackAt tid t =>
      (st, .bool (((alook tid st.t2n).getD []).any (fun n => timeOf s n == t)))
  | .nextTid => (st, .nat (st.maxTid + 1))
  | .nextLin => (st, .nat (st.maxLin + 1))
  | .nodes => (st, .nats (ids s))
  | .edges => (st, .pairs (edgePairs s))
  | .inDegree => (st, .pairs ((ids s).map (fun n => (n, (preds s n).length))))
  | .outDegree => (st, .pairs ((ids s).map (fun n => (n, (succs s n).length))))
  | .preds n => (st, .nats (preds s n))
  | .succs n => (st, .nats (succs s n))
  | .nodeAttr n k => (st, .vals ((nodeOf s n).bind (fun r => alook k r.feats)))
  | .edgeAttr u v k =>
      (st, .vals ((s.edges.find? (fun e => e.src == u && e.dst == v)).bind
        (fun e => alook k e.feats)))
  | .features => (st, .nats s.registry)

/-- `export_to_geff` as it stood before the repair (defect D5): writes `tracks.scale` -/
def exportGeffOrig (one : Val) (sel : Option (List Nat)) (st : State) : State × Out :=
  let s := st.tr
  if selOk s sel then
    let s' : Tracks := match s.scale with
      | none => { s with scale := some (List.replicate s.ndim one) }
      | some _ => s
    ({ st with tr := s' }, .geff (encodeGeff one s' sel))
  else (st, .err)

/-- lookups compared as sets: same ids in the same order, each node list a permutation -/
def lookupEquiv (a b : List (Nat × List Nat)) : Prop :=
  a.map Prod.fst = b.map Prod.fst ∧ ∀ k, ((alook k a).getD []).Perm ((alook k b).getD [])

/-- "unchanged" in the sense of C16 -/
def State.same (a b : State) : Prop :=
  a.tr = b.tr ∧ lookupEquiv a.t2n b.t2n ∧ a.l2n = b.l2n ∧ a.maxTid = b.maxTid ∧
    a.maxLin = b.maxLin ∧ a.counter = b.counter ∧ a.undo = b.undo ∧ a.redo = b.redo ∧
    a.active = b.active

end Ft.Export
