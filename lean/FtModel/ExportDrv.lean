/-
  Driver of the export model (family tag `EX`, stateless).

  input   EX <cmd> <naturals …>          (every token after <cmd> is a decimal natural)
    tracks  := ndim perAxis
               nNodes { id time tid lin  npos p*  nfeat { key nvals v* }* }*
               nEdges { u v  nfeat { key nvals v* }* }*
               hasSeg [ T P  l_1 … l_{T·P} ]        (T frames of P labels, C order)
               hasScale [ n v* ]
               nreg k*
    sel     := hasSel [ n id* ]
    state   := tracks  nt2n { tid n id* }*  nl2n { lin n id* }*  maxTid maxLin counter undo redo
               nactive k*
    csv      one tracks sel          file written by export_to_csv
    csvseg   one tracks sel          … plus the relabelled segmentation (export_seg=True)
    geff     one tracks sel          store written by export_to_geff   (one = token of 1.0)
    int      one tracks              directory written by save_tracks
    csvrt    one tracks              decodeCsv (encodeCsv s)          (re-import of the CSV)
    geffrt   one tracks  nks k* neks k*   decodeGeff (encodeGeff s) with the loaded feature keys
    intrt    one tracks              decodeInternal (encodeInternal s)
    anc      one tracks sel          filter_graph_with_ancestors
    ro       one state  opcode args  read-only operation (repaired code): state after + output
    roorig   one state  sel          export_to_geff before the repair (D5)
  opcode/args of `ro`: 0 sel csv | 1 sel csvseg | 2 sel geff | 3 save | 4 n id* positions |
    5 n id* times | 6 node pixels | 7 tid t neighbors | 8 tid t has | 9 nextTid | 10 nextLin |
    11 nodes | 12 edges | 13 inDegree | 14 outDegree | 15 n preds | 16 n succs | 17 n key nodeAttr |
    18 u v key edgeAttr | 19 features

  output  one line, space separated.
    col tokens   t a<i> pos id pid tid lin f<k> src dst ;  cell tokens  n<k> | v<k> | L <n> v* | e
    csv    ok hdr <n> col* rows <m> { cell* in header order }*           rows in graph order when
           there is no selection, sorted by id otherwise; csvseg appends  seg <0|1> [T P l*]
    geff   ok axes <n> col* scale <n> v* nodes <n> { id <k> {col cell}* }* edges <m> { u v <k>
           {col cell}* }* seg <0|1> [T P l*]      nodes/edges sorted, dict entries sorted by column
    int    ok ndim perAxis scale <0|1> [n v*] reg <n> k* nodes <n> { <k> {col cell}* }* links <m> {…}*
           seg …                                  nodes/links in stored order, dicts sorted
    csvrt  ok nodes <n> { id time tid npos p* }* edges <m> { u v }*     sorted     | none
    geffrt ok nodes <n> { id time tid lin npos p* nfeat { key nvals v* }* }* edges <m> { u v nfeat … }*
           seg …                                                                    | none
    intrt  ok + the `tracks` encoding of the input language (lists in stored order)  | none
    anc    ok <n> id*  (sorted, no duplicates)
    ro     st scale <0|1> [n v*] t2n <n> { tid n id* }* out <rendering of the output>
    err:nx  a selected node is not in the graph ;  bad-op  anything malformed
-/
import FtModel.Export
namespace Ft.Export

/-! ### parser over a list of naturals -/

abbrev P (α : Type) := List Nat → Option (α × List Nat)

def pNat : P Nat
  | x :: r => some (x, r)
  | [] => none

def pMany {α} (p : P α) : Nat → P (List α)
  | 0, ts => some ([], ts)
  | n + 1, ts => do
      let (x, r) ← p ts
      let (xs, r') ← pMany p n r
      pure (x :: xs, r')

def pList {α} (p : P α) : P (List α) := fun ts => do
  let (n, r) ← pNat ts
  pMany p n r

def pFeat : P (Key × List Val) := fun ts => do
  let (k, r) ← pNat ts
  let (vs, r) ← pList pNat r
  pure ((k, vs), r)

def pNode : P NodeRec := fun ts => do
  let (i, r) ← pNat ts
  let (t, r) ← pNat r
  let (k, r) ← pNat r
  let (l, r) ← pNat r
  let (ps, r) ← pList pNat r
  let (fs, r) ← pList pFeat r
  pure (⟨i, t, k, l, ps, fs⟩, r)

def pEdge : P EdgeRec := fun ts => do
  let (u, r) ← pNat ts
  let (v, r) ← pNat r
  let (fs, r) ← pList pFeat r
  pure (⟨u, v, fs⟩, r)

def pOpt {α} (p : P α) : P (Option α) := fun ts => do
  let (flag, r) ← pNat ts
  match flag with
  | 0 => pure (none, r)
  | 1 => do
      let (x, r') ← p r
      pure (some x, r')
  | _ => none

def chunks (p : Nat) : Nat → List Nat → List (List Nat)
  | 0, _ => []
  | n + 1, xs => xs.take p :: chunks p n (xs.drop p)

def pSeg : P (List (List Nat)) := fun ts => do
  let (T, r) ← pNat ts
  let (Pn, r) ← pNat r
  let (flat, r) ← pMany pNat (T * Pn) r
  pure (chunks Pn T flat, r)

def pBool : P Bool := fun ts => do
  let (b, r) ← pNat ts
  match b with
  | 0 => pure (false, r)
  | 1 => pure (true, r)
  | _ => none

def pTracks : P Tracks := fun ts => do
  let (ndim, r) ← pNat ts
  let (pa, r) ← pBool r
  let (ns, r) ← pList pNode r
  let (es, r) ← pList pEdge r
  let (seg, r) ← pOpt pSeg r
  let (sc, r) ← pOpt (pList pNat) r
  let (reg, r) ← pList pNat r
  pure (⟨ndim, ns, es, seg, sc, reg, pa⟩, r)

def pSel : P (Option (List Nat)) := pOpt (pList pNat)

def pBook : P (List (Nat × List Nat)) := pList (fun ts => do
  let (k, r) ← pNat ts
  let (l, r) ← pList pNat r
  pure ((k, l), r))

def pState : P State := fun ts => do
  let (tr, r) ← pTracks ts
  let (t2n, r) ← pBook r
  let (l2n, r) ← pBook r
  let (a, r) ← pNat r
  let (b, r) ← pNat r
  let (c, r) ← pNat r
  let (u, r) ← pNat r
  let (d, r) ← pNat r
  let (act, r) ← pList pNat r
  pure (⟨tr, t2n, l2n, a, b, c, u, d, act⟩, r)

def pROp : P ROp := fun ts => do
  let (code, r) ← pNat ts
  match code with
  | 0 => do let (s, r) ← pSel r; pure (.exportCsv s, r)
  | 1 => do let (s, r) ← pSel r; pure (.exportCsvSeg s, r)
  | 2 => do let (s, r) ← pSel r; pure (.exportGeff s, r)
  | 3 => pure (.save, r)
  | 4 => do let (l, r) ← pList pNat r; pure (.getPositions l, r)
  | 5 => do let (l, r) ← pList pNat r; pure (.getTimes l, r)
  | 6 => do let (n, r) ← pNat r; pure (.getPixels n, r)
  | 7 => do let (a, r) ← pNat r; let (b, r) ← pNat r; pure (.trackNeighbors a b, r)
  | 8 => do let (a, r) ← pNat r; let (b, r) ← pNat r; pure (.hasTrackAt a b, r)
  | 9 => pure (.nextTid, r)
  | 10 => pure (.nextLin, r)
  | 11 => pure (.nodes, r)
  | 12 => pure (.edges, r)
  | 13 => pure (.inDegree, r)
  | 14 => pure (.outDegree, r)
  | 15 => do let (n, r) ← pNat r; pure (.preds n, r)
  | 16 => do let (n, r) ← pNat r; pure (.succs n, r)
  | 17 => do let (n, r) ← pNat r; let (k, r) ← pNat r; pure (.nodeAttr n k, r)
  | 18 => do
      let (u, r) ← pNat r
      let (v, r) ← pNat r
      let (k, r) ← pNat r
      pure (.edgeAttr u v k, r)
  | 19 => pure (.features, r)
  | _ => none

/-! ### rendering -/

def insertBy {α} (lt : α → α → Bool) (x : α) : List α → List α
  | [] => [x]
  | y :: ys => if lt x y then x :: y :: ys else y :: insertBy lt x ys

def sortBy {α} (lt : α → α → Bool) (xs : List α) : List α := xs.foldr (insertBy lt) []

def pairLt (a b : Nat × Nat) : Bool := a.1 < b.1 || (a.1 == b.1 && a.2 < b.2)

def dedupNat : List Nat → List Nat
  | [] => []
  | x :: xs => if xs.contains x then dedupNat xs else x :: dedupNat xs

def rCol : Col → String
  | .time => "t"
  | .axis i => s!"a{i}"
  | .pos => "pos"
  | .id => "id"
  | .parent => "pid"
  | .tid => "tid"
  | .lin => "lin"
  | .feat k => s!"f{k}"
  | .src => "src"
  | .dst => "dst"

def rNats (l : List Nat) : List String := toString l.length :: l.map toString

def rCell : Cell → List String
  | .nat n => [s!"n{n}"]
  | .val v => [s!"v{v}"]
  | .vals vs => "L" :: rNats vs
  | .empty => ["e"]

def rDictSorted (d : Dict) : List String :=
  let items := sortBy (fun a b => decide (a.1 < b.1)) (d.map (fun p => (rCol p.1, rCell p.2)))
  toString d.length :: items.flatMap (fun p => p.1 :: p.2)

def rSeg : Option (List (List Nat)) → List String
  | none => ["seg", "0"]
  | some frames =>
    ["seg", "1", toString frames.length, toString ((frames.head?.map List.length).getD 0)] ++
      frames.flatMap (fun fr => fr.map toString)

def rowId (d : Dict) : Nat := (getNat d .id).getD 0

def rCsv (sorted : Bool) (c : Csv) : List String :=
  let rows := if sorted then sortBy (fun a b => rowId a < rowId b) c.rows else c.rows
  ["hdr", toString c.header.length] ++ c.header.map rCol ++ ["rows", toString rows.length] ++
    rows.flatMap (fun d => c.header.flatMap (fun col => rCell ((alook col d).getD .empty)))

def rGeff (g : Geff) : List String :=
  let ns := sortBy (fun a b => a.1 < b.1) g.nodes
  let es := sortBy (fun a b => pairLt a.1 b.1) g.edges
  ["axes", toString g.axisNames.length] ++ g.axisNames.map rCol ++ ["scale"] ++ rNats g.scale ++
    ["nodes", toString ns.length] ++ ns.flatMap (fun p => toString p.1 :: rDictSorted p.2) ++
    ["edges", toString es.length] ++
      es.flatMap (fun p => [toString p.1.1, toString p.1.2] ++ rDictSorted p.2) ++
    rSeg g.seg

def rOptNats : Option (List Nat) → List String
  | none => ["0"]
  | some l => "1" :: rNats l

def rInternal (f : Internal) : List String :=
  [toString f.ndim, if f.perAxis then "1" else "0", "scale"] ++ rOptNats f.scale ++
    ["reg"] ++ rNats f.registry ++
    ["nodes", toString f.nodes.length] ++ f.nodes.flatMap rDictSorted ++
    ["links", toString f.links.length] ++ f.links.flatMap rDictSorted ++ rSeg f.seg

def rFeats (fs : List (Key × List Val)) : List String :=
  toString fs.length ::
    (sortBy (fun a b => a.1 < b.1) fs).flatMap (fun kv => toString kv.1 :: rNats kv.2)

def rNode (n : NodeRec) : List String :=
  [toString n.id, toString n.time, toString n.tid, toString n.lin] ++ rNats n.pos ++ rFeats n.feats

def rEdge (e : EdgeRec) : List String := [toString e.src, toString e.dst] ++ rFeats e.feats

def rCsvTracks (t : CsvTracks) : List String :=
  let ns := sortBy (fun a b => a.id < b.id) t.nodes
  ["nodes", toString ns.length] ++
    ns.flatMap (fun n => [toString n.id, toString n.time, toString n.tid] ++ rNats n.pos) ++
    ["edges", toString t.edges.length] ++
    (sortBy pairLt t.edges).flatMap (fun e => [toString e.1, toString e.2])

def rLoaded (l : Loaded) : List String :=
  let ns := sortBy (fun a b => a.id < b.id) l.nodes
  let es := sortBy (fun a b => pairLt (a.src, a.dst) (b.src, b.dst)) l.edges
  ["nodes", toString ns.length] ++ ns.flatMap rNode ++
    ["edges", toString es.length] ++ es.flatMap rEdge ++ rSeg l.seg

def rTracks (s : Tracks) : List String :=
  [toString s.ndim, if s.perAxis then "1" else "0", "nodes", toString s.nodes.length] ++
    s.nodes.flatMap rNode ++ ["edges", toString s.edges.length] ++ s.edges.flatMap rEdge ++
    rSeg s.seg ++ ["scale"] ++ rOptNats s.scale ++ ["reg"] ++ rNats s.registry

def rBook (b : List (Nat × List Nat)) : List String :=
  toString b.length ::
    (sortBy (fun x y => x.1 < y.1) b).flatMap (fun p => toString p.1 :: rNats p.2)

def rOptNat : Option Nat → String
  | none => "-"
  | some n => toString n

def rOut (selGiven : Bool) : Out → List String
  | .csv c => "csv" :: rCsv selGiven c
  | .csvSeg c seg => "csvseg" :: (rCsv selGiven c ++ rSeg seg)
  | .geff g => "geff" :: rGeff g
  | .internal f => "int" :: rInternal f
  | .nats l => "nats" :: rNats l
  | .pairs l => "pairs" :: toString l.length :: l.flatMap (fun p => [toString p.1, toString p.2])
  | .poss l => "poss" :: toString l.length :: l.flatMap rOptNats
  | .optPair a b => ["optpair", rOptNat a, rOptNat b]
  | .bool b => ["bool", if b then "1" else "0"]
  | .nat n => ["nat", toString n]
  | .vals v => "vals" :: rOptNats v
  | .pixels p => "pixels" :: rOptNats p
  | .err => ["err:nx"]

def opSelGiven : ROp → Bool
  | .exportCsv (some _) | .exportCsvSeg (some _) | .exportGeff (some _) => true
  | _ => false

def rStateOut (selGiven : Bool) (r : State × Out) : String :=
  joinSp (["st", "scale"] ++ rOptNats r.1.tr.scale ++ ["t2n"] ++ rBook r.1.t2n ++ ["out"] ++
    rOut selGiven r.2)

/-! ### dispatch -/

def done {α} (x : Option (α × List Nat)) : Option α :=
  match x with
  | some (a, []) => some a
  | _ => none

def handle : List String → String
  | cmd :: rest =>
    match parseNats rest with
    | none => "bad-op"
    | some (one :: nums) =>
      match cmd with
      | "csv" | "csvseg" | "geff" | "anc" =>
        match done (do let (s, r) ← pTracks nums; let (sel, r) ← pSel r; pure ((s, sel), r)) with
        | none => "bad-op"
        | some (s, sel) =>
          if !selOk s sel then "err:nx" else
          match cmd with
          | "csv" => joinSp ("ok" :: rCsv sel.isSome (encodeCsv s sel))
          | "csvseg" =>
            joinSp ("ok" :: (rCsv sel.isSome (encodeCsv s sel) ++ rSeg (s.seg.map (csvSeg s sel))))
          | "geff" => joinSp ("ok" :: rGeff (encodeGeff one s sel))
          | _ => joinSp ("ok" :: rNats (sortNat (dedupNat (keepIds s sel))))
      | "int" | "csvrt" | "intrt" =>
        match done (pTracks nums) with
        | none => "bad-op"
        | some s =>
          match cmd with
          | "int" => joinSp ("ok" :: rInternal (encodeInternal s))
          | "csvrt" =>
            match decodeCsv (nax s) (encodeCsv s none) with
            | none => "none"
            | some t => joinSp ("ok" :: rCsvTracks t)
          | _ =>
            match decodeInternal (encodeInternal s) with
            | none => "none"
            | some t => joinSp ("ok" :: rTracks t)
      | "geffrt" =>
        match done (do
            let (s, r) ← pTracks nums
            let (ks, r) ← pList pNat r
            let (eks, r) ← pList pNat r
            pure ((s, ks, eks), r)) with
        | none => "bad-op"
        | some (s, ks, eks) =>
          match decodeGeff (nax s) ks eks (encodeGeff one s none) with
          | none => "none"
          | some l => joinSp ("ok" :: rLoaded l)
      | "ro" =>
        match done (do let (st, r) ← pState nums; let (op, r) ← pROp r; pure ((st, op), r)) with
        | none => "bad-op"
        | some (st, op) => rStateOut (opSelGiven op) (runRO one op st)
      | "roorig" =>
        match done (do let (st, r) ← pState nums; let (sel, r) ← pSel r; pure ((st, sel), r)) with
        | none => "bad-op"
        | some (st, sel) => rStateOut sel.isSome (exportGeffOrig one sel st)
      | _ => "bad-op"
    | some [] => "bad-op"
  | _ => "bad-op"

end Ft.Export
