/-
  FtModel.IdValidate — geff's id validators `validate_tracklets` / `validate_lineages`
  (geff/validate/tracks.py), as called by funtracks' `validate_in_memory_geff`
  (import_export/_validation.py) on the loaded `track_id` / `lineage_id` column: when a validator
  answers "invalid" the importer warns, deletes the column and recomputes the ids.  So far the
  verdicts were TRUSTED flags `tv lv : Bool` of `ExportDisplay.decodeCsvDisplay`; this file models
  the two functions as total computable functions over a node list, an edge list and the id column
  (package R8V).  Core Lean only.

  Python (geff/validate/tracks.py)                           Lean (this file)
  ---------------------------------------------------------  ----------------------------------------------
  node_ids / edge_ids / tracklet_ids (np.int64 arrays)       `nodes : List Nat`, `es : List (Nat × Nat)`,
                                                             `tids : List Nat`  (any lengths, duplicates and
                                                             edges between unknown nodes are accepted, as in
                                                             Python)
  for node, t_id in zip(nodes, tracklets, strict=False):     `group nodes tids t` = the nodes zipped with `t`, in
      tracklet_to_nodes.setdefault(t_id, []).append(node)    order, WITH repetitions; `keys nodes tids` = the dict
                                                             keys in first-appearance order (zip truncates to the
                                                             shorter list)
  G = nx.DiGraph(edges); G.add_nodes_from(nodes)             never built: `predsG es n` / `succsG es n` =
                                                             `list(G.predecessors(n))` / `list(G.successors(n))`
                                                             (a DiGraph stores a repeated edge once: `dedup`;
                                                             a self-loop counts once in each direction)
  if len(t_nodes) < 2: continue                              `tn.length < 2 → true`  (the LIST length: a node id
                                                             that occurs twice in `node_ids` counts twice)
  S = G.subgraph(t_nodes)                                    node set `dedup tn`; an edge of G is an edge of S iff
                                                             both ends are in it: `indegIn` / `outdegIn` /
                                                             `subEdges`
  max_in_degree > 1 or max_out_degree > 1 → error            `degOk`
  not nx.is_directed_acyclic_graph(S) → error                `acyclic`: peel the nodes without predecessor in the
                                                             remaining set, |S| rounds (Kahn); acyclic ⇔ nothing
                                                             remains.  `R8V.acyclic_iff_rank`, `R8V.acyclic_no_cycle`
  not nx.is_weakly_connected(S) → error                      `connectedIn`: undirected closure of the first node
                                                             under the edges of S covers S (`reach`, spec
                                                             `R8V.mem_reach_iff`)
  start_node = next(n for n, d in S.in_degree if d == 0)     `find?` over `dedup tn`.  After the three checks S is
  end_node   = next(n for n, d in S.out_degree if d == 0)    one simple path: the node is unique (`R8V.start_unique`,
                                                             `R8V.end_unique`), the iteration order of the subgraph
                                                             view (a Python set) is immaterial.  `next` cannot
                                                             raise: `R8V.start_exists`, `R8V.end_exists`; the
                                                             `none` branches are dead and answer `false`
                                                             (`C14_validator_start_end_determined`).
  preds_in_G = list(G.predecessors(start_node))              `extBack es a`
  len == 1 and G.out_degree(preds_in_G[0]) == 1 → error
  succs_in_G = list(G.successors(end_node))                  `extFwd es b`
  len == 1 and G.in_degree(succs_in_G[0]) == 1 → error
  return not errors                                          `validateTracklets` = every key passes (`all`)
  --- validate_lineages -------------------------------------------------------------------------------------
  lineage_to_nodes (same grouping)                           `group` / `keys`
  valid_components = {frozenset(c) for c in                  never built: the weakly connected components
      nx.weakly_connected_components(G)}                     partition the nodes of G, so `frozenset(l_nodes)` is
  frozenset(l_nodes) not in valid_components → error         one of them iff it equals the component of its first
                                                             node: `component es n0` = `reach (sym es) [n0]`
                                                             compared with `l_nodes` AS SETS (`sameSet`)
  if not l_nodes: continue                                   `[] => true` (dead: a key has at least one node)

  Ids are naturals here (the session model's node / track / lineage ids are); the Python functions
  work on int64 and never use the order or sign of an id.

  Driver: family tag `IDV`, stateless.
    input    IDV n id_1 … id_n  m u_1 v_1 … u_m v_m  tid_1 … tid_n  lin_1 … lin_n     (decimal naturals)
    output   <t|f> <t|f>      verdict of `validate_tracklets`, verdict of `validate_lineages`
             bad-op           malformed (non-numeric token, wrong number of tokens)
    e.g.     IDV 3 1 2 3 2 1 2 2 3 5 5 5 1 1 1  →  t t
             IDV 3 1 2 3 2 1 2 2 3 5 5 6 1 1 2  →  f f
  Wiring (not done here): FtModel.lean `import FtModel.IdValidate`;
    Main.lean `| "IDV" :: rest => (d, IdValidate.handle rest)`.
-/
import FtModel.Basic
namespace Ft.IdValidate
open Ft

abbrev Edge := Nat × Nat

/-- keep the first occurrence of every element (iteration order of a Python dict / DiGraph adjacency) -/
def dedup : List Nat → List Nat
  | [] => []
  | x :: xs => x :: (dedup xs).filter (fun y => y != x)

/-! ### the graph `G` -/

/-- `list(G.predecessors(n))` -/
def predsG (es : List Edge) (n : Nat) : List Nat := dedup ((es.filter (fun e => e.2 == n)).map (·.1))

/-- `list(G.successors(n))` -/
def succsG (es : List Edge) (n : Nat) : List Nat := dedup ((es.filter (fun e => e.1 == n)).map (·.2))

/-- `S.in_degree(n)` for `S = G.subgraph(S)` -/
def indegIn (es : List Edge) (S : List Nat) (n : Nat) : Nat := ((predsG es n).filter (S.contains ·)).length

/-- `S.out_degree(n)` -/
def outdegIn (es : List Edge) (S : List Nat) (n : Nat) : Nat := ((succsG es n).filter (S.contains ·)).length

/-- the edges of `G.subgraph(S)` -/
def subEdges (es : List Edge) (S : List Nat) : List Edge :=
  es.filter (fun e => S.contains e.1 && S.contains e.2)

/-- both directions of every edge -/
def sym (es : List Edge) : List Edge := es ++ es.map (fun e => (e.2, e.1))

/-! ### reachability -/

/-- one round: add the target of every edge that leaves `X` -/
def grow (es : List Edge) (X : List Nat) : List Nat :=
  X ++ (es.filter (fun e => X.contains e.1 && !X.contains e.2)).map (·.2)

def growN (es : List Edge) : Nat → List Nat → List Nat
  | 0, X => X
  | k + 1, X => growN es k (grow es X)

/-- everything reachable from `X` along directed edges of `es` (every productive round adds a new
    edge target, so `es.length` rounds suffice) -/
def reach (es : List Edge) (X : List Nat) : List Nat := growN es es.length X

/-- the weakly connected component of `n` in `G` -/
def component (es : List Edge) (n : Nat) : List Nat := reach (sym es) [n]

/-! ### acyclicity of an induced subgraph -/

/-- one round of Kahn's algorithm on the subgraph induced by `rem`: keep the nodes that still have
    a predecessor in `rem` -/
def peel (es : List Edge) (rem : List Nat) : List Nat :=
  rem.filter (fun n => es.any (fun e => e.2 == n && rem.contains e.1))

def peelN (es : List Edge) : Nat → List Nat → List Nat
  | 0, rem => rem
  | k + 1, rem => peelN es k (peel es rem)

/-- `nx.is_directed_acyclic_graph(G.subgraph(S))` -/
def acyclic (es : List Edge) (S : List Nat) : Bool := (peelN es S.length S).isEmpty

/-- `nx.is_weakly_connected(G.subgraph(S))` (S non-empty; on the empty graph networkx raises) -/
def connectedIn (es : List Edge) (S : List Nat) : Bool :=
  match S with
  | [] => false
  | n0 :: _ => S.all ((reach (sym (subEdges es S)) [n0]).contains ·)

/-! ### validate_tracklets -/

/-- the dict keys: ids in first-appearance order -/
def keys (nodes ids : List Nat) : List Nat := dedup ((nodes.zip ids).map (·.2))

/-- the dict value of key `t` -/
def group (nodes ids : List Nat) (t : Nat) : List Nat := ((nodes.zip ids).filter (fun p => p.2 == t)).map (·.1)

def degOk (es : List Edge) (S : List Nat) : Bool :=
  S.all (fun n => indegIn es S n ≤ 1) && S.all (fun n => outdegIn es S n ≤ 1)

/-- "the path could be extended backward" from its start node `a` -/
def extBack (es : List Edge) (a : Nat) : Bool :=
  match predsG es a with
  | [p] => (succsG es p).length == 1
  | _ => false

/-- "the path could be extended forward" from its end node `b` -/
def extFwd (es : List Edge) (b : Nat) : Bool :=
  match succsG es b with
  | [c] => (predsG es c).length == 1
  | _ => false

/-- the loop body for one tracklet: `true` = no error appended -/
def trackletOk (es : List Edge) (tn : List Nat) : Bool :=
  if tn.length < 2 then true
  else
    let S := dedup tn
    if !degOk es S then false
    else if !acyclic es S then false
    else if !connectedIn es S then false
    else
      match S.find? (fun n => indegIn es S n == 0), S.find? (fun n => outdegIn es S n == 0) with
      | some a, some b => !extBack es a && !extFwd es b
      | _, _ => false

/-- `validate_tracklets(node_ids, edge_ids, tracklet_ids)[0]` -/
def validateTracklets (nodes : List Nat) (es : List Edge) (tids : List Nat) : Bool :=
  (keys nodes tids).all (fun t => trackletOk es (group nodes tids t))

/-! ### validate_lineages -/

def sameSet (a b : List Nat) : Bool := a.all (b.contains ·) && b.all (a.contains ·)

def lineageOk (es : List Edge) (ln : List Nat) : Bool :=
  match ln with
  | [] => true
  | n0 :: _ => sameSet ln (component es n0)

/-- `validate_lineages(node_ids, edge_ids, lineage_ids)[0]` -/
def validateLineages (nodes : List Nat) (es : List Edge) (lins : List Nat) : Bool :=
  (keys nodes lins).all (fun l => lineageOk es (group nodes lins l))

/-! ### driver -/

def takeN : Nat → List Nat → Option (List Nat × List Nat)
  | 0, xs => some ([], xs)
  | _ + 1, [] => none
  | n + 1, x :: xs => do
      let (a, b) ← takeN n xs
      pure (x :: a, b)

def toPairs : List Nat → Option (List Edge)
  | [] => some []
  | [_] => none
  | a :: b :: r => do
      let ps ← toPairs r
      pure ((a, b) :: ps)

def tf (b : Bool) : String := if b then "t" else "f"

def handle (ts : List String) : String :=
  match parseNats ts with
  | none => "bad-op"
  | some nums =>
    match nums with
    | n :: rest =>
      match takeN n rest with
      | some (nodes, m :: rest2) =>
        match takeN (2 * m) rest2 with
        | some (etoks, rest3) =>
          match toPairs etoks, takeN n rest3 with
          | some es, some (tids, lins) =>
            if lins.length != n then "bad-op"
            else joinSp [tf (validateTracklets nodes es tids), tf (validateLineages nodes es lins)]
          | _, _ => "bad-op"
        | none => "bad-op"
      | _ => "bad-op"
    | [] => "bad-op"

end Ft.IdValidate
