/-
  FtModel.Construct — construction of a `Tracks` / `SolutionTracks` object (package R7S):
  which features get registered in the FeatureDict, which annotator features get activated,
  which get COMPUTED in bulk, which special keys are set, and what the TrackAnnotator's
  bookkeeping is built from.  Core Lean only.

  Keys are Python strings here (`Name := String`): the literal defaults of the code ("time",
  "pos", "track_id", "lineage_id", "tracklet_id", "area", "iou", …) appear verbatim, and key
  collisions behave as they do in Python dicts (every Python `dict` is an association list in
  insertion order; `d[k] = v` is `aset`: an existing key keeps its position and gets the new value;
  `d.update(e)` is `amerge`).

  Python (src/funtracks/…)                                   | here
  -----------------------------------------------------------+----------------------------------
  Tracks.__init__(graph, segmentation, time_attr, pos_attr,   | `CInput`, `construct`
      tracklet_attr, lineage_attr, scale, ndim, features)     |   (scale: irrelevant; `_compute_ndim`
                                                              |   errors are outside the model)
  graph.nodes (insertion order), graph.nodes[n] (attr dict)   | `CInput.nodes : List CNode`, `CNode.attrs`
                                                              |   (value `none` = Python None; presence
                                                              |   is what `_check_existing_feature` tests)
  "label n occurs somewhere in the segmentation"              | `CNode.hasMask` (regionprops `compute`
                                                              |   visits every frame and every label that
                                                              |   is a node, whatever the node's time)
  FeatureDict (dict + time/position/tracklet/lineage_key)     | `COut.reg`, `timeKey`, `posKey`,
                                                              |   `trackletKey`, `lineageKey`
  Feature TypedDicts (Time(), Position(axes), Area(ndim) …)   | `Feat`
  Tracks._get_feature_set                                     | `featureSet`
  Tracks._get_annotators, RegionpropsAnnotator.__init__,      | `mkAnnotators`, `rpTable`, `edgeTable`,
      EdgeAnnotator.__init__, TrackAnnotator.__init__         |   `mkTrack`, `maxIdMap`
  AnnotatorRegistry.all_features (aggregated.update …)        | `allFeatures`
  GraphAnnotator.activate_features / registry.activate_…      | `activateTbl`, `activate` (`none` = KeyError)
  Tracks._activate_features_from_dict                         | `activateFromDict`
  Tracks._check_existing_feature                              | `checkExisting`
  Tracks._setup_core_computed_features                        | `setupCore` (`coreKeys`, `setupKey`)
  Tracks.enable_features(keys, recompute)                     | `enable` (`none` = KeyError, nothing changed)
  AnnotatorRegistry.compute → Regionprops/Edge/Track compute  | `computeAll` (`rpCompute`, `edgeCompute`,
                                                              |   `trackCompute` = `computeT`, `computeL`; the id assignment itself
                                                              |   is `St.assignTracklets/assignLineages`
                                                              |   of FtModel.Annot on `graphSt`)
  SolutionTracks.__init__ (= Tracks.__init__ + lookup of the  | `construct` with `solution := true`
      TrackAnnotator)                                         |
  SolutionTracks.from_tracks                                  | `fromTracks` (`fromForce`, `fromSoln`)

  Variants for the repaired defects (used by the witness theorems only):
  `featureSetD10` (per-axis features written into the plain dict AFTER the FeatureDict copied it:
  never registered), `enableD17` (special keys not set by `enable_features`), `fromTracksUnfixed`
  (`from_tracks` before fix 895cc32: id features left inactive / KeyError on a None lineage key).

  Not modelled: values of position/area/IoU (the log `computed` says which (annotator, key) pairs
  were recomputed in bulk, `CNode.attrs` records presence), the `warn` when both a FeatureDict and
  attr arguments are given (the arguments are ignored, as in the code), the fact that
  `from_tracks` hands the SAME FeatureDict object to the new tracks (later registry changes of the
  new object show in the old one).
-/
import FtModel.Annot
namespace Ft.Construct
open Ft

abbrev Name := String

/-- the Feature descriptors the construction code can produce (`user n` = anything else found
    in a pre-built FeatureDict; `axis` = the per-axis float feature literal of `_get_feature_set`) -/
inductive Feat where
  | time
  | position (nax : Nat)       -- Position(axes): num_values = nax
  | axis
  | area (ndim : Nat)
  | ellipse (ndim : Nat)
  | circ (ndim : Nat)
  | perim (ndim : Nat)
  | iou
  | tracklet
  | lineage
  | user (tag : Nat)
deriving Repr, DecidableEq, BEq

/-- `FeatureDict.position_key : str | list[str] | None` -/
inductive PosKey where
  | none
  | single (k : Name)
  | multi (ks : List Name)
deriving Repr, DecidableEq, BEq

structure CNode where
  id : Node
  time : Nat
  hasMask : Bool := false
  attrs : List (Name × Option Nat) := []
deriving Repr, DecidableEq, BEq

/-- a pre-built FeatureDict handed to the constructor -/
structure Prebuilt where
  feats : List (Name × Feat)
  timeKey : Option Name
  posKey : PosKey
  trackletKey : Option Name
  lineageKey : Option Name
deriving Repr, DecidableEq, BEq

structure CInput where
  solution : Bool                    -- SolutionTracks(…) vs Tracks(…)
  hasSeg : Bool
  ndim : Nat
  timeAttr : Option Name := none
  posAttr : PosKey := .none          -- None | str | list/tuple of str
  trackletAttr : Option Name := none
  lineageAttr : Option Name := none
  prebuilt : Option Prebuilt := none
  nodes : List CNode := []
  edges : List Edge := []
deriving Repr, DecidableEq, BEq

inductive AKind where
  | rp | edge | track
deriving Repr, DecidableEq, BEq

abbrev Table := List (Name × Feat × Bool)      -- annotator.all_features

/-- where the TrackAnnotator's lookup for one id kind comes from -/
inductive BookSrc where
  | notBuilt        -- left at `{}` / 0 by `__init__`
  | fromGraph       -- `_get_max_id_and_map` over the existing attribute values
  | computed        -- replaced by `_assign_tracklet_ids` / `_assign_lineage_ids`
deriving Repr, DecidableEq, BEq

structure TrackAnn where
  tKey : Name
  lKey : Name
  table : Table
  t2n : List (Nat × List Node) := []
  l2n : List (Nat × List Node) := []
  maxT : Nat := 0
  maxL : Nat := 0
  tSrc : BookSrc := .notBuilt
  lSrc : BookSrc := .notBuilt
deriving Repr, DecidableEq, BEq

/-- the constructed object (also the state `enable` / `fromTracks` work on) -/
structure COut where
  solution : Bool := false
  hasSeg : Bool := false
  ndim : Nat := 3
  reg : List (Name × Feat) := []               -- FeatureDict, insertion order
  timeKey : Option Name := none
  posKey : PosKey := .none
  trackletKey : Option Name := none
  lineageKey : Option Name := none
  rp : Option (Name × Table) := none           -- RegionpropsAnnotator: pos_key, all_features
  edge : Option Table := none                  -- EdgeAnnotator
  track : Option TrackAnn := none              -- TrackAnnotator
  nodes : List CNode := []
  edges : List Edge := []
  computed : List (AKind × Name) := []         -- bulk computations, in execution order
deriving Repr, DecidableEq, BEq

/-! ### small dict helpers -/

def hasKey {β} (k : Name) (d : List (Name × β)) : Bool := d.any (·.1 == k)

def keysOf {β} (d : List (Name × β)) : List Name := d.map (·.1)

/-- `dict(pairs)` / `{k1: v1, k2: v2}` with possibly equal keys -/
def dictOf {β} (ps : List (Name × β)) : List (Name × β) :=
  ps.foldl (fun acc kv => aset kv.1 kv.2 acc) []

def nax (ndim : Nat) : Nat := if ndim = 4 then 3 else 2

/-! ### 1. the feature set (`_get_feature_set`) -/

def featureSet (i : CInput) : COut :=
  let timeKey := i.timeAttr.getD "time"
  let posAttr := match i.posAttr with
    | .none => PosKey.single "pos"
    | p => p
  let tk := i.trackletAttr.getD "track_id"
  let lk := i.lineageAttr.getD "lineage_id"
  let reg0 : List (Name × Feat) := [(timeKey, .time)]
  let (reg, posKey) :=
    if i.hasSeg then (reg0, PosKey.none)
    else match posAttr with
      | .multi ks => (ks.foldl (fun r a => aset a Feat.axis r) reg0, PosKey.multi ks)
      | .single k => (aset k (Feat.position (nax i.ndim)) reg0, PosKey.single k)
      | .none => (reg0, PosKey.none)      -- unreachable (`posAttr` is never `.none` here)
  { solution := i.solution, hasSeg := i.hasSeg, ndim := i.ndim, reg := reg,
    timeKey := some timeKey, posKey := posKey, trackletKey := some tk, lineageKey := some lk,
    nodes := i.nodes, edges := i.edges }

/-- the pinned (pre-D10) code: the per-axis features go into the plain dict `features` after
    `FeatureDict(features=features, …)` copied it — the FeatureDict never sees them -/
def featureSetD10 (i : CInput) : COut :=
  let o := featureSet i
  if i.hasSeg then o else
  match i.posAttr with
  | .multi _ => { o with reg := [(i.timeAttr.getD "time", .time)] }
  | _ => o

def ofPrebuilt (i : CInput) (p : Prebuilt) : COut :=
  { solution := i.solution, hasSeg := i.hasSeg, ndim := i.ndim, reg := p.feats,
    timeKey := p.timeKey, posKey := p.posKey, trackletKey := p.trackletKey,
    lineageKey := p.lineageKey, nodes := i.nodes, edges := i.edges }

/-! ### 2. the annotators (`_get_annotators`) -/

/-- `RegionpropsAnnotator.__init__`: the default spec list; a custom position key removes the
    `"pos"` spec and APPENDS the renamed one -/
def rpTable (ndim : Nat) (posKey : Name) : Table :=
  let specs : List (Name × Feat) :=
    [("pos", .position (nax ndim)), ("area", .area ndim), ("ellipse_axis_radii", .ellipse ndim),
     ("circularity", .circ ndim), ("perimeter", .perim ndim)]
  let specs' :=
    if posKey != "pos" then
      (specs.filter (·.1 != "pos")) ++ [(posKey, Feat.position (nax ndim))]
    else specs
  (dictOf specs').map (fun kv => (kv.1, kv.2, false))

def edgeTable : Table := [("iou", .iou, false)]

def attrVal (n : CNode) (k : Name) : Option Nat := (alook k n.attrs).getD none

/-- `_get_max_id_and_map(key)`: nodes in graph order, None/absent skipped -/
def maxIdMap (nodes : List CNode) (key : Name) : Nat × List (Nat × List Node) :=
  nodes.foldl (fun (acc : Nat × List (Nat × List Node)) n =>
    match attrVal n key with
    | none => acc
    | some v => (if v > acc.1 then v else acc.1, aset v ((alook v acc.2).getD [] ++ [n.id]) acc.2))
    (0, [])

/-- `TrackAnnotator.__init__(tracks, tracklet_key, lineage_key)` -/
def mkTrack (nodes : List CNode) (tkArg lkArg : Option Name) : TrackAnn :=
  let tKey := tkArg.getD "tracklet_id"
  let lKey := lkArg.getD "lineage_id"
  let table : Table := (dictOf [(tKey, Feat.tracklet), (lKey, Feat.lineage)]).map
    (fun kv => (kv.1, kv.2, false))
  let a0 : TrackAnn := { tKey := tKey, lKey := lKey, table := table }
  let a1 := if nodes.isEmpty then a0 else
    let r := maxIdMap nodes tKey
    { a0 with maxT := r.1, t2n := r.2, tSrc := .fromGraph }
  if lkArg.isSome && !nodes.isEmpty then
    let r := maxIdMap nodes lKey
    { a1 with maxL := r.1, l2n := r.2, lSrc := .fromGraph }
  else a1

def mkAnnotators (o : COut) : COut :=
  let rp := if o.hasSeg then
      let pk := match o.posKey with
        | .single k => k
        | _ => "pos"
      some (pk, rpTable o.ndim pk)
    else none
  let edge := if o.hasSeg then some edgeTable else none
  let track := if o.solution then some (mkTrack o.nodes o.trackletKey o.lineageKey) else none
  { o with rp := rp, edge := edge, track := track }

/-- the registry as a list of (kind, all_features) in registry order -/
def annTables (o : COut) : List (AKind × Table) :=
  (match o.rp with | some r => [(AKind.rp, r.2)] | none => []) ++
  (match o.edge with | some t => [(AKind.edge, t)] | none => []) ++
  (match o.track with | some a => [(AKind.track, a.table)] | none => [])

/-- `AnnotatorRegistry.all_features` -/
def allFeatures (o : COut) : Table :=
  (annTables o).foldl (fun acc kt => amerge kt.2 acc) []

/-- keys that are active in some annotator (`AnnotatorRegistry.features`) -/
def activeKeys (o : COut) : List Name :=
  ((annTables o).flatMap (fun kt => kt.2.filter (·.2.2))).map (·.1)

/-- `GraphAnnotator.activate_features(keys)` -/
def activateTbl (keys : List Name) (t : Table) : Table :=
  keys.foldl (fun tb k => tb.map (fun e => if e.1 == k then (e.1, e.2.1, true) else e)) t

def mapTables (f : Table → Table) (o : COut) : COut :=
  { o with rp := o.rp.map (fun r => (r.1, f r.2)), edge := o.edge.map f,
           track := o.track.map (fun a => { a with table := f a.table }) }

/-- `AnnotatorRegistry.activate_features(keys)`: validates first -/
def activate (o : COut) (keys : List Name) : Option COut :=
  if keys.any (fun k => !(hasKey k (allFeatures o))) then none
  else some (mapTables (activateTbl keys) o)

/-! ### 3a. pre-built FeatureDict: `_activate_features_from_dict` -/

def activateFromDict (o : COut) : COut :=
  (keysOf o.reg).foldl (fun st k =>
    if hasKey k (allFeatures st) then (activate st [k]).getD st else st) o

/-! ### bulk computation -/

def setAttr (n : CNode) (k : Name) (v : Option Nat) : CNode := { n with attrs := aset k v n.attrs }

/-- `[k for k in feature_keys if k in self.features]` -/
def filterActive (t : Table) (keys : List Name) : List Name :=
  keys.filter (fun k => t.any (fun e => e.1 == k && e.2.2))

/-- `RegionpropsAnnotator.compute(keys)`: every node whose label occurs in the array gets every
    requested active key (value opaque: `some 0`) -/
def rpCompute (o : COut) (keys : List Name) : COut :=
  match o.rp with
  | none => o
  | some r =>
    if !o.hasSeg then o else
    let ks := filterActive r.2 keys
    if ks.isEmpty then o else
    { o with nodes := o.nodes.map (fun n => if n.hasMask then ks.foldl (fun m k => setAttr m k (some 0)) n else n),
             computed := o.computed ++ ks.map (fun k => (AKind.rp, k)) }

/-- `EdgeAnnotator.compute(keys)` (edge attributes are not part of this model: log only) -/
def edgeCompute (o : COut) (keys : List Name) : COut :=
  match o.edge with
  | none => o
  | some t =>
    if !o.hasSeg then o else
    let ks := filterActive t keys
    if ks.isEmpty then o else
    if ks.contains "iou" then { o with computed := o.computed ++ [(AKind.edge, "iou")] } else o

/-- the graph as a session-model state: ids read through the annotator's keys (a missing track id
    is the placeholder 0 — `assignTracklets` overwrites every node) -/
def graphSt (nodes : List CNode) (edges : List Edge) (tKey lKey : Name) : St :=
  { nodes := nodes.map (fun n =>
      { id := n.id, time := n.time, tid := (attrVal n tKey).getD 0, lin := attrVal n lKey }),
    edges := edges.map (fun e => { e := e }) }

/-- `_assign_tracklet_ids` -/
def computeT (o : COut) (a : TrackAnn) : COut × TrackAnn :=
  let s := (graphSt o.nodes o.edges a.tKey a.lKey).assignTracklets
  ({ o with nodes := o.nodes.map (fun n => setAttr n a.tKey (s.tidOf n.id)),
            computed := o.computed ++ [(AKind.track, a.tKey)] },
   { a with t2n := s.t2n, maxT := s.maxTid, tSrc := BookSrc.computed })

/-- `_assign_lineage_ids` -/
def computeL (o : COut) (a : TrackAnn) : COut × TrackAnn :=
  let s := (graphSt o.nodes o.edges a.tKey a.lKey).assignLineages
  ({ o with nodes := o.nodes.map (fun n => setAttr n a.lKey (s.linOf n.id)),
            computed := o.computed ++ [(AKind.track, a.lKey)] },
   { a with l2n := s.l2n, maxL := s.maxLin, lSrc := BookSrc.computed })

/-- `TrackAnnotator.compute(keys)`: tracklets first, then lineages, whatever the order in `keys` -/
def trackCompute (o : COut) (keys : List Name) : COut :=
  match o.track with
  | none => o
  | some a =>
    let ks := filterActive a.table keys
    if ks.isEmpty then o else
    let p1 := if ks.contains a.tKey then computeT o a else (o, a)
    let p2 := if ks.contains a.lKey then computeL p1.1 p1.2 else p1
    { p2.1 with track := some p2.2 }

/-- `AnnotatorRegistry.compute(keys)`: every annotator in registry order -/
def computeAll (o : COut) (keys : List Name) : COut :=
  trackCompute (edgeCompute (rpCompute o keys) keys) keys

/-! ### `enable_features` -/

/-- registration part: `if key not in self.features: self.features[key] = all_features[key][0]` -/
def registerKeys (o : COut) (keys : List Name) : COut :=
  keys.foldl (fun st k =>
    if hasKey k st.reg then st else
    match alook k (allFeatures st) with
    | some fb => { st with reg := st.reg ++ [(k, fb.1)] }
    | none => st) o

/-- the D17 repair: the FeatureDict's tracklet/lineage key follows the TrackAnnotator -/
def setSpecial (o : COut) (keys : List Name) : COut :=
  match o.track with
  | none => o
  | some a =>
    let o1 := if keys.contains a.tKey then { o with trackletKey := some a.tKey } else o
    if keys.contains a.lKey then { o1 with lineageKey := some a.lKey } else o1

/-- `Tracks.enable_features(keys, recompute)`; `none` = KeyError, nothing changed -/
def enable (o : COut) (keys : List Name) (recompute : Bool) : Option COut :=
  match activate o keys with
  | none => none
  | some o1 =>
    let o2 := registerKeys o1 keys
    let o3 := setSpecial o2 keys
    some (if recompute then computeAll o3 keys else o3)

/-- the unrepaired `enable_features` (before D17): special keys untouched -/
def enableD17 (o : COut) (keys : List Name) (recompute : Bool) : Option COut :=
  match activate o keys with
  | none => none
  | some o1 =>
    let o2 := registerKeys o1 keys
    some (if recompute then computeAll o2 keys else o2)

/-! ### 3b. no FeatureDict given: `_setup_core_computed_features` -/

/-- `_check_existing_feature(key)`: samples the FIRST node in graph order -/
def checkExisting (o : COut) (k : Name) : Bool :=
  match o.nodes with
  | [] => true
  | n :: _ => hasKey k n.attrs

/-- first loop: special keys taken from the annotators, list of core keys -/
def coreKeys (o : COut) : COut × List Name :=
  let (o1, c1) := match o.rp with
    | some r => ({ o with posKey := PosKey.single r.1 }, [r.1, "area"])
    | none => (o, [])
  match o1.track with
  | some a => ({ o1 with trackletKey := some a.tKey, lineageKey := some a.lKey }, c1 ++ [a.tKey, a.lKey])
  | none => (o1, c1)

/-- body of the second loop -/
def setupKey (o : COut) (k : Name) : COut :=
  if checkExisting o k then
    let o1 := if hasKey k o.reg then o else
      match alook k (allFeatures o) with
      | some fb => { o with reg := o.reg ++ [(k, fb.1)] }
      | none => o
    (activate o1 [k]).getD o1
  else (enable o [k] true).getD o

def setupCore (o : COut) : COut :=
  let (o1, core) := coreKeys o
  core.foldl setupKey o1

/-! ### the constructors -/

/-- `Tracks.__init__` / `SolutionTracks.__init__` -/
def construct (i : CInput) : COut :=
  match i.prebuilt with
  | some p => activateFromDict (mkAnnotators (ofPrebuilt i p))
  | none => setupCore (mkAnnotators (featureSet i))

/-- the constructor with the pinned (pre-D10) `_get_feature_set` -/
def constructD10 (i : CInput) : COut :=
  match i.prebuilt with
  | some p => activateFromDict (mkAnnotators (ofPrebuilt i p))
  | none => setupCore (mkAnnotators (featureSetD10 i))

/-- the FeatureDict of an object, as the `features=` argument -/
def prebuiltOf (o : COut) : Prebuilt :=
  { feats := o.reg, timeKey := o.timeKey, posKey := o.posKey, trackletKey := o.trackletKey,
    lineageKey := o.lineageKey }

/-- `get_node_attr(node, key)` with `key` possibly None (→ None) -/
def attrValOpt (n : CNode) (k : Option Name) : Option Nat :=
  match k with
  | some k => attrVal n k
  | none => none

/-- `force_recompute` of `from_tracks`: some node has no (non-None) value under the tracklet key or
    under the lineage key (`get_node_attr(node, None)` is None: a missing lineage KEY forces it) -/
def fromForce (t : COut) : Bool :=
  match t.trackletKey with
  | some tk => t.nodes.any (fun n => (attrVal n tk).isNone || (attrValOpt n t.lineageKey).isNone)
  | none => false

/-- the `cls(tracks.graph, …, features=tracks.features)` call of `from_tracks` -/
def fromSoln (t : COut) : COut :=
  construct { solution := true, hasSeg := t.hasSeg, ndim := t.ndim,
              prebuilt := some (prebuiltOf t), nodes := t.nodes, edges := t.edges }

/-- `SolutionTracks.from_tracks(tracks)` as repaired (fix commit 895cc32): if the FeatureDict
    names a tracklet key, the id features (the keys that are not None) are handed to
    `enable_features(…, recompute=force_recompute)` — always activated and registered, recomputed
    only when a node lacked one.  (`none` = KeyError; cannot happen any more, see
    `C04_from_tracks_ids_active`.) -/
def fromTracks (t : COut) : Option COut :=
  let soln := fromSoln t
  match t.trackletKey with
  | some _ => enable soln ([soln.trackletKey, soln.lineageKey].filterMap id) (fromForce t)
  | none => some soln

/-- `from_tracks` before that repair: `enable_features([tracklet_key, lineage_key])` only when
    `force_recompute`, with the keys as they are (a None lineage key is a KeyError); otherwise
    the id features stay inactive and unregistered -/
def fromTracksUnfixed (t : COut) : Option COut :=
  let soln := fromSoln t
  if fromForce t then
    match soln.trackletKey, soln.lineageKey with
    | some tk, some lk => enable soln [tk, lk] true
    | _, _ => none                       -- `None` is not an available feature: KeyError
  else some soln

end Ft.Construct
