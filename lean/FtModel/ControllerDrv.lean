/-
  FtModel.ControllerDrv — line protocol for the TracksController model (family tag `SC`).

  The state is the session state of family `S` (same `init` line, same canonical state line; the
  two families share the driver's session slot, so `S` and `SC` lines may be mixed in one session).
  Token conventions as in `SessDrv` (naturals; `val := t int | m n p* | i a b | z | n`;
  `bool := 0 | 1`; lists as `n x1 … xn`).

    optcol(x) := `-`                      column absent
               | n x1 … xn                the column
    valcols   := NC (key n val1 … valn)*  the untyped columns
    masks     := `-`                      pixels=None
               | n (k p1 … pk)*           one flat-index mask per element

  Lines (after the tag `SC`):
    init …                                  exactly the `S init` line
    show | reg node|edge k                  as in `S`
    addnodes IDKEY optcol(time) optcol(track id) optcol(lineage id) optcol(node_id) valcols masks force
                                            add_nodes(attributes, pixels, force); IDKEY = the attribute
                                            key the column "node_id" is stored under on the new nodes
    delnodes n x1 … xn                      delete_nodes(nodes)
    addedges n (u v)* force                 add_edges(edges, force)
    deledges n (u v)*                       delete_edges(edges)
    swap a b                                swap_predecessors((a, b))
    updattrs n node1 … noden valcols        update_node_attrs(nodes, attributes)
    paint v NG (pixels old)* curTid force   update_segmentations (the caller paints first; as `S paint`)
    undo | redo                             undo() / redo()
    isvalid u v                             is_valid((u, v))

  Answer: `<out> | <canonical state of S>` with
    out := `ok`                returned None, nothing refused
         | `refused:<why>`     returned None after a warning, why ∈ exists | horizontal | triple |
                               closest (is_valid) | missing-edge (delete_edges) | swap (InvalidActionError
                               of UserSwapPredecessors turned into a warning)
         | `err:<e>`           an exception propagated (e as in `S`; IndexError of a short column = other);
                               the state shows what the earlier elements left behind (`updattrs`: nothing,
                               the applied updates are rolled back)
         | `true` | `false`    undo / redo / is_valid
  Malformed input: `bad-op`.  As in `S`, the reached state is cross-checked against the faithful IoU
  model (`bad-model` on a mismatch).

  Worked example (real transcript; two nodes 1@t0, 2@t1 on tracks 1 and 2, no array, position key 3,
  registered node feature 20, registered edge feature 22; answers abbreviated to the fields that
  change: E = edges, H = |undo| |redo|, R = refreshes payload):
    SC init 2 1 0 1 1 1 3 t 5 2 1 2 2 1 3 t 6 0 - 1 1 3 2 3 20 1 22 0 0 -1 0 2 1 1 1 2 1 2 2 1 1 1 2 1 2 2 2 1 0
                                            -> ok | N 2 1 0 1 1 1 3 t 5 2 1 2 2 1 3 t 6 E 0 G - … H 0 0 R 0 -1 …
    SC addedges 1 1 2 0                     -> ok | … E 1 1 2 0 … H 1 0 R 1 -1 …   (node 2 joins track 1)
    SC addedges 1 1 2 0                     -> refused:exists | (state unchanged)
    SC addedges 1 2 1 1                     -> refused:exists | (the pair is oriented by time first)
    SC deledges 2 1 2 2 1                   -> refused:missing-edge | (state unchanged: (2,1) is no edge)
    SC deledges 1 1 2                       -> ok | … E 0 … H 2 0 R 2 -1 …
    SC addedges 1 2 1 0                     -> err:invalid | (state unchanged: is_valid accepts the oriented
                                               pair, UserAddEdge gets the original one and raises)
    SC addnodes 30 2 2 2 2 7 8 - - 1 3 2 t 1 t 2 - 0
                                            -> ok | N 4 … 3 2 7 4 1 3 t 1 4 2 8 5 1 3 t 2 … H 4 0 R 4 4 …
                                               (times [2,2], track ids [7,8], no lineage / node_id column, one
                                               value column key 3 = [1, 2], pixels=None, force=0: nodes 3 and 4
                                               with ids from _get_new_node_ids, two entries, payload = node 4)
    SC delnodes 2 3 4                       -> ok | N 2 … H 6 0 R 6 -1 …
    SC swap 1 2                             -> refused:swap | (neither node has a predecessor)
    SC updattrs 2 1 2 1 20 2 t 4 t 5        -> ok | N 2 1 0 1 1 2 3 t 5 20 t 4 2 1 3 3 2 3 t 6 20 t 5 … H 7 0 R 7 -1 …
                                               (two nodes, ONE history entry, one refresh)
    SC updattrs 2 1 99 1 20 2 t 6 t 7       -> err:key | N 2 1 0 1 1 2 3 t 5 20 t 4 2 … 20 t 5 … H 7 0 R 7 -1 …
                                               (node 99 unknown: the update of node 1 to 6 is rolled back — repaired
                                               `_update_node_attrs` —, nothing registered, no refresh)
    SC undo                                 -> true | N 2 1 0 1 1 1 3 t 5 2 1 3 3 1 3 t 6 … H 7 1 R 8 -1 …
    SC isvalid 1 2                          -> true | …        SC isvalid 2 2 -> false | …
    SC frob                                 -> bad-op
-/
import FtModel.Controller
import FtModel.SessDrv
namespace Ft.ControllerDrv
open Ft Ft.SessDrv

def optCol {α} (p : P α) : P (Option (List α)) := do
  let ts ← get
  match ts with
  | "-" :: r => set r; pure none
  | _ => do let l ← listOf p; pure (some l)

def valCols : P (List (Key × List Val)) :=
  listOf (do let k ← nat; let vs ← listOf val; pure (k, vs))

def edgeP : P Edge := do let u ← nat; let v ← nat; pure (u, v)

def ctlOpP : P CtlOp := do
  let t ← tok
  match t with
  | "addnodes" => do
      let idKey ← nat
      let time ← optCol nat; let tid ← optCol nat; let lin ← optCol nat; let nid ← optCol nat
      let other ← valCols
      let px ← optCol (listOf nat)
      let f ← bool
      pure (.addNodes { cols := { time := time, tid := tid, lin := lin, nodeId := nid, other := other },
                        pixels := px, force := f, idKey := idKey })
  | "delnodes" => do let ns ← listOf nat; pure (.deleteNodes ns)
  | "addedges" => do let es ← listOf edgeP; let f ← bool; pure (.addEdges es f)
  | "deledges" => do let es ← listOf edgeP; pure (.deleteEdges es)
  | "swap" => do let a ← nat; let b ← nat; pure (.swapPredecessors a b)
  | "updattrs" => do let ns ← listOf nat; let cols ← valCols; pure (.updateNodeAttrs ns cols)
  | "paint" => do
      let v ← nat
      let gs ← listOf (do let ps ← listOf nat; let old ← nat; pure (ps, old))
      let tid ← nat; let f ← bool
      pure (.updateSegmentations v gs tid f)
  | "undo" => pure .undo
  | "redo" => pure .redo
  | "isvalid" => do let e ← edgeP; pure (.isValid e)
  | _ => failure

def showReject : Reject → String
  | .exists_ => "exists" | .horizontal => "horizontal" | .triple => "triple" | .closest => "closest"

def showSilent : Silent → String
  | .reject r => "refused:" ++ showReject r
  | .missingEdge => "refused:missing-edge"
  | .swapInvalid => "refused:swap"

def stepRaw (s : St) (ts : List String) : St × String :=
  match ts with
  | "init" :: _ => SessDrv.stepRaw s ts
  | ["show"] => SessDrv.stepRaw s ts
  | ["reg", _, _] => SessDrv.stepRaw s ts
  | _ =>
    match (ctlOpP.run ts) with
    | some (op, []) =>
      let (s', out) := s.ctlStep op
      let outS := match s.ctlSilent op with
        | some w => [showSilent w]
        | none => showOut out
      (s', joinSp (outS ++ ["|"] ++ showState s' ++ showSuccOrder s'))
    | _ => (s, "bad-op")

def step (s : St) (ts : List String) : St × String :=
  let (s', out) := stepRaw s ts
  if IouDrv.crossCheck s' then (s', out) else (s', "bad-model")

end Ft.ControllerDrv
