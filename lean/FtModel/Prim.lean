/-
  FtModel.Prim — the seven BasicActions: construct-and-apply, and `inverse()`.

  Every primitive returns `Except Err (St × PrimRec)`: the Python constructors validate before
  they touch the graph, so a raising primitive leaves the state unchanged (the *composite*
  actions are where partial application can happen; see User.lean).

  Python (src/funtracks/actions/…)      | here
  --------------------------------------+--------------------------------------------
  AddNode(node, attributes, pixels)     | `pAddNode`
  DeleteNode(node, pixels)              | `pDelNode`
  AddEdge(edge, attributes)             | `pAddEdge`
  DeleteEdge(edge)                      | `pDelEdge`
  UpdateTrackIDs(start, tid, lineage)   | `pUpdTid`
  UpdateNodeSeg(node, pixels, added)    | `pUpdSeg`
  UpdateNodeAttrs(node, attrs)          | `pUpdAttrs`
  action.inverse()                      | `invPrim`
  ActionGroup.inverse()                 | `invGroup`  (reverse order, recorded primitives only)
-/
import FtModel.Annot
namespace Ft

inductive Err where
  | invalid          -- InvalidActionError, not forceable
  | forceable        -- InvalidActionError(forceable=True)
  | value            -- ValueError
  | key              -- KeyError (also networkx lookups of missing nodes)
  | other
deriving Repr, DecidableEq, BEq

def Err.toStr : Err → String
  | .invalid => "invalid" | .forceable => "forceable" | .value => "value"
  | .key => "key" | .other => "other"

namespace St

/-- AddNode: validation (time / track id are structural here; position or pixels needed),
    paint, add node with all given attributes, notify annotators. -/
def pAddNode (s : St) (r : NodeRec) (pixels : Option (List Pix)) : Except Err (St × PrimRec) :=
  -- `pixels is None` ⇒ every position key must be among the attributes
  if pixels.isNone && !(s.posKeys.all (fun k => (alook k r.other).isSome)) then .error .value
  else if pixels.isSome && s.seg.isNone then .error .value    -- set_pixels raises before add_node
  else
    let s1 := match pixels, s.seg with
      | some ps, some g => { s with seg := some (g.setPixels ps r.id) }
      | _, _ => s
    -- graph.add_node on an existing node keeps its position and updates attributes
    let s2 := if s1.hasNode r.id then s1.updNode r.id (fun old =>
                  { r with other := amerge r.other old.other })
              else { s1 with nodes := s1.nodes ++ [r] }
    let s3 := s2.rpUpdate r.id
    let s4 := match s3.findNode r.id with
      | some r' => s3.trackOnAdd r'
      | none => s3
    .ok (s4, .addNode r pixels)

/-- what DeleteNode saves: registered features whose value is not None -/
def savedAttrs (s : St) (r : NodeRec) : NodeRec :=
  { r with
    lin := if s.linOn then r.lin else none,
    other := r.other.filter (fun kv => s.regNode.contains kv.1 && kv.2 != Val.none) }

def pDelNode (s : St) (n : Node) (pixels : Option (List Pix)) : Except Err (St × PrimRec) :=
  match s.findNode n with
  | none => .error .key
  | some r =>
    let saved := s.savedAttrs r
    let px := match pixels with
      | some p => some p
      | none => s.getPixels n
    let s1 := match px, s.seg with
      | some ps, some g => { s with seg := some (g.setPixels ps 0) }
      | _, _ => s
    -- networkx remove_node also drops incident edges silently
    let s2 := { s1 with nodes := s1.nodes.filter (·.id != n),
                        edges := s1.edges.filter (fun e => e.e.1 != n && e.e.2 != n) }
    let s3 := s2.trackOnDelete saved
    .ok (s3, .delNode saved px)

def pAddEdge (s : St) (e : Edge) (attrs : List (Key × Val)) : Except Err (St × PrimRec) :=
  if !(s.hasNode e.1) || !(s.hasNode e.2) then .error .value
  else
    let s1 := if s.hasEdge e then
        ({ s with edges := s.edges.map (fun (r : EdgeRec) => if r.e == e then
            { r with attrs := amerge attrs r.attrs } else r) } : St)
      else ({ s with edges := s.edges ++ [{ e := e, attrs := attrs }] } : St)
    .ok (s1.iouUpdateEdge e, .addEdge e attrs)

def pDelEdge (s : St) (e : Edge) : Except Err (St × PrimRec) :=
  match s.findEdge e with
  | none => .error .value
  | some r =>
    let saved := r.attrs.filter (fun kv => s.regEdge.contains kv.1 && kv.2 != Val.none)
    .ok ({ s with edges := s.edges.filter (·.e != e) }, .delEdge e saved)

def pUpdTid (s : St) (start : Node) (newT : Nat) (newL : Option Nat) : Except Err (St × PrimRec) :=
  match s.findNode start with
  | none => .error .key
  | some r =>
    let oldL := r.lin
    .ok (s.walk start r.tid newT oldL newL, .updTid start r.tid newT oldL newL)

def pUpdSeg (s : St) (n : Node) (pixels : List Pix) (added : Bool) : Except Err (St × PrimRec) :=
  match s.seg with
  | none => .error .value
  | some g =>
    if !(s.hasNode n) then .error .key else
    let s1 := { s with seg := some (g.setPixels pixels (if added then n else 0)) }
    .ok ((s1.rpUpdate n).iouUpdateNode n, .updSeg n pixels added)

def protectedKeys (s : St) : List Key := keyTime :: s.annotKeys

def pUpdAttrs (s : St) (n : Node) (attrs : List (Key × Val)) : Except Err (St × PrimRec) :=
  if attrs.any (fun kv => s.protectedKeys.contains kv.1) then .error .value
  else match s.findNode n with
  | none => .error .key
  | some r =>
    let prev := attrs.map (fun kv => (kv.1, (alook kv.1 r.other).getD Val.none))
    let s1 := attrs.foldl (fun st kv => st.setOther n kv.1 kv.2) s
    .ok (s1, .updAttrs n prev attrs)

/-- `action.inverse()`: construct-and-apply the opposite action; returns its record -/
def invPrim (s : St) : PrimRec → Except Err (St × PrimRec)
  | .addNode r _ => s.pDelNode r.id none
  | .delNode saved px => s.pAddNode saved px
  | .addEdge e _ => s.pDelEdge e
  | .delEdge e saved => s.pAddEdge e saved
  | .updTid start oldT _ oldL _ => s.pUpdTid start oldT oldL   -- UpdateTrackIDs(start, old tid, old lineage)
  | .updSeg n px added => s.pUpdSeg n px (!added)
  | .updAttrs n prev _ => s.pUpdAttrs n prev

/-- `ActionGroup.inverse()`: invert the recorded primitives in reverse order. If one of them
    raises, the exception propagates with the earlier inversions applied (state returned). -/
def invGroup (s : St) (recs : List PrimRec) : St × Except Err (List PrimRec) :=
  recs.reverse.foldl (fun (acc : St × Except Err (List PrimRec)) p =>
    match acc.2 with
    | .error e => (acc.1, .error e)
    | .ok done =>
      match acc.1.invPrim p with
      | .ok (s', r) => (s', .ok (done ++ [r]))
      | .error e => (acc.1, .error e)) (s, .ok [])

end St
end Ft
