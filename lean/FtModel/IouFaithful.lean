/-
  FtModel.IouFaithful — the IoU code paths of `EdgeAnnotator` mirrored AS WRITTEN
  (`src/funtracks/annotators/_edge_annotator.py`, `_compute_ious.py`), next to the idealised
  per-edge model `St.iouOf / iouUpdateEdge / iouCompute` of `FtModel/Annot.lean`.
  `FtProofs/Props/C09_R5F.lean` proves that the two coincide (`C09_faithful_bulk_eq`,
  `C09_faithful_incr_eq`).  Core Lean only.

  Python                                                   | here
  ---------------------------------------------------------+------------------------------------------
  segmentation[t]  (one frame, flattened)                  | `Seg.frameAt g t`  (cells outside the array
                                                           |   read 0, as everywhere in the model; an
                                                           |   IndexError in Python — never produced)
  _compute_ious(frame1, frame2):                           | `IouF.computeIous f1 f2`
    non_zero_indices = logical_and(frame1, frame2)         |   `nzPairs f1 f2` (zip, keep both non-zero)
    values, counts = np.unique(stacked, axis=1,            |   `dedupAdj (sortPairs nz)` (columns sorted
                               return_counts=True)         |    lexicographically, distinct), `nz.count p`
    frameK_label_sizes[id]                                 |   `fK.count id`
    ious.append((id1, id2, inter / union))                 |   entry `(id1, id2, inter, union)`; the model
                                                           |   never divides: the float is inter/union
  EdgeAnnotator._iou_update(edges, frame, next_frame):     | `St.iouUpdateFrames s k edges f1 f2`
    for id1, id2, iou in ious:                             |   `St.iouUpdateLoop` (structural recursion on
      if (id1,id2) in edges: _set_edge_attr(…, iou);       |    the triple list, carries the state and the
                             edges.remove((id1,id2))       |    shrinking edge list; `List.erase` = first
                                                           |    occurrence = `list.remove`)
    for edge in edges: _set_edge_attr(edge, key, 0)        |   `foldl … Val.zero` over what is left
  EdgeAnnotator.compute (iou part):                        | `St.iouComputeFaithful s`
    if segmentation is None: return                        |   `s.seg = none ⇒ s`
    iou_key in keys_to_compute                             |   `s.iouKey = some k ∧ s.iouActive`
    for source, target in graph.edges():                   |   `St.edgesNx s` : networkx order = nodes in
                                                           |    insertion order, successors in adjacency
                                                           |    (insertion) order
      edges_by_frames[(time s, time t)].append((s, t))     |   `St.groupEdges` : `aset key (old ++ [e])`
                                                           |    (dict: first-appearance order of keys,
                                                           |    in-place append for a known key)
    for (ts, tt), edges in edges_by_frames.items():        |   `foldl` over the groups with
      self._iou_update(edges, seg[ts], seg[tt])            |    `iouUpdateFrames … (frameAt ts) (frameAt tt)`
  EdgeAnnotator.update, body of `for edge in …`:           | `St.iouIncrVal g t1 t2 e`, `St.iouUpdateIncrFaithful s e`
    masked = np.where(frame == label, label, 0)            |   `IouF.maskFrame f l`
    np.max(masked_start) == 0 or np.max(masked_end) == 0   |   `listMax … == 0 || …`  ⇒ `Val.zero`
    iou_list = _compute_ious(masked_start, masked_end)     |   `computeIous m1 m2`
    iou = 0 if len(iou_list) == 0 else iou_list[0][2]      |   `[] ⇒ Val.zero`, `q :: _ ⇒ Val.iou q.inter q.union`
  … for AddEdge: [action.edge]; for UpdateNodeSeg:         | `iouUpdateIncrFaithful` on one edge;
    in_edges(node) + out_edges(node)                       |   `St.iouUpdateNodeFaithful s n`
  tracks.get_time(n) on a missing node (KeyError)          | `(s.timeOf n).getD 0` — excluded by the hypothesis
                                                           |   "endpoints are nodes" of every theorem
  `self.tracks._set_edge_attr(edge, key, v)`               | `St.setEdgeAttr s e k v`
  the literal `0`                                          | `Val.zero`

  Mutation variants (used only by the `C09_variant_*_differs` witnesses): `iouUpdateFramesByTarget`
  (edges of a group kept as a dict `{target: source}`), `iouIncrValNoSrcMask` (source frame not
  masked), `iouUpdateFramesSetdefault` (leftover loop keeps an existing value).
-/
import FtModel.Annot
namespace Ft

/-- `segmentation[t]` flattened -/
def Seg.frameAt (g : Seg) (t : Nat) : List Nat :=
  (List.range g.frame).map (fun o => g.data.getD (t * g.frame + o) 0)

namespace IouF

/-- lexicographic order on label pairs (column order of `np.unique(axis=1)`) -/
def pairLe (a b : Nat × Nat) : Bool := a.1 < b.1 || (a.1 == b.1 && a.2 ≤ b.2)

def insertPair (x : Nat × Nat) : List (Nat × Nat) → List (Nat × Nat)
  | [] => [x]
  | y :: ys => if pairLe x y then x :: y :: ys else y :: insertPair x ys

def sortPairs (l : List (Nat × Nat)) : List (Nat × Nat) := l.foldr insertPair []

/-- distinct elements of a sorted list (`np.unique` keeps the first of every run) -/
def dedupAdj : List (Nat × Nat) → List (Nat × Nat)
  | [] => []
  | [x] => [x]
  | x :: y :: r => if x == y then dedupAdj (y :: r) else x :: dedupAdj (y :: r)

/-- positions (as label pairs) where both frames are non-zero -/
def nzPairs (f1 f2 : List Nat) : List (Nat × Nat) :=
  (f1.zip f2).filter (fun p => p.1 != 0 && p.2 != 0)

/-- `_compute_ious`: `(id1, id2, intersection, union)` for every overlapping pair of non-zero
    labels, sorted lexicographically by `(id1, id2)` -/
def computeIous (f1 f2 : List Nat) : List (Nat × Nat × Nat × Nat) :=
  let nz := nzPairs f1 f2
  (dedupAdj (sortPairs nz)).map (fun p =>
    let inter := nz.count p
    (p.1, p.2, inter, f1.count p.1 + f2.count p.2 - inter))

/-- `np.where(frame == label, label, 0)` -/
def maskFrame (f : List Nat) (l : Nat) : List Nat := f.map (fun x => if x == l then l else 0)

/-- `np.max` of a label array (0 for the empty array, where numpy raises) -/
def listMax (f : List Nat) : Nat := f.foldl max 0

end IouF

namespace St
open IouF

/-- first loop of `_iou_update`: walk the triples; a triple whose pair is in the list sets the
    attribute and removes the pair from the list -/
def iouUpdateLoop (k : Key) : List (Nat × Nat × Nat × Nat) → St → List Edge → St × List Edge
  | [], st, edges => (st, edges)
  | q :: rest, st, edges =>
    let e : Edge := (q.1, q.2.1)
    if edges.contains e then
      iouUpdateLoop k rest (st.setEdgeAttr e k (Val.iou q.2.2.1 q.2.2.2)) (edges.erase e)
    else iouUpdateLoop k rest st edges

/-- `_iou_update(edges, seg_frame, seg_next_frame)` -/
def iouUpdateFrames (s : St) (k : Key) (edges : List Edge) (f1 f2 : List Nat) : St :=
  let r := iouUpdateLoop k (computeIous f1 f2) s edges
  -- "anything left has IOU of 0"
  r.2.foldl (fun st e => st.setEdgeAttr e k Val.zero) r.1

/-- `graph.edges()` of a networkx DiGraph: per node (insertion order) its successors
    (adjacency insertion order) -/
def edgesNx (s : St) : List Edge :=
  s.nodes.flatMap (fun r => (s.succs r.id).map (fun v => (r.id, v)))

/-- `(get_time(source), get_time(target))` -/
def framesOf (s : St) (e : Edge) : Nat × Nat := ((s.timeOf e.1).getD 0, (s.timeOf e.2).getD 0)

/-- `edges_by_frames[frames].append(edge)` on a `defaultdict(list)` -/
def groupAdd (s : St) (d : List ((Nat × Nat) × List Edge)) (e : Edge) : List ((Nat × Nat) × List Edge) :=
  aset (s.framesOf e) ((alook (s.framesOf e) d).getD [] ++ [e]) d

def groupEdges (s : St) (es : List Edge) : List ((Nat × Nat) × List Edge) :=
  es.foldl (groupAdd s) []

/-- the loop `for (t_source, t_target), edges in edges_by_frames.items()` over a given dict -/
def iouGroupsRun (s : St) (g : Seg) (k : Key) (groups : List ((Nat × Nat) × List Edge)) : St :=
  groups.foldl (fun st grp => st.iouUpdateFrames k grp.2 (g.frameAt grp.1.1) (g.frameAt grp.1.2)) s

/-- `EdgeAnnotator.compute` (IoU part), the edges enumerated in the order `es` -/
def iouComputeFaithfulOn (s : St) (es : List Edge) : St :=
  match s.seg, s.iouKey with
  | some g, some k =>
    if !s.iouActive then s else
    -- times and frames are read from the tracks before / independently of the attribute writes
    iouGroupsRun s g k (s.groupEdges es)
  | _, _ => s

/-- `EdgeAnnotator.compute` (IoU part) -/
def iouComputeFaithful (s : St) : St := s.iouComputeFaithfulOn s.edgesNx

/-- the value `EdgeAnnotator.update` writes on one edge (frames `t1`, `t2` of its endpoints) -/
def iouIncrVal (g : Seg) (t1 t2 : Nat) (e : Edge) : Val :=
  let m1 := maskFrame (g.frameAt t1) e.1
  let m2 := maskFrame (g.frameAt t2) e.2
  if listMax m1 == 0 || listMax m2 == 0 then Val.zero
  else match computeIous m1 m2 with
    | [] => Val.zero
    | q :: _ => Val.iou q.2.2.1 q.2.2.2

/-- `EdgeAnnotator.update`, one iteration of `for edge in edges_to_update` -/
def iouUpdateIncrFaithful (s : St) (e : Edge) : St :=
  match s.seg, s.iouKey with
  | some g, some k =>
    if !s.iouActive then s else
    s.setEdgeAttr e k (iouIncrVal g (s.framesOf e).1 (s.framesOf e).2 e)
  | _, _ => s

/-- `EdgeAnnotator.update(UpdateNodeSeg)`: `in_edges(node) + out_edges(node)` -/
def iouUpdateNodeFaithful (s : St) (n : Node) : St :=
  let es := (s.edges.filter (·.e.2 == n)).map (·.e) ++ (s.edges.filter (·.e.1 == n)).map (·.e)
  es.foldl iouUpdateIncrFaithful s

/-! ### mutation variants (NOT the code; each is shown to differ by a `decide` witness) -/

/-- variant (i): the edges of a group are kept as a dict `{target: source}`; a triple `(id1, id2)`
    matches when `d.get(id2) == id1`, then `del d[id2]`; leftovers `(d[t], t) ↦ 0` -/
def iouUpdateLoopByTarget (k : Key) : List (Nat × Nat × Nat × Nat) → St → List (Node × Node) → St × List (Node × Node)
  | [], st, d => (st, d)
  | q :: rest, st, d =>
    if alook q.2.1 d == some q.1 then
      iouUpdateLoopByTarget k rest (st.setEdgeAttr (q.1, q.2.1) k (Val.iou q.2.2.1 q.2.2.2)) (adel q.2.1 d)
    else iouUpdateLoopByTarget k rest st d

def iouUpdateFramesByTarget (s : St) (k : Key) (edges : List Edge) (f1 f2 : List Nat) : St :=
  let d : List (Node × Node) := edges.foldl (fun d e => aset e.2 e.1 d) []      -- {target: source}
  let r := iouUpdateLoopByTarget k (computeIous f1 f2) s d
  r.2.foldl (fun st ts => st.setEdgeAttr (ts.2, ts.1) k Val.zero) r.1

def iouComputeByTarget (s : St) : St :=
  match s.seg, s.iouKey with
  | some g, some k =>
    if !s.iouActive then s else
    (s.groupEdges s.edgesNx).foldl (fun st grp =>
      st.iouUpdateFramesByTarget k grp.2 (g.frameAt grp.1.1) (g.frameAt grp.1.2)) s
  | _, _ => s

/-- variant (ii): only the target frame is masked -/
def iouIncrValNoSrcMask (g : Seg) (t1 t2 : Nat) (e : Edge) : Val :=
  let m1 := g.frameAt t1
  let m2 := maskFrame (g.frameAt t2) e.2
  if listMax (maskFrame m1 e.1) == 0 || listMax m2 == 0 then Val.zero
  else match computeIous m1 m2 with
    | [] => Val.zero
    | q :: _ => Val.iou q.2.2.1 q.2.2.2

/-- `dict.setdefault(key, v)` on the attributes of edge `e` -/
def setEdgeAttrDefault (s : St) (e : Edge) (k : Key) (v : Val) : St :=
  { s with edges := s.edges.map (fun r =>
      if r.e == e then (match alook k r.attrs with
        | some _ => r
        | none => { r with attrs := aset k v r.attrs }) else r) }

/-- variant (iii): the leftover loop uses `setdefault` -/
def iouUpdateFramesSetdefault (s : St) (k : Key) (edges : List Edge) (f1 f2 : List Nat) : St :=
  let r := iouUpdateLoop k (computeIous f1 f2) s edges
  r.2.foldl (fun st e => st.setEdgeAttrDefault e k Val.zero) r.1

def iouComputeSetdefault (s : St) : St :=
  match s.seg, s.iouKey with
  | some g, some k =>
    if !s.iouActive then s else
    (s.groupEdges s.edgesNx).foldl (fun st grp =>
      st.iouUpdateFramesSetdefault k grp.2 (g.frameAt grp.1.1) (g.frameAt grp.1.2)) s
  | _, _ => s

end St
end Ft
