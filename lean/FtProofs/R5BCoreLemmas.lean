/-
  FtProofs.R5BCoreLemmas — package R5B, part B1: the **annotation-free core** of a state and the
  fact that every primitive commutes with it.

  `coreWith A s` forgets everything the annotators named in `A` ever write or read:
    * the values stored under a key of `A` on nodes and edges (`strip A`),
    * the activation of the features of `A` (`rpActive`, `iouActive`) and their registry entries,
    * the same inside every recorded primitive of the history (`coreR A`),
    * the position keys (only read by the `pixels = None` validation of `AddNode`).
  Everything the graph / array / id dynamics depends on is kept: node ids, times, track ids, lineage
  ids, edges, the label array, the lookups, the maxima, the node-id counter, the shape of the
  history.  For EVERY `A` each primitive commutes with `coreWith A` (`core_pX`); `AddNode` under
  the side condition that the `pixels = None` validation is not what refuses it, and
  `UpdateNodeAttrs` provided the keys of `A` are protected.
-/
import FtProofs.R3DSimLemmas
import FtProofs.R5BLemmas
namespace Ft.R5B
open Ft Ft.St List

/-! ### attribute dictionaries -/

/-- drop the bindings of the keys in `A` -/
def strip (A : List Key) (l : List (Key × Val)) : List (Key × Val) :=
  l.filter (fun kv => !(A.contains kv.1))

@[simp] theorem strip_nil (A : List Key) : strip A [] = [] := rfl

theorem strip_cons_mem {A : List Key} {k : Key} (h : k ∈ A) (v : Val) (l : List (Key × Val)) :
    strip A ((k, v) :: l) = strip A l := by
  simp [strip, h]

theorem strip_cons_not_mem {A : List Key} {k : Key} (h : k ∉ A) (v : Val) (l : List (Key × Val)) :
    strip A ((k, v) :: l) = (k, v) :: strip A l := by
  simp [strip, h]

theorem strip_append (A : List Key) (l l' : List (Key × Val)) :
    strip A (l ++ l') = strip A l ++ strip A l' := by
  simp [strip]

theorem strip_aset_mem {A : List Key} {k : Key} (h : k ∈ A) (v : Val) (l : List (Key × Val)) :
    strip A (aset k v l) = strip A l := by
  induction l with
  | nil => simp [aset, strip, h]
  | cons x r ih =>
    obtain ⟨k', v'⟩ := x
    unfold aset
    by_cases hk : (k' == k) = true
    · have : k' = k := by simpa using hk
      subst this
      simp only [hk, if_true, strip_cons_mem h]
    · simp only [hk, Bool.false_eq_true, if_false]
      by_cases hm : k' ∈ A
      · rw [strip_cons_mem hm, strip_cons_mem hm, ih]
      · rw [strip_cons_not_mem hm, strip_cons_not_mem hm, ih]

theorem strip_aset_not_mem {A : List Key} {k : Key} (h : k ∉ A) (v : Val) (l : List (Key × Val)) :
    strip A (aset k v l) = aset k v (strip A l) := by
  induction l with
  | nil => simp [aset, strip, h]
  | cons x r ih =>
    obtain ⟨k', v'⟩ := x
    by_cases hk : (k' == k) = true
    · have : k' = k := by simpa using hk
      subst this
      simp only [aset, hk, if_true, strip_cons_not_mem h]
    · by_cases hm : k' ∈ A
      · simp only [aset, hk, Bool.false_eq_true, if_false, strip_cons_mem hm, ih]
      · simp only [aset, hk, Bool.false_eq_true, if_false, strip_cons_not_mem hm, ih]

theorem alook_strip_not_mem {A : List Key} {k : Key} (h : k ∉ A) (l : List (Key × Val)) :
    alook k (strip A l) = alook k l := by
  induction l with
  | nil => rfl
  | cons x r ih =>
    obtain ⟨k', v'⟩ := x
    by_cases hm : k' ∈ A
    · rw [strip_cons_mem hm, ih]
      have : (k' == k) = false := by
        apply Bool.eq_false_iff.2; intro he; exact h ((by simpa using he : k' = k) ▸ hm)
      simp [alook, this]
    · rw [strip_cons_not_mem hm]
      simp only [alook, ih]

theorem strip_amerge (A : List Key) (new old : List (Key × Val)) :
    strip A (amerge new old) = amerge (strip A new) (strip A old) := by
  unfold amerge
  induction new generalizing old with
  | nil => rfl
  | cons x r ih =>
    obtain ⟨k, v⟩ := x
    rw [List.foldl_cons, ih]
    by_cases hm : k ∈ A
    · rw [strip_cons_mem hm, strip_aset_mem hm]
    · rw [strip_cons_not_mem hm, List.foldl_cons, strip_aset_not_mem hm]

theorem strip_eq_self {A : List Key} {l : List (Key × Val)} (h : ∀ kv ∈ l, kv.1 ∉ A) : strip A l = l := by
  unfold strip
  rw [List.filter_eq_self]
  intro kv hkv
  simpa using h kv hkv


theorem contains_filter_not_mem {A : List Key} {k : Key} (h : k ∉ A) (reg : List Key) :
    (reg.filter (fun k => !(A.contains k))).contains k = reg.contains k := by
  rw [Bool.eq_iff_iff]
  simp only [List.contains_iff_mem, List.mem_filter, Bool.not_eq_true']
  constructor
  · exact fun h' => h'.1
  · intro h'
    refine ⟨h', ?_⟩
    apply Bool.eq_false_iff.2
    intro hc
    exact h (List.contains_iff_mem.1 hc)

/-- what `DeleteNode` / `DeleteEdge` save (registered, not `None`) commutes with `strip` -/
theorem strip_saved (A reg : List Key) (l : List (Key × Val)) :
    (strip A l).filter (fun kv => (reg.filter (fun k => !(A.contains k))).contains kv.1 && kv.2 != Val.none)
      = strip A (l.filter (fun kv => reg.contains kv.1 && kv.2 != Val.none)) := by
  induction l with
  | nil => rfl
  | cons x r ih =>
    obtain ⟨k, v⟩ := x
    by_cases hm : k ∈ A
    · rw [strip_cons_mem hm, ih, List.filter_cons]
      split
      · rw [strip_cons_mem hm]
      · rfl
    · rw [strip_cons_not_mem hm, List.filter_cons, List.filter_cons]
      simp only [contains_filter_not_mem hm]
      split
      · rw [strip_cons_not_mem hm, ih]
      · exact ih

/-! ### records -/

def coreN (A : List Key) (r : NodeRec) : NodeRec := { r with other := strip A r.other }
def coreE (A : List Key) (r : EdgeRec) : EdgeRec := { r with attrs := strip A r.attrs }

@[simp] theorem coreN_id (A : List Key) (r : NodeRec) : (coreN A r).id = r.id := rfl
@[simp] theorem coreN_time (A : List Key) (r : NodeRec) : (coreN A r).time = r.time := rfl
@[simp] theorem coreN_tid (A : List Key) (r : NodeRec) : (coreN A r).tid = r.tid := rfl
@[simp] theorem coreN_lin (A : List Key) (r : NodeRec) : (coreN A r).lin = r.lin := rfl
@[simp] theorem coreN_other (A : List Key) (r : NodeRec) : (coreN A r).other = strip A r.other := rfl
@[simp] theorem coreE_e (A : List Key) (r : EdgeRec) : (coreE A r).e = r.e := rfl
@[simp] theorem coreE_attrs (A : List Key) (r : EdgeRec) : (coreE A r).attrs = strip A r.attrs := rfl

/-- a recorded primitive without the annotators' values -/
def coreR (A : List Key) : PrimRec → PrimRec
  | .addNode r px => .addNode (coreN A r) px
  | .delNode r px => .delNode (coreN A r) px
  | .addEdge e at_ => .addEdge e (strip A at_)
  | .delEdge e at_ => .delEdge e (strip A at_)
  | .updTid a b c d e => .updTid a b c d e
  | .updSeg n px b => .updSeg n px b
  | .updAttrs n prev new => .updAttrs n prev new

def coreA (A : List Key) (a : ActRec) : ActRec := a.map (coreR A)

def coreH (A : List Key) (h : Hist ActRec) : Hist ActRec :=
  { undo := h.undo.map (coreA A), redo := h.redo.map (coreA A) }

/-- is the IoU feature one of the forgotten ones -/
def iouIn (A : List Key) (s : St) : Bool :=
  match s.iouKey with
  | some k => A.contains k
  | none => false

/-- **the annotation-free core** w.r.t. the key set `A` -/
def coreWith (A : List Key) (s : St) : St :=
  { s with
    nodes := s.nodes.map (coreN A),
    edges := s.edges.map (coreE A),
    posKeys := [],
    regNode := s.regNode.filter (fun k => !(A.contains k)),
    regEdge := s.regEdge.filter (fun k => !(A.contains k)),
    rpActive := s.rpActive.filter (fun k => !(A.contains k)),
    iouActive := s.iouActive && !(iouIn A s),
    hist := coreH A s.hist }

/-! ### read-only views -/

section views
variable (A : List Key) (s : St)

@[simp] theorem cw_nodes : (coreWith A s).nodes = s.nodes.map (coreN A) := rfl
@[simp] theorem cw_edges : (coreWith A s).edges = s.edges.map (coreE A) := rfl
@[simp] theorem cw_seg : (coreWith A s).seg = s.seg := rfl
@[simp] theorem cw_linOn : (coreWith A s).linOn = s.linOn := rfl
@[simp] theorem cw_t2n : (coreWith A s).t2n = s.t2n := rfl
@[simp] theorem cw_l2n : (coreWith A s).l2n = s.l2n := rfl
@[simp] theorem cw_maxTid : (coreWith A s).maxTid = s.maxTid := rfl
@[simp] theorem cw_maxLin : (coreWith A s).maxLin = s.maxLin := rfl
@[simp] theorem cw_counter : (coreWith A s).counter = s.counter := rfl
@[simp] theorem cw_rpAvail : (coreWith A s).rpAvail = s.rpAvail := rfl
@[simp] theorem cw_iouKey : (coreWith A s).iouKey = s.iouKey := rfl
@[simp] theorem cw_nextTid : (coreWith A s).nextTid = s.nextTid := rfl
@[simp] theorem cw_nextLin : (coreWith A s).nextLin = s.nextLin := rfl
@[simp] theorem cw_hist : (coreWith A s).hist = coreH A s.hist := rfl
@[simp] theorem cw_refreshes : (coreWith A s).refreshes = s.refreshes := rfl
@[simp] theorem cw_lastPayload : (coreWith A s).lastPayload = s.lastPayload := rfl
@[simp] theorem cw_annotKeys : (coreWith A s).annotKeys = s.annotKeys := rfl
@[simp] theorem cw_protectedKeys : (coreWith A s).protectedKeys = s.protectedKeys := rfl

@[simp] theorem cw_findNode (n : Node) : (coreWith A s).findNode n = (s.findNode n).map (coreN A) := by
  unfold findNode
  rw [cw_nodes, List.find?_map]
  rfl

@[simp] theorem cw_hasNode (n : Node) : (coreWith A s).hasNode n = s.hasNode n := by
  unfold hasNode; rw [cw_findNode]; simp

@[simp] theorem cw_timeOf (n : Node) : (coreWith A s).timeOf n = s.timeOf n := by
  unfold timeOf; rw [cw_findNode]; cases s.findNode n <;> rfl

@[simp] theorem cw_tidOf (n : Node) : (coreWith A s).tidOf n = s.tidOf n := by
  unfold tidOf; rw [cw_findNode]; cases s.findNode n <;> rfl

@[simp] theorem cw_linOf (n : Node) : (coreWith A s).linOf n = s.linOf n := by
  unfold linOf; rw [cw_findNode]; cases s.findNode n <;> rfl

@[simp] theorem cw_hasEdge (e : Edge) : (coreWith A s).hasEdge e = s.hasEdge e := by
  unfold hasEdge; rw [cw_edges, List.any_map]; rfl

@[simp] theorem cw_findEdge (e : Edge) : (coreWith A s).findEdge e = (s.findEdge e).map (coreE A) := by
  unfold findEdge
  rw [cw_edges, List.find?_map]
  rfl

@[simp] theorem cw_succs (u : Node) : (coreWith A s).succs u = s.succs u := by
  unfold succs; rw [cw_edges, List.filter_map, List.map_map]; rfl

@[simp] theorem cw_preds (u : Node) : (coreWith A s).preds u = s.preds u := by
  unfold preds; rw [cw_edges, List.filter_map, List.map_map]; rfl

@[simp] theorem cw_outdeg (u : Node) : (coreWith A s).outdeg u = s.outdeg u := by
  unfold outdeg; rw [cw_succs]

@[simp] theorem cw_indeg (u : Node) : (coreWith A s).indeg u = s.indeg u := by
  unfold indeg; rw [cw_preds]

@[simp] theorem cw_getPixels (n : Node) : (coreWith A s).getPixels n = s.getPixels n := by
  unfold getPixels; rw [cw_seg, cw_timeOf]

@[simp] theorem cw_hasTrackAt (tid time : Nat) : (coreWith A s).hasTrackAt tid time = s.hasTrackAt tid time := by
  unfold hasTrackAt; simp only [cw_t2n, cw_timeOf]

@[simp] theorem cw_iouOf (e : Edge) : (coreWith A s).iouOf e = s.iouOf e := by
  unfold iouOf; simp only [cw_seg, cw_timeOf]

@[simp] theorem cw_ids : (coreWith A s).ids = s.ids := by
  unfold ids; rw [cw_nodes, List.map_map]; rfl

@[simp] theorem cw_edgeList : (coreWith A s).edgeList = s.edgeList := by
  unfold edgeList; rw [cw_edges, List.map_map]; rfl

@[simp] theorem cw_skel : (coreWith A s).skel = s.skel := by
  unfold skel; rw [cw_nodes, List.map_map]; rfl

end views

/-! ### writers -/

/-- two states with the same fields except `nodes` -/
def setNodes (s : St) (l : List NodeRec) : St := { s with nodes := l }
def setEdges' (s : St) (l : List EdgeRec) : St := { s with edges := l }

theorem cw_setNodes (A : List Key) (s : St) (l : List NodeRec) :
    coreWith A (setNodes s l) = setNodes (coreWith A s) (l.map (coreN A)) := rfl
theorem cw_setEdges' (A : List Key) (s : St) (l : List EdgeRec) :
    coreWith A (setEdges' s l) = setEdges' (coreWith A s) (l.map (coreE A)) := rfl

theorem cw_updNode (A : List Key) (s : St) (n : Node) (f f' : NodeRec → NodeRec)
    (hf : ∀ r, coreN A (f r) = f' (coreN A r)) :
    coreWith A (s.updNode n f) = (coreWith A s).updNode n f' := by
  show coreWith A (setNodes s _) = setNodes (coreWith A s) _
  rw [cw_setNodes]
  congr 1
  rw [cw_nodes, List.map_map, List.map_map]
  apply List.map_congr_left
  intro r _
  simp only [Function.comp]
  by_cases h : (r.id == n) = true
  · simp only [h, if_true, coreN_id, hf]
  · simp only [h, coreN_id]; rfl

@[simp] theorem cw_setTid (A : List Key) (s : St) (n : Node) (t : Nat) :
    coreWith A (s.setTid n t) = (coreWith A s).setTid n t :=
  cw_updNode A s n _ _ (fun _ => rfl)

@[simp] theorem cw_setLin (A : List Key) (s : St) (n : Node) (l : Option Nat) :
    coreWith A (s.setLin n l) = (coreWith A s).setLin n l :=
  cw_updNode A s n _ _ (fun _ => rfl)

theorem cw_setOther_not_mem {A : List Key} {k : Key} (h : k ∉ A) (s : St) (n : Node) (v : Val) :
    coreWith A (s.setOther n k v) = (coreWith A s).setOther n k v :=
  cw_updNode A s n _ _ (fun r => by
    show ({ r with other := strip A (aset k v r.other) } : NodeRec) = _
    rw [strip_aset_not_mem h]; rfl)

theorem cw_setOther_mem {A : List Key} {k : Key} (h : k ∈ A) (s : St) (n : Node) (v : Val) :
    coreWith A (s.setOther n k v) = coreWith A s := by
  show coreWith A (setNodes s _) = _
  rw [cw_setNodes]
  show setNodes (coreWith A s) _ = setNodes (coreWith A s) (s.nodes.map (coreN A))
  congr 1
  rw [List.map_map]
  apply List.map_congr_left
  intro r _
  simp only [Function.comp]
  split
  · show ({ r with other := strip A (aset k v r.other) } : NodeRec) = _
    rw [strip_aset_mem h]; rfl
  · rfl

theorem cw_setEdgeAttr_not_mem {A : List Key} {k : Key} (h : k ∉ A) (s : St) (e : Edge) (v : Val) :
    coreWith A (s.setEdgeAttr e k v) = (coreWith A s).setEdgeAttr e k v := by
  show coreWith A (setEdges' s _) = setEdges' (coreWith A s) _
  rw [cw_setEdges']
  congr 1
  rw [cw_edges, List.map_map, List.map_map]
  apply List.map_congr_left
  intro r _
  simp only [Function.comp, coreE_e]
  by_cases he : (r.e == e) = true
  · simp only [he, if_true]
    show ({ r with attrs := strip A (aset k v r.attrs) } : EdgeRec) = _
    rw [strip_aset_not_mem h]; rfl
  · simp only [he]; rfl

theorem cw_setEdgeAttr_mem {A : List Key} {k : Key} (h : k ∈ A) (s : St) (e : Edge) (v : Val) :
    coreWith A (s.setEdgeAttr e k v) = coreWith A s := by
  show coreWith A (setEdges' s _) = _
  rw [cw_setEdges']
  show setEdges' (coreWith A s) _ = setEdges' (coreWith A s) (s.edges.map (coreE A))
  congr 1
  rw [List.map_map]
  apply List.map_congr_left
  intro r _
  simp only [Function.comp]
  split
  · show ({ r with attrs := strip A (aset k v r.attrs) } : EdgeRec) = _
    rw [strip_aset_mem h]; rfl
  · rfl

@[simp] theorem cw_bookAddT (A : List Key) (s : St) (ns : List Node) (id : Nat) :
    coreWith A (s.bookAddT ns id) = (coreWith A s).bookAddT ns id := rfl
@[simp] theorem cw_bookRemT (A : List Key) (s : St) (ns : List Node) (id : Nat) :
    coreWith A (s.bookRemT ns id) = (coreWith A s).bookRemT ns id := rfl
@[simp] theorem cw_bookAddL (A : List Key) (s : St) (ns : List Node) (id : Nat) :
    coreWith A (s.bookAddL ns id) = (coreWith A s).bookAddL ns id := rfl
@[simp] theorem cw_bookRemL (A : List Key) (s : St) (ns : List Node) (id : Nat) :
    coreWith A (s.bookRemL ns id) = (coreWith A s).bookRemL ns id := rfl
@[simp] theorem cw_bookMoveT (A : List Key) (s : St) (ns : List Node) (a b : Nat) :
    coreWith A (s.bookMoveT ns a b) = (coreWith A s).bookMoveT ns a b := rfl
@[simp] theorem cw_bookMoveL (A : List Key) (s : St) (ns : List Node) (a : Option Nat) (b : Nat) :
    coreWith A (s.bookMoveL ns a b) = (coreWith A s).bookMoveL ns a b := by
  cases a <;> rfl

@[simp] theorem cw_trackOnAdd (A : List Key) (s : St) (r : NodeRec) :
    (coreWith A s).trackOnAdd (coreN A r) = coreWith A (s.trackOnAdd r) := by
  unfold trackOnAdd
  simp only [cw_linOn, coreN_lin, coreN_id, coreN_tid]
  split <;> rfl

@[simp] theorem cw_trackOnDelete (A : List Key) (s : St) (r : NodeRec) :
    (coreWith A s).trackOnDelete (coreN A r) = coreWith A (s.trackOnDelete r) := by
  unfold trackOnDelete
  simp only [cw_linOn, coreN_lin, coreN_id, coreN_tid]
  split <;> rfl

theorem cw_withSeg (A : List Key) (s : St) (g : Seg) : coreWith A (s.withSeg g) = (coreWith A s).withSeg g := rfl

/-! ### the relabel walk -/

def cwAcc (A : List Key) (a : WalkAcc) : WalkAcc := { a with s := coreWith A a.s }

theorem walkNode_cw (A : List Key) (old new : Nat) (nl : Option Nat) (u : Bool) (a : WalkAcc) (n : Node) :
    walkNode old new nl u (cwAcc A a) n = cwAcc A (walkNode old new nl u a n) := by
  rcases a with ⟨s, flag, tN, lN, nx⟩
  cases u <;> cases flag
  · simp only [walkNode, cwAcc, Bool.false_eq_true, if_false, cw_succs]
  · simp only [walkNode, cwAcc, Bool.false_eq_true, if_false, if_true, cw_tidOf]
    by_cases h : (s.tidOf n == some old) = true
    · simp only [h, if_true, ← cw_setTid, cw_succs]
    · simp only [h, Bool.false_eq_true, if_false, cw_succs]
  · simp only [walkNode, cwAcc, Bool.false_eq_true, if_false, if_true, ← cw_setLin, cw_succs]
  · simp only [walkNode, cwAcc, if_true, ← cw_setLin, cw_tidOf]
    by_cases h : ((s.setLin n nl).tidOf n == some old) = true
    · simp only [h, if_true, ← cw_setTid, cw_succs]
    · simp only [h, Bool.false_eq_true, if_false, cw_succs]

theorem foldl_walkNode_cw (A : List Key) (old new : Nat) (nl : Option Nat) (u : Bool) (l : List Node)
    (a : WalkAcc) :
    l.foldl (walkNode old new nl u) (cwAcc A a) = cwAcc A (l.foldl (walkNode old new nl u) a) := by
  induction l generalizing a with
  | nil => rfl
  | cons x l ih => rw [foldl_cons, foldl_cons, walkNode_cw, ih]

theorem walkLevels_cw (A : List Key) (old new : Nat) (nl : Option Nat) (u : Bool) (fuel : Nat)
    (a : WalkAcc) :
    walkLevels old new nl u fuel (cwAcc A a) = cwAcc A (walkLevels old new nl u fuel a) := by
  induction fuel generalizing a with
  | zero => rfl
  | succ f ih =>
    rcases a with ⟨s, flag, tN, lN, nx⟩
    cases nx with
    | nil => rfl
    | cons c cs =>
      show walkLevels old new nl u f ((c :: cs).foldl (walkNode old new nl u)
          (cwAcc A ⟨s, flag, tN, lN, []⟩)) = _
      rw [foldl_walkNode_cw, ih]
      rfl

theorem walkFin_cw (A : List Key) (u : Bool) (a : WalkAcc) (oT nT : Nat) (oL nL : Option Nat) :
    R3D.walkFin u (cwAcc A a) oT nT oL nL = coreWith A (R3D.walkFin u a oT nT oL nL) := by
  unfold R3D.walkFin
  cases u with
  | false => exact (cw_bookMoveT A a.s a.tNodes oT nT).symm
  | true =>
    cases nL with
    | none => exact (cw_bookMoveT A a.s a.tNodes oT nT).symm
    | some nl =>
      show ((coreWith A a.s).bookMoveT a.tNodes oT nT).bookMoveL a.lNodes oL nl =
        coreWith A ((a.s.bookMoveT a.tNodes oT nT).bookMoveL a.lNodes oL nl)
      rw [cw_bookMoveL, cw_bookMoveT]

@[simp] theorem cw_walk (A : List Key) (s : St) (start : Node) (oT nT : Nat) (oL nL : Option Nat) :
    (coreWith A s).walk start oT nT oL nL = coreWith A (s.walk start oT nT oL nL) := by
  rw [R3D.walk_def, R3D.walk_def]
  simp only [cw_linOn, cw_nodes, List.length_map]
  show R3D.walkFin _ (walkLevels oT nT nL (nL.isSome && s.linOn) (s.nodes.length + 1)
        (cwAcc A ⟨s, true, [], [], [start]⟩)) oT nT oL nL = _
  rw [walkLevels_cw, walkFin_cw]

/-! ### queries -/

theorem insByTime_cw (A : List Key) (s : St) (x : Node) (l : List Node) :
    insByTime (coreWith A s) x l = insByTime s x l := by
  induction l with
  | nil => rfl
  | cons y ys ih => simp only [insByTime, ih, cw_timeOf]

theorem sortByTime_cw (A : List Key) (s : St) (l : List Node) :
    sortByTime (coreWith A s) l = sortByTime s l := by
  unfold sortByTime
  congr 1
  funext acc x
  exact insByTime_cw A s x acc

theorem scanNeighbors_cw (A : List Key) (s : St) (time : Nat) (l : List Node) (pred : Option Node) :
    scanNeighbors (coreWith A s) time l pred = scanNeighbors s time l pred := by
  induction l generalizing pred with
  | nil => rfl
  | cons y ys ih => simp only [scanNeighbors, ih, cw_timeOf]

theorem cw_trackNeighbors (A : List Key) (s : St) (tid time : Nat) :
    (coreWith A s).trackNeighbors tid time =
      (coreWith A (s.trackNeighbors tid time).1, (s.trackNeighbors tid time).2) := by
  unfold St.trackNeighbors
  show (match alook tid s.t2n with | none => _ | some [] => _ | some cands => _) = _
  rcases h : alook tid s.t2n with _ | (_ | ⟨c, cs⟩)
  · rfl
  · rfl
  · simp only [sortByTime_cw, scanNeighbors_cw]; rfl

theorem freshFrom_cw (A : List Key) (s : St) (fuel id c : Nat) :
    freshFrom (coreWith A s) fuel id c = freshFrom s fuel id c := by
  induction fuel generalizing id c with
  | zero => rfl
  | succ f ih => simp only [freshFrom, cw_hasNode, ih]

theorem cw_newNodeIds (A : List Key) (s : St) (n : Nat) :
    (coreWith A s).newNodeIds n = (coreWith A (s.newNodeIds n).1, (s.newNodeIds n).2) := by
  unfold newNodeIds
  simp only [cw_counter, cw_nodes, List.length_map]
  have : (fun (acc : List Node × Nat) id =>
      ((acc.1 ++ [(freshFrom (coreWith A s) (s.nodes.length + 1) id acc.2).1]),
        (freshFrom (coreWith A s) (s.nodes.length + 1) id acc.2).2)) =
      (fun (acc : List Node × Nat) id =>
      ((acc.1 ++ [(freshFrom s (s.nodes.length + 1) id acc.2).1]),
        (freshFrom s (s.nodes.length + 1) id acc.2).2)) := by
    funext acc id; rw [freshFrom_cw]
  rw [this]
  rfl

/-! ### annotators -/

theorem cw_foldl_setOther (A : List Key) (n : Node) (v : Val) (ks : List Key) (s : St) :
    coreWith A (ks.foldl (fun st k => st.setOther n k v) s) =
      (ks.filter (fun k => !(A.contains k))).foldl (fun st k => st.setOther n k v) (coreWith A s) := by
  induction ks generalizing s with
  | nil => rfl
  | cons k ks ih =>
    rw [foldl_cons, ih]
    by_cases hm : k ∈ A
    · have : (k :: ks).filter (fun k => !(A.contains k)) = ks.filter (fun k => !(A.contains k)) := by
        simp [hm]
      rw [this, cw_setOther_mem hm]
    · have : (k :: ks).filter (fun k => !(A.contains k)) = k :: ks.filter (fun k => !(A.contains k)) := by
        simp [hm]
      rw [this, foldl_cons, cw_setOther_not_mem hm]

@[simp] theorem cw_rpUpdate (A : List Key) (s : St) (n : Node) :
    (coreWith A s).rpUpdate n = coreWith A (s.rpUpdate n) := by
  unfold rpUpdate
  simp only [cw_seg, cw_timeOf]
  cases hg : s.seg with
  | none => rfl
  | some g =>
    cases ht : s.timeOf n with
    | none => rfl
    | some t =>
      show (if ((s.rpActive.filter (fun k => !(A.contains k))).isEmpty) = true then coreWith A s else
          (s.rpActive.filter (fun k => !(A.contains k))).foldl _ (coreWith A s)) =
        coreWith A (if s.rpActive.isEmpty = true then s else s.rpActive.foldl _ s)
      by_cases h1 : s.rpActive.isEmpty = true
      · have : s.rpActive = [] := List.isEmpty_iff.1 h1
        simp only [this, List.filter_nil, List.isEmpty_nil, if_true]
      · simp only [h1, Bool.false_eq_true, if_false]
        rw [cw_foldl_setOther]
        by_cases h2 : (s.rpActive.filter (fun k => !(A.contains k))).isEmpty = true
        · have : s.rpActive.filter (fun k => !(A.contains k)) = [] := List.isEmpty_iff.1 h2
          simp only [this, List.isEmpty_nil, if_true, List.foldl_nil]
        · simp only [h2, Bool.false_eq_true, if_false]

@[simp] theorem cw_iouUpdateEdge (A : List Key) (s : St) (e : Edge) :
    (coreWith A s).iouUpdateEdge e = coreWith A (s.iouUpdateEdge e) := by
  unfold iouUpdateEdge
  simp only [cw_iouKey, cw_seg, cw_iouOf]
  cases hk : s.iouKey with
  | none => rfl
  | some k =>
    show (if ((s.iouActive && !(iouIn A s)) && s.seg.isSome) = true then _ else _) = _
    have hin : iouIn A s = A.contains k := by unfold iouIn; rw [hk]
    rw [hin]
    by_cases hm : k ∈ A
    · have hc : A.contains k = true := List.contains_iff_mem.2 hm
      simp only [hc, Bool.not_true, Bool.and_false, Bool.false_and, Bool.false_eq_true, if_false]
      split
      · rw [cw_setEdgeAttr_mem hm]
      · rfl
    · have hc : A.contains k = false := by
        apply Bool.eq_false_iff.2; intro h; exact hm (List.contains_iff_mem.1 h)
      simp only [hc, Bool.not_false, Bool.and_true]
      split
      · rw [cw_setEdgeAttr_not_mem hm]
      · rfl

theorem cw_foldl_iouUpdateEdge (A : List Key) (es : List Edge) (s : St) :
    es.foldl iouUpdateEdge (coreWith A s) = coreWith A (es.foldl iouUpdateEdge s) := by
  induction es generalizing s with
  | nil => rfl
  | cons e es ih => rw [foldl_cons, foldl_cons, cw_iouUpdateEdge, ih]

@[simp] theorem cw_iouUpdateNode (A : List Key) (s : St) (n : Node) :
    (coreWith A s).iouUpdateNode n = coreWith A (s.iouUpdateNode n) := by
  unfold iouUpdateNode
  have h1 : ((coreWith A s).edges.filter (·.e.2 == n)).map (·.e) = (s.edges.filter (·.e.2 == n)).map (·.e) := by
    rw [cw_edges, List.filter_map, List.map_map]; rfl
  have h2 : ((coreWith A s).edges.filter (·.e.1 == n)).map (·.e) = (s.edges.filter (·.e.1 == n)).map (·.e) := by
    rw [cw_edges, List.filter_map, List.map_map]; rfl
  simp only [h1, h2]
  exact cw_foldl_iouUpdateEdge A _ s

@[simp] theorem cw_iouCompute (A : List Key) (s : St) :
    (coreWith A s).iouCompute = coreWith A s.iouCompute := by
  unfold iouCompute
  have h1 : (coreWith A s).edges.map (·.e) = s.edges.map (·.e) := by
    rw [cw_edges, List.map_map]; rfl
  rw [h1]
  exact cw_foldl_iouUpdateEdge A _ s

/-! ### the seven primitives -/

def liftP (A : List Key) : Except Err (St × PrimRec) → Except Err (St × PrimRec)
  | .ok (s, r) => .ok (coreWith A s, coreR A r)
  | .error e => .error e

def liftR (A : List Key) : Except Err (List PrimRec) → Except Err (List PrimRec)
  | .ok recs => .ok (coreA A recs)
  | .error e => .error e

def liftU (A : List Key) (o : UOut) : UOut := (coreWith A o.1, liftR A o.2)

@[simp] theorem liftU_fst (A : List Key) (o : UOut) : (liftU A o).1 = coreWith A o.1 := rfl
@[simp] theorem liftU_snd (A : List Key) (o : UOut) : (liftU A o).2 = liftR A o.2 := rfl

theorem core_pDelEdge (A : List Key) (s : St) (e : Edge) :
    (coreWith A s).pDelEdge e = liftP A (s.pDelEdge e) := by
  unfold pDelEdge
  rw [cw_findEdge]
  cases s.findEdge e with
  | none => rfl
  | some r =>
    show Except.ok (_, _) = Except.ok (_, _)
    congr 2
    · show setEdges' (coreWith A s) _ = coreWith A (setEdges' s _)
      rw [cw_setEdges', cw_edges, List.filter_map]
      rfl
    · show PrimRec.delEdge e _ = PrimRec.delEdge e _
      congr 1
      exact strip_saved A s.regEdge r.attrs

theorem cw_addEdgeRaw (A : List Key) (s : St) (e : Edge) (attrs : List (Key × Val)) :
    (coreWith A s).addEdgeRaw e (strip A attrs) = coreWith A (s.addEdgeRaw e attrs) := by
  unfold addEdgeRaw
  rw [cw_hasEdge]
  by_cases h : s.hasEdge e = true
  · simp only [h, if_true]
    show setEdges' (coreWith A s) _ = coreWith A (setEdges' s _)
    rw [cw_setEdges']
    congr 1
    rw [cw_edges, List.map_map, List.map_map]
    apply List.map_congr_left
    intro r _
    simp only [Function.comp, coreE_e]
    by_cases he : (r.e == e) = true
    · simp only [he, if_true]
      show _ = ({ r with attrs := strip A (amerge attrs r.attrs) } : EdgeRec)
      rw [strip_amerge]; rfl
    · simp only [he]; rfl
  · simp only [h, Bool.false_eq_true, if_false]
    show setEdges' (coreWith A s) _ = coreWith A (setEdges' s _)
    rw [cw_setEdges', cw_edges, List.map_append]
    rfl

theorem core_pAddEdge (A : List Key) (s : St) (e : Edge) (attrs : List (Key × Val)) :
    (coreWith A s).pAddEdge e (strip A attrs) = liftP A (s.pAddEdge e attrs) := by
  rw [R3D.pAddEdge_def, R3D.pAddEdge_def]
  simp only [cw_hasNode]
  by_cases h : (!(s.hasNode e.1) || !(s.hasNode e.2)) = true
  · simp only [h, if_true]; rfl
  · simp only [h, Bool.false_eq_true, if_false]
    rw [cw_addEdgeRaw, cw_iouUpdateEdge]
    rfl

theorem core_pUpdTid (A : List Key) (s : St) (n : Node) (t : Nat) (l : Option Nat) :
    (coreWith A s).pUpdTid n t l = liftP A (s.pUpdTid n t l) := by
  unfold pUpdTid
  rw [cw_findNode]
  cases s.findNode n with
  | none => rfl
  | some r => simp only [Option.map_some, coreN_tid, coreN_lin, cw_walk]; rfl

theorem core_pUpdSeg (A : List Key) (s : St) (n : Node) (px : List Pix) (b : Bool) :
    (coreWith A s).pUpdSeg n px b = liftP A (s.pUpdSeg n px b) := by
  unfold pUpdSeg
  rw [cw_seg, cw_hasNode]
  cases hg : s.seg with
  | none => rfl
  | some g =>
    simp only
    by_cases h : (!(s.hasNode n)) = true
    · simp only [h, if_true]; rfl
    · simp only [h, Bool.false_eq_true, if_false]
      show Except.ok (((((coreWith A s).withSeg _).rpUpdate n).iouUpdateNode n), _) = _
      rw [← cw_withSeg, cw_rpUpdate, cw_iouUpdateNode]
      rfl

/-- `A` consists of protected keys -/
def PA (A : List Key) (s : St) : Prop := ∀ k ∈ A, k ∈ s.protectedKeys

theorem cw_foldl_setOther_attrs {A : List Key} (n : Node) (attrs : List (Key × Val))
    (h : ∀ kv ∈ attrs, kv.1 ∉ A) (s : St) :
    coreWith A (attrs.foldl (fun st kv => st.setOther n kv.1 kv.2) s) =
      attrs.foldl (fun st kv => st.setOther n kv.1 kv.2) (coreWith A s) := by
  induction attrs generalizing s with
  | nil => rfl
  | cons kv r ih =>
    rw [foldl_cons, foldl_cons, ih (fun x hx => h x (mem_cons_of_mem _ hx)),
      cw_setOther_not_mem (h kv mem_cons_self)]

theorem core_pUpdAttrs {A : List Key} {s : St} (hA : PA A s) (n : Node) (attrs : List (Key × Val)) :
    (coreWith A s).pUpdAttrs n attrs = liftP A (s.pUpdAttrs n attrs) := by
  unfold pUpdAttrs
  rw [cw_protectedKeys, cw_findNode]
  by_cases h : (attrs.any (fun kv => s.protectedKeys.contains kv.1)) = true
  · simp only [h, if_true]; rfl
  · simp only [h, Bool.false_eq_true, if_false]
    have hfree : ∀ kv ∈ attrs, kv.1 ∉ A := by
      intro kv hkv hm
      apply h
      exact any_eq_true.2 ⟨kv, hkv, List.contains_iff_mem.2 (hA _ hm)⟩
    cases s.findNode n with
    | none => rfl
    | some r =>
      simp only [Option.map_some, coreN_other]
      show Except.ok (_, _) = Except.ok (_, _)
      congr 2
      · exact (cw_foldl_setOther_attrs n attrs hfree s).symm
      · have e1 : attrs.map (fun kv => (kv.1, (alook kv.1 (strip A r.other)).getD Val.none)) =
            attrs.map (fun kv => (kv.1, (alook kv.1 r.other).getD Val.none)) := by
          apply List.map_congr_left
          intro kv hkv
          rw [alook_strip_not_mem (hfree kv hkv)]
        show PrimRec.updAttrs n (attrs.map (fun kv => (kv.1, (alook kv.1 (strip A r.other)).getD Val.none))) attrs =
          PrimRec.updAttrs n (attrs.map (fun kv => (kv.1, (alook kv.1 r.other).getD Val.none))) attrs
        rw [e1]

theorem cw_paintWith (A : List Key) (s : St) (px : Option (List Pix)) (v : Nat) :
    (coreWith A s).paintWith px v = coreWith A (s.paintWith px v) := by
  unfold paintWith
  rw [cw_seg]
  cases px <;> cases s.seg <;> rfl

theorem cw_addNodeRaw (A : List Key) (s : St) (r : NodeRec) :
    (coreWith A s).addNodeRaw (coreN A r) = coreWith A (s.addNodeRaw r) := by
  unfold addNodeRaw
  rw [coreN_id, cw_hasNode]
  by_cases h : s.hasNode r.id = true
  · simp only [h, if_true]
    have := cw_updNode A s r.id (fun old => { r with other := amerge r.other old.other })
      (fun old => { coreN A r with other := amerge (coreN A r).other old.other }) (by
        intro old
        show ({ r with other := strip A (amerge r.other old.other) } : NodeRec) = _
        rw [strip_amerge]; rfl)
    exact this.symm
  · simp only [h, Bool.false_eq_true, if_false]
    show setNodes (coreWith A s) _ = coreWith A (setNodes s _)
    rw [cw_setNodes, cw_nodes, List.map_append]
    rfl

theorem cw_trackAdd (A : List Key) (s : St) (n : Node) :
    (coreWith A s).trackAdd n = coreWith A (s.trackAdd n) := by
  unfold trackAdd
  rw [cw_findNode]
  cases s.findNode n with
  | none => rfl
  | some r => exact cw_trackOnAdd A s r

theorem pAddNode_form (s : St) (r : NodeRec) (px : Option (List Pix)) :
    s.pAddNode r px =
      if px.isNone && !(s.posKeys.all (fun k => (alook k r.other).isSome)) then .error .value
      else if px.isSome && s.seg.isNone then .error .value
      else .ok ((((s.paintWith px r.id).addNodeRaw r).rpUpdate r.id).trackAdd r.id, .addNode r px) := rfl

/-- `AddNode` commutes with the core unless the `pixels = None` validation is what refuses it -/
theorem core_pAddNode (A : List Key) (s : St) (r : NodeRec) (px : Option (List Pix))
    (hpx : px.isSome = true ∨ s.posKeys.all (fun k => (alook k r.other).isSome) = true) :
    (coreWith A s).pAddNode (coreN A r) px = liftP A (s.pAddNode r px) := by
  rw [pAddNode_form, pAddNode_form]
  have h1 : (px.isNone && !(s.posKeys.all (fun k => (alook k r.other).isSome))) = false := by
    rcases hpx with h | h
    · cases px with
      | none => cases h
      | some p => rfl
    · rw [h]; simp
  have h1' : (px.isNone && !((coreWith A s).posKeys.all (fun k => (alook k (coreN A r).other).isSome))) = false := by
    show (px.isNone && !(([] : List Key).all _)) = false
    simp
  simp only [h1, h1', Bool.false_eq_true, if_false, cw_seg, coreN_id]
  by_cases h2 : (px.isSome && s.seg.isNone) = true
  · simp only [h2, if_true]; rfl
  · simp only [h2, Bool.false_eq_true, if_false]
    rw [cw_paintWith, cw_addNodeRaw, cw_rpUpdate, cw_trackAdd]
    rfl

theorem cw_savedAttrs (A : List Key) (s : St) (r : NodeRec) :
    (coreWith A s).savedAttrs (coreN A r) = coreN A (s.savedAttrs r) := by
  unfold savedAttrs
  show ({ coreN A r with lin := _, other := (strip A r.other).filter _ } : NodeRec) = _
  rw [show (coreWith A s).regNode = s.regNode.filter (fun k => !(A.contains k)) from rfl, strip_saved]
  rfl

theorem cw_delRaw (A : List Key) (s : St) (n : Node) :
    (coreWith A s).delRaw n = coreWith A (s.delRaw n) := by
  unfold delRaw
  show ({ coreWith A s with nodes := _, edges := _ } : St) = _
  rw [cw_nodes, cw_edges, List.filter_map, List.filter_map]
  rfl

theorem cw_delPixels (A : List Key) (s : St) (n : Node) (px : Option (List Pix)) :
    (coreWith A s).delPixels n px = s.delPixels n px := by
  unfold delPixels
  cases px with
  | none => exact cw_getPixels A s n
  | some p => rfl

theorem pDelNode_form (s : St) (n : Node) (px : Option (List Pix)) :
    s.pDelNode n px =
      match s.findNode n with
      | none => .error .key
      | some r => .ok (((s.paintWith (s.delPixels n px) 0).delRaw n).trackOnDelete (s.savedAttrs r),
                       .delNode (s.savedAttrs r) (s.delPixels n px)) := by
  unfold pDelNode
  cases s.findNode n with
  | none => rfl
  | some r =>
    simp only [delPixels, paintWith, delRaw]
    cases px <;> rfl

theorem core_pDelNode (A : List Key) (s : St) (n : Node) (px : Option (List Pix)) :
    (coreWith A s).pDelNode n px = liftP A (s.pDelNode n px) := by
  rw [pDelNode_form, pDelNode_form, cw_findNode]
  cases s.findNode n with
  | none => rfl
  | some r =>
    simp only [Option.map_some, cw_delPixels, cw_savedAttrs, cw_paintWith, cw_delRaw, cw_trackOnDelete]
    rfl

/-! ### inverses -/

/-- the only recorded primitive whose inverse can be refused by the `pixels = None` validation of
    `AddNode` is a `DeleteNode` recorded without pixels (never the case on a state with an array) -/
def PxOK : PrimRec → Prop
  | .delNode _ px => px.isSome = true
  | _ => True

theorem PA_of_cfg {A : List Key} {s t : St} (h : t.cfg = s.cfg) (hA : PA A s) : PA A t := by
  intro k hk
  rw [protectedKeys_of_avail (avail_of_reg (reg_of_cfg h))]
  exact hA k hk

theorem core_invPrim {A : List Key} {s : St} (hA : PA A s) (p : PrimRec) (hp : PxOK p) :
    (coreWith A s).invPrim (coreR A p) = liftP A (s.invPrim p) := by
  cases p with
  | addNode r px => exact core_pDelNode A s r.id none
  | delNode saved px => exact core_pAddNode A s saved px (Or.inl hp)
  | addEdge e at_ => exact core_pDelEdge A s e
  | delEdge e saved => exact core_pAddEdge A s e saved
  | updTid start oT nT oL nL => exact core_pUpdTid A s start oT oL
  | updSeg n px b => exact core_pUpdSeg A s n px (!b)
  | updAttrs n prev new => exact core_pUpdAttrs hA n prev

theorem invStep_lift {A : List Key} {acc : UOut} {p : PrimRec} (hA : PA A acc.1) (hp : PxOK p) :
    invStep (liftU A acc) (coreR A p) = liftU A (invStep acc p) := by
  unfold invStep
  rcases acc with ⟨st, r⟩
  cases r with
  | error e => rfl
  | ok done =>
    simp only [liftU_fst, liftU_snd, liftR]
    rw [core_invPrim hA p hp]
    cases st.invPrim p with
    | error e => rfl
    | ok v =>
      obtain ⟨s', r'⟩ := v
      simp only [liftP, liftU, liftR, coreA, List.map_append, List.map_cons, List.map_nil]

theorem cfg_invStep (acc : UOut) (p : PrimRec) : (invStep acc p).1.cfg = acc.1.cfg := by
  unfold invStep
  split
  · rfl
  · split
    · rename_i h; exact cfg_invPrim h
    · rfl

theorem foldl_invStep_lift {A : List Key} (l : List PrimRec) (hl : ∀ r ∈ l, PxOK r) (acc : UOut)
    (hA : PA A acc.1) :
    (l.map (coreR A)).foldl invStep (liftU A acc) = liftU A (l.foldl invStep acc) := by
  induction l generalizing acc with
  | nil => rfl
  | cons p l ih =>
    rw [List.map_cons, foldl_cons, foldl_cons, invStep_lift hA (hl p mem_cons_self)]
    exact ih (fun r hr => hl r (mem_cons_of_mem _ hr)) _ (PA_of_cfg (cfg_invStep acc p) hA)

theorem core_invGroup {A : List Key} {s : St} (hA : PA A s) (recs : List PrimRec)
    (hp : ∀ r ∈ recs, PxOK r) :
    (coreWith A s).invGroup (coreA A recs) = liftU A (s.invGroup recs) := by
  rw [invGroup_eq, invGroup_eq]
  unfold coreA
  rw [← List.map_reverse]
  exact foldl_invStep_lift recs.reverse (fun r hr => hp r (List.mem_reverse.1 hr)) (s, .ok []) hA

theorem core_rollback {A : List Key} {s : St} (hA : PA A s) (recs : List PrimRec)
    (hp : ∀ r ∈ recs, PxOK r) :
    (coreWith A s).rollback (coreA A recs) = coreWith A (s.rollback recs) := by
  unfold rollback
  rw [core_invGroup hA recs hp]
  rfl

/-! ### combinators -/

theorem thenPrim_lift_at {A : List Key} {acc : UOut} {f f' : St → Except Err (St × PrimRec)}
    (hf : f' (coreWith A acc.1) = liftP A (f acc.1)) :
    thenPrim (liftU A acc) f' = liftU A (thenPrim acc f) := by
  unfold thenPrim
  rcases acc with ⟨st, r⟩
  cases r with
  | error e => rfl
  | ok recs =>
    simp only [liftU_fst, liftU_snd, liftR] at hf ⊢
    rw [hf]
    cases f st with
    | error e => rfl
    | ok v =>
      obtain ⟨s', r'⟩ := v
      simp only [liftP, liftU, liftR, coreA, List.map_append, List.map_cons, List.map_nil]

theorem thenUser_lift_at {A : List Key} {acc : UOut} {f f' : St → UOut}
    (hf : f' (coreWith A acc.1) = liftU A (f acc.1)) :
    thenUser (liftU A acc) f' = liftU A (thenUser acc f) := by
  unfold thenUser
  rcases acc with ⟨st, r⟩
  cases r with
  | error e => rfl
  | ok recs =>
    simp only [liftU_fst, liftU_snd, liftR] at hf ⊢
    rw [hf]
    rcases f st with ⟨s', r'⟩
    cases r' with
    | error e => rfl
    | ok recs' => simp only [liftU, liftR, coreA, List.map_append]

theorem foldl_lift {α : Type} {A : List Key} (F F' : UOut → α → UOut)
    (hF : ∀ acc x, F' (liftU A acc) x = liftU A (F acc x)) (l : List α) (a : UOut) :
    l.foldl F' (liftU A a) = liftU A (l.foldl F a) := by
  induction l generalizing a with
  | nil => rfl
  | cons x l ih => rw [foldl_cons, foldl_cons, hF, ih]

theorem liftU_start (A : List Key) (s : St) : liftU A (s, .ok []) = (coreWith A s, .ok []) := rfl

theorem liftU_err (A : List Key) (s : St) (e : Err) : liftU A (s, .error e) = (coreWith A s, .error e) := rfl

end Ft.R5B
